(* C14 -- part 2: the composite routines (Array2D.resized_from, pad, trim, trimmed_array_from) in entry form and
   as equalities with the specification; pad-then-trim and enlarge-then-shrink are the identity. *)
From Coq Require Import ZArith List Bool Lia.
From PAV Require Import Base.Res Base.Check Model.C14 Proofs.C14.
Import ListNotations.
Local Open Scope Z_scope.

(* ------------------------------------------------------------------ resize_entry_formula, public form *)
Lemma resize_entry_formula {B} (zero pad : B) (a : list (list B)) H W r0 r1 :
  rectb H W a = true -> 0 < H -> 0 <= r0 -> 0 <= r1 ->
  exists m', resized_array_2d_from zero a (r0, r1) (-1, -1) pad = Ok m' /\ rectb r0 r1 m' = true /\
    forall i j d, 0 <= i < r0 -> 0 <= j < r1 ->
      let y := i + (int_half H - int_half r0) in let x := j + (int_half W - int_half r1) in
      (0 <= y < H /\ 0 <= x < W -> zget2 d m' i j = zget2 d a y x) /\
      (~ (0 <= y < H /\ 0 <= x < W) -> zget2 d m' i j = pad).
Proof.
  intros HB HP Hr0 Hr1. pose proof (rectb_W_nonneg _ _ _ HB HP) as HW.
  pose proof (Entries_self zero _ _ _ HB HP) as HE.
  destruct (resized_entries zero pad a H W _ r0 r1 HE HP Hr0 Hr1) as (m' & E & HM).
  exists m'. split; [exact E|]. destruct HM as (_ & _ & HR & HG). split; [apply Rect_rectb; assumption|].
  intros i j d Hi Hj. cbv zeta. rewrite !int_half_div by lia. rewrite (HG i j d Hi Hj). unfold resized_fun, inr.
  set (y := i + (H / 2 - r0 / 2)). set (x := j + (W / 2 - r1 / 2)).
  destruct HE as (_ & _ & _ & HS).
  split.
  - intros [Hy Hx]. destruct (Z.leb_spec 0 y), (Z.ltb_spec y H), (Z.leb_spec 0 x), (Z.ltb_spec x W); try lia. cbn [andb].
    symmetry. apply HS; lia.
  - intros HN. destruct (Z.leb_spec 0 y), (Z.ltb_spec y H), (Z.leb_spec 0 x), (Z.ltb_spec x W); cbn [andb]; try reflexivity.
    exfalso. apply HN. lia.
Qed.

(* ------------------------------------------------------------------ Mask2D.resized_from *)
Lemma mask_resized_entries (m : list (list bool)) H W g r0 r1 padv :
  Entries m H W g -> 0 < H -> 0 <= r0 -> 0 <= r1 ->
  exists m', mask_resized_from m (r0, r1) padv = Ok m' /\ Entries m' r0 r1 (resized_fun H W r0 r1 (negb (padv =? 0)) g).
Proof. intros. unfold mask_resized_from. now apply resized_entries. Qed.

Lemma mask_resized_is_spec (m : list (list bool)) H W r0 r1 padv :
  rectb H W m = true -> 0 < H -> 0 <= r0 -> 0 <= r1 ->
  mask_resized_from m (r0, r1) padv = Ok (resize_spec (negb (padv =? 0)) m r0 r1).
Proof. intros. unfold mask_resized_from. now apply (resized_is_spec _ _ _ H W). Qed.

(* ------------------------------------------------------------------ Array2D.resized_from *)
Section Arr.
  Context {B : Type} (zero : B).

  Definition EntriesA (arr : arr2d B) (R0 R1 : Z) (f : Z -> Z -> B) (g : Z -> Z -> bool) : Prop :=
    Entries (fst arr) R0 R1 f /\ Entries (snd arr) R0 R1 g.

  Lemma array_resized_entries (arr : arr2d B) H W f g r0 r1 mpv :
    EntriesA arr H W f g -> 0 < H -> 0 <= r0 -> 0 <= r1 ->
    exists out, array_resized_from zero arr (r0, r1) mpv = Ok out /\
      EntriesA out r0 r1 (masked_fun zero (resized_fun H W r0 r1 (negb (mpv =? 0)) g) (resized_fun H W r0 r1 zero f))
                         (resized_fun H W r0 r1 (negb (mpv =? 0)) g).
  Proof.
    intros [HF HG] HP Hr0 Hr1. unfold array_resized_from.
    destruct (resized_entries zero zero (fst arr) H W f r0 r1 HF HP Hr0 Hr1) as (ra & -> & HA). cbn [bind].
    destruct (mask_resized_entries (snd arr) H W g r0 r1 mpv HG HP Hr0 Hr1) as (rm & -> & HM). cbn [bind].
    destruct (mask_apply_entries zero ra rm r0 r1 _ _ HA HM) as (x & -> & HX). cbn [bind].
    eexists. split; [reflexivity|]. split; assumption.
  Qed.

  Lemma resized_arr_spec_entries (arr : arr2d B) H W f g r0 r1 mpv :
    EntriesA arr H W f g -> 0 <= r0 -> 0 <= r1 ->
    EntriesA (resized_arr_spec zero arr r0 r1 mpv) r0 r1
      (masked_fun zero (resized_fun H W r0 r1 (negb (mpv =? 0)) g) (resized_fun H W r0 r1 zero f))
      (resized_fun H W r0 r1 (negb (mpv =? 0)) g).
  Proof.
    intros [HF HG] Hr0 Hr1. unfold resized_arr_spec. split; cbn [fst snd].
    - apply zip_mask_entries; apply resize_spec_entries; assumption.
    - apply resize_spec_entries; assumption.
  Qed.

  Lemma EntriesA_ext (x y : arr2d B) R0 R1 f g f' g' :
    EntriesA x R0 R1 f g -> EntriesA y R0 R1 f' g' ->
    (forall i j, 0 <= i < R0 -> 0 <= j < R1 -> f i j = f' i j) ->
    (forall i j, 0 <= i < R0 -> 0 <= j < R1 -> g i j = g' i j) -> x = y.
  Proof.
    intros [X1 X2] [Y1 Y2] HF HG. destruct x as [xa xm], y as [ya ym]. cbn [fst snd] in *. f_equal.
    - apply (Entries_ext zero _ _ _ _ _ _ X1 Y1 HF).
    - apply (Entries_ext true _ _ _ _ _ _ X2 Y2 HG).
  Qed.

  (* the array pair is "proper": both components rectangular H x W, H >= 1 *)
  Definition properA (H W : Z) (arr : arr2d B) : Prop := rectb H W (fst arr) = true /\ rectb H W (snd arr) = true /\ 0 < H.

  Lemma properA_entries H W arr : properA H W arr -> EntriesA arr H W (zget2 zero (fst arr)) (zget2 true (snd arr)).
  Proof. intros (H1 & H2 & HP). split; apply Entries_self; assumption. Qed.

  (* MAIN 2: Array2D.resized_from is the centred crop / embedding of values and mask, masked entries zeroed *)
  Lemma array_resized_is_spec (arr : arr2d B) H W r0 r1 mpv :
    properA H W arr -> 0 <= r0 -> 0 <= r1 ->
    array_resized_from zero arr (r0, r1) mpv = Ok (resized_arr_spec zero arr r0 r1 mpv).
  Proof.
    intros HA Hr0 Hr1. pose proof (properA_entries _ _ _ HA) as HE. destruct HA as (_ & _ & HP).
    destruct (array_resized_entries arr H W _ _ r0 r1 mpv HE HP Hr0 Hr1) as (out & -> & HO). f_equal.
    apply (EntriesA_ext _ _ _ _ _ _ _ _ HO (resized_arr_spec_entries arr H W _ _ r0 r1 mpv HE Hr0 Hr1)); reflexivity.
  Qed.

  (* Array2D.padded_before_convolution_from *)
  Lemma padded_is_spec (arr : arr2d B) H W k0 k1 mpv :
    properA H W arr -> 1 <= k0 -> 1 <= k1 ->
    padded_before_convolution_from zero arr (k0, k1) mpv = Ok (resized_arr_spec zero arr (H + (k0 - 1)) (W + (k1 - 1)) mpv).
  Proof.
    intros HA Hk0 Hk1. pose proof (properA_entries _ _ _ HA) as [_ HM]. pose proof HA as (HB & _ & HP).
    pose proof (rectb_W_nonneg _ _ _ HB HP) as HW.
    destruct (Entries_shape _ _ _ _ HM HP) as [E1 E2]. unfold padded_before_convolution_from. rewrite E1, E2. cbn [fst snd].
    apply (array_resized_is_spec arr H W); try assumption; lia.
  Qed.
  Lemma padded_entries (arr : arr2d B) H W f g k0 k1 mpv :
    EntriesA arr H W f g -> 0 < H -> 1 <= k0 -> 1 <= k1 ->
    let r0 := H + (k0 - 1) in let r1 := W + (k1 - 1) in
    exists out, padded_before_convolution_from zero arr (k0, k1) mpv = Ok out /\
      EntriesA out r0 r1 (masked_fun zero (resized_fun H W r0 r1 (negb (mpv =? 0)) g) (resized_fun H W r0 r1 zero f))
                         (resized_fun H W r0 r1 (negb (mpv =? 0)) g).
  Proof.
    intros HE HP Hk0 Hk1. cbv zeta. pose proof HE as [_ HM]. pose proof HM as (_ & HW & _).
    destruct (Entries_shape _ _ _ _ HM HP) as [E1 E2]. unfold padded_before_convolution_from. rewrite E1, E2. cbn [fst snd].
    apply array_resized_entries; try assumption; lia.
  Qed.

  Lemma ceil_half_odd k : Z.odd k = true -> ceil_half k - 1 = (k - 1) / 2.
  Proof. intros HO. unfold ceil_half. rewrite Z.odd_spec in HO. destruct HO as [q ->]. zdiv. Qed.

  (* Array2D.trimmed_after_convolution_from, entry form: (k - 1)/2 rows / columns cut at each side *)
  Lemma trimmed_entries (arr : arr2d B) H W f g k0 k1 :
    EntriesA arr H W f g -> Z.odd k0 = true -> Z.odd k1 = true -> 1 <= k0 -> 1 <= k1 -> k0 - 1 < H -> k1 - 1 <= W ->
    let c0 := (k0 - 1) / 2 in let c1 := (k1 - 1) / 2 in
    exists out, trimmed_after_convolution_from zero arr (k0, k1) = Ok out /\
      EntriesA out (H - (k0 - 1)) (W - (k1 - 1))
        (fun i j => if g (i + c0) (j + c1) then zero else f (i + c0) (j + c1)) (fun i j => g (i + c0) (j + c1)).
  Proof.
    intros [HF HG] O0 O1 Hk0 Hk1 HH HW. cbv zeta.
    assert (HP : 0 < H) by lia. pose proof HG as (_ & HWn & _).
    destruct (Entries_shape _ _ _ _ HG HP) as [E1 E2].
    unfold trimmed_after_convolution_from. cbn [fst snd]. rewrite E1, E2, !ceil_half_odd by assumption.
    set (c0 := (k0 - 1) / 2). set (c1 := (k1 - 1) / 2).
    assert (C0 : k0 - 1 = 2 * c0) by (unfold c0; rewrite Z.odd_spec in O0; destruct O0 as [q ->]; zdiv).
    assert (C1 : k1 - 1 = 2 * c1) by (unfold c1; rewrite Z.odd_spec in O1; destruct O1 as [q ->]; zdiv).
    assert (HT : Entries (pyslice2 (fst arr) c0 (H - c0) c1 (W - c1)) (H - c0 - c0) (W - c1 - c1) (fun i j => f (i + c0) (j + c1)))
      by (apply (pyslice2_entries _ H W); try assumption; lia).
    destruct (Entries_shape _ _ _ _ HT ltac:(lia)) as [T1 T2]. rewrite T1, T2.
    destruct (mask_resized_entries (snd arr) H W g (H - c0 - c0) (W - c1 - c1) 0 HG HP ltac:(lia) ltac:(lia)) as (rm & -> & HM).
    cbn [bind].
    destruct (mask_apply_entries zero _ rm _ _ _ _ HT HM) as (x & -> & HX). cbn [bind].
    eexists. split; [reflexivity|].
    replace (H - (k0 - 1)) with (H - c0 - c0) by lia. replace (W - (k1 - 1)) with (W - c1 - c1) by lia.
    assert (SH : forall i j, 0 <= i < H - c0 - c0 -> 0 <= j < W - c1 - c1 ->
              resized_fun H W (H - c0 - c0) (W - c1 - c1) (negb (0 =? 0)) g i j = g (i + c0) (j + c1)).
    { intros i j Hi Hj. rewrite resized_fun_shrink by lia.
      replace (H / 2 - (H - c0 - c0) / 2) with c0 by zdiv. replace (W / 2 - (W - c1 - c1) / 2) with c1 by zdiv. reflexivity. }
    split; cbn [fst snd].
    - apply (Entries_fext _ _ _ _ _ HX). intros i j Hi Hj. unfold masked_fun. rewrite SH by assumption. reflexivity.
    - apply (Entries_fext _ _ _ _ _ HM). exact SH.
  Qed.

  (* trimming an odd kernel's border = resizing to the smaller shape (the centred crop) *)
  Lemma trimmed_is_spec (arr : arr2d B) H W k0 k1 :
    properA H W arr -> Z.odd k0 = true -> Z.odd k1 = true -> 1 <= k0 -> 1 <= k1 -> k0 - 1 < H -> k1 - 1 <= W ->
    trimmed_after_convolution_from zero arr (k0, k1) = Ok (resized_arr_spec zero arr (H - (k0 - 1)) (W - (k1 - 1)) 0).
  Proof.
    intros HA O0 O1 Hk0 Hk1 HH HW. pose proof (properA_entries _ _ _ HA) as HE.
    destruct (trimmed_entries arr H W _ _ k0 k1 HE O0 O1 Hk0 Hk1 HH HW) as (out & -> & HO). f_equal.
    assert (C0 : k0 - 1 = 2 * ((k0 - 1) / 2)) by (rewrite Z.odd_spec in O0; destruct O0 as [q ->]; zdiv).
    assert (C1 : k1 - 1 = 2 * ((k1 - 1) / 2)) by (rewrite Z.odd_spec in O1; destruct O1 as [q ->]; zdiv).
    assert (SH : forall (C : Type) (pad : C) (F : Z -> Z -> C) i j, 0 <= i < H - (k0 - 1) -> 0 <= j < W - (k1 - 1) ->
              resized_fun H W (H - (k0 - 1)) (W - (k1 - 1)) pad F i j = F (i + (k0 - 1) / 2) (j + (k1 - 1) / 2)).
    { intros C pad F i j Hi Hj. rewrite resized_fun_shrink by lia.
      replace (H / 2 - (H - (k0 - 1)) / 2) with ((k0 - 1) / 2) by zdiv.
      replace (W / 2 - (W - (k1 - 1)) / 2) with ((k1 - 1) / 2) by zdiv. reflexivity. }
    assert (N0 : 0 <= H - (k0 - 1)) by lia. assert (N1 : 0 <= W - (k1 - 1)) by lia.
    apply (EntriesA_ext _ _ _ _ _ _ _ _ HO (resized_arr_spec_entries arr H W _ _ _ _ 0 HE N0 N1)).
    - intros i j Hi Hj. unfold masked_fun. rewrite !SH by assumption. reflexivity.
    - intros i j Hi Hj. rewrite SH by assumption. reflexivity.
  Qed.

  Lemma normal_arr_entries arr H W f g : EntriesA arr H W f g -> EntriesA (normal_arr zero arr) H W (masked_fun zero g f) g.
  Proof. intros [HF HG]. split; cbn [fst snd]; [now apply zip_mask_entries | assumption]. Qed.

  (* MAIN 3: padding for an odd kernel then trimming for the same kernel is the identity *)
  Lemma pad_then_trim_id (arr : arr2d B) H W k0 k1 mpv :
    properA H W arr -> Z.odd k0 = true -> Z.odd k1 = true -> 1 <= k0 -> 1 <= k1 ->
    bind (padded_before_convolution_from zero arr (k0, k1) mpv) (fun p => trimmed_after_convolution_from zero p (k0, k1))
    = Ok (normal_arr zero arr).
  Proof.
    intros HA O0 O1 Hk0 Hk1. pose proof (properA_entries _ _ _ HA) as HE. pose proof HA as (HB & _ & HP).
    pose proof (rectb_W_nonneg _ _ _ HB HP) as HW.
    destruct (padded_entries arr H W _ _ k0 k1 mpv HE HP Hk0 Hk1) as (p & -> & HPd). cbn [bind]. cbv zeta in HPd.
    assert (L0 : k0 - 1 < H + (k0 - 1)) by lia. assert (L1 : k1 - 1 <= W + (k1 - 1)) by lia.
    destruct (trimmed_entries p _ _ _ _ k0 k1 HPd O0 O1 Hk0 Hk1 L0 L1) as (out & -> & HO). f_equal.
    cbv zeta in HO.
    replace (H + (k0 - 1) - (k0 - 1)) with H in HO by lia. replace (W + (k1 - 1) - (k1 - 1)) with W in HO by lia.
    assert (C0 : k0 - 1 = 2 * ((k0 - 1) / 2)) by (rewrite Z.odd_spec in O0; destruct O0 as [q ->]; zdiv).
    assert (C1 : k1 - 1 = 2 * ((k1 - 1) / 2)) by (rewrite Z.odd_spec in O1; destruct O1 as [q ->]; zdiv).
    assert (SH : forall (C : Type) (pad : C) (F : Z -> Z -> C) i j, 0 <= i < H -> 0 <= j < W ->
              resized_fun H W (H + (k0 - 1)) (W + (k1 - 1)) pad F (i + (k0 - 1) / 2) (j + (k1 - 1) / 2) = F i j).
    { intros C pad F i j Hi Hj.
      replace ((k0 - 1) / 2) with ((H + (k0 - 1)) / 2 - H / 2) by zdiv.
      replace ((k1 - 1) / 2) with ((W + (k1 - 1)) / 2 - W / 2) by zdiv. now apply resized_fun_at_shift. }
    apply (EntriesA_ext _ _ _ _ _ _ _ _ HO (normal_arr_entries arr H W _ _ HE)).
    - intros i j Hi Hj. unfold masked_fun. rewrite !SH by assumption. destruct (zget2 true (snd arr) i j); reflexivity.
    - intros i j Hi Hj. now rewrite SH.
  Qed.

  (* MAIN 4: enlarging then shrinking back to the original shape loses nothing *)
  Lemma enlarge_then_shrink_id (arr : arr2d B) H W r0 r1 mpv :
    properA H W arr -> H <= r0 -> W <= r1 ->
    bind (array_resized_from zero arr (r0, r1) mpv) (fun p => array_resized_from zero p (shape2 (snd arr)) mpv)
    = Ok (normal_arr zero arr).
  Proof.
    intros HA Hr0 Hr1. pose proof (properA_entries _ _ _ HA) as HE. pose proof HA as (HB & _ & HP).
    pose proof (rectb_W_nonneg _ _ _ HB HP) as HW. pose proof HE as [_ HM].
    destruct (Entries_shape _ _ _ _ HM HP) as [E1 E2]. unfold shape2. rewrite E1, E2.
    destruct (array_resized_entries arr H W _ _ r0 r1 mpv HE HP ltac:(lia) ltac:(lia)) as (p & -> & HPd). cbn [bind].
    destruct (array_resized_entries p r0 r1 _ _ H W mpv HPd ltac:(lia) ltac:(lia) HW) as (out & -> & HO). f_equal.
    apply (EntriesA_ext _ _ _ _ _ _ _ _ HO (normal_arr_entries arr H W _ _ HE)).
    - intros i j Hi Hj. unfold masked_fun at 1. rewrite (resized_fun_shrink _ _ H W r0 r1) by lia. rewrite (resized_fun_shrink _ _ H W r0 r1) by lia.
      unfold masked_fun. rewrite resized_fun_at_shift by lia. rewrite resized_fun_at_shift by lia.
      destruct (zget2 true (snd arr) i j); reflexivity.
    - intros i j Hi Hj. rewrite resized_fun_shrink by lia. now rewrite resized_fun_at_shift.
  Qed.

  (* Mask2D.trimmed_array_from: when the parity of each axis is kept the symmetric slice is the centred crop *)
  Lemma trimmed_array_is_spec (p : list (list B)) H W s0 s1 :
    rectb H W p = true -> 0 < H -> 0 <= s0 <= H -> 0 <= s1 <= W -> Z.even (H - s0) = true -> Z.even (W - s1) = true ->
    trimmed_array_from (H, W) p (s0, s1) = resize_spec zero p s0 s1.
  Proof.
    intros HB HP Hs0 Hs1 E0 E1. pose proof (Entries_self zero _ _ _ HB HP) as HE.
    unfold trimmed_array_from. cbn [fst snd].
    rewrite Z.even_spec in E0, E1. destruct E0 as [q0 Q0], E1 as [q1 Q1].
    replace ((H - s0) / 2) with q0 by zdiv. replace ((W - s1) / 2) with q1 by zdiv.
    assert (HT : Entries (pyslice2 p q0 (H - q0) q1 (W - q1)) (H - q0 - q0) (W - q1 - q1)
                         (fun i j => zget2 zero p (i + q0) (j + q1))) by (apply (pyslice2_entries _ H W); try assumption; lia).
    replace (H - q0 - q0) with s0 in HT by lia. replace (W - q1 - q1) with s1 in HT by lia.
    apply (Entries_ext zero _ _ _ _ _ _ HT (resize_spec_entries zero p H W _ s0 s1 HE ltac:(lia) ltac:(lia))).
    intros i j Hi Hj. rewrite resized_fun_shrink by lia.
    replace (H / 2 - s0 / 2) with q0 by zdiv. replace (W / 2 - s1 / 2) with q1 by zdiv. reflexivity.
  Qed.

  (* padded.mask.trimmed_array_from(padded, original shape) gives back what the array held *)
  Lemma pad_then_trimmed_array_id (arr : arr2d B) H W k0 k1 mpv :
    properA H W arr -> Z.odd k0 = true -> Z.odd k1 = true -> 1 <= k0 -> 1 <= k1 ->
    bind (padded_before_convolution_from zero arr (k0, k1) mpv)
         (fun p => Ok (trimmed_array_from (shape2 (snd p)) (fst p) (shape2 (snd arr))))
    = Ok (zip_mask zero (fst arr) (snd arr)).
  Proof.
    intros HA O0 O1 Hk0 Hk1. pose proof (properA_entries _ _ _ HA) as HE. pose proof HA as (HB & _ & HP).
    pose proof (rectb_W_nonneg _ _ _ HB HP) as HW. pose proof HE as [_ HM].
    destruct (Entries_shape _ _ _ _ HM HP) as [E1 E2].
    destruct (padded_entries arr H W _ _ k0 k1 mpv HE HP Hk0 Hk1) as (p & -> & [HPa HPm]). cbn [bind]. cbv zeta in HPa, HPm.
    f_equal. destruct (Entries_shape _ _ _ _ HPm ltac:(lia)) as [P1 P2]. unfold shape2. rewrite E1, E2, P1, P2.
    unfold trimmed_array_from. cbn [fst snd].
    assert (C0 : k0 - 1 = 2 * ((k0 - 1) / 2)) by (rewrite Z.odd_spec in O0; destruct O0 as [q ->]; zdiv).
    assert (C1 : k1 - 1 = 2 * ((k1 - 1) / 2)) by (rewrite Z.odd_spec in O1; destruct O1 as [q ->]; zdiv).
    replace (H + (k0 - 1) - H) with (k0 - 1) by lia. replace (W + (k1 - 1) - W) with (k1 - 1) by lia.
    set (c0 := (k0 - 1) / 2) in *. set (c1 := (k1 - 1) / 2) in *.
    match goal with |- pyslice2 ?a ?y0 ?y1 ?x0 ?x1 = _ =>
      assert (HT : Entries (pyslice2 a y0 y1 x0 x1) (y1 - y0) (x1 - x0) (fun i j =>
         masked_fun zero (resized_fun H W (H + (k0 - 1)) (W + (k1 - 1)) (negb (mpv =? 0)) (zget2 true (snd arr)))
                         (resized_fun H W (H + (k0 - 1)) (W + (k1 - 1)) zero (zget2 zero (fst arr))) (i + y0) (j + x0)))
        by (apply (pyslice2_entries _ _ _ _ _ _ _ _ HPa); lia) end.
    replace (H + (k0 - 1) - c0 - c0) with H in HT by lia. replace (W + (k1 - 1) - c1 - c1) with W in HT by lia.
    destruct HE as [HF HG].
    apply (Entries_ext zero _ _ _ _ _ _ HT (zip_mask_entries zero _ _ H W _ _ HF HG)).
    intros i j Hi Hj. unfold masked_fun.
    assert (SH : forall (C : Type) (pad : C) (F : Z -> Z -> C),
              resized_fun H W (H + (k0 - 1)) (W + (k1 - 1)) pad F (i + c0) (j + c1) = F i j).
    { intros C pad F. replace c0 with ((H + (k0 - 1)) / 2 - H / 2) by zdiv.
      replace c1 with ((W + (k1 - 1)) / 2 - W / 2) by zdiv. now apply resized_fun_at_shift. }
    rewrite !SH. reflexivity.
  Qed.
End Arr.
