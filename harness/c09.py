"""C09 -- over-sampling partitions pixels uniformly and bins by exact per-pixel means; decorator; iterative rule."""
import itertools
from fractions import Fraction as F
import numpy as np
from harness.common import cz, cq, cnat, cbool, clist, ctup, copt, cres, call_res, import_aa, frac

ID = "C09"
GEN = []
PROPS = "Props/C09.v"
COQ_CHECK = ("Model.C09", "check")
COQ_FALLBACK = ("Model.C09", "spec_ok")
COQ_IMPORTS = "From PAV Require Import Base.NumOps."
SHARD = 150
RULE = ("(a) exhaustive: every boolean mask of every shape with H*W <= 6 (quick) / <= 8 (thorough), uniform sub-size 1, 2, 4 "
        "(+3 under tolerance), through OverSamplerUniform (.over_sampled_grid, .slim_for_sub_slim, .binned_array_2d_from, "
        ".sub_pixel_areas, .sub_mask_native_for_sub_mask_slim) and the util functions; (b) random masks up to 6x6 with <= 16 "
        "unmasked pixels, anisotropic dyadic pixel scales, origins k/4, per-pixel sub-size maps from {1,2,4,8} (int- and float-typed), user functions "
        "= random polynomials of degree <= 3 in (y|abs y, x|abs x) with coefficients k/4 (exact in double), through "
        "OverSamplerUniform.array_via_func_from, @over_sample on Grid2DOverSampled, Grid2D.from_mask / GridsDataset (uniform, non_uniform, pixelization) grids with "
        "OverSamplingUniform(int | Array2D) and OverSamplingIterate, and OverSamplerIterate.array_via_func_from with "
        "schedules of 1-4 steps from {1,2,4,8}, dyadic and 0.9999-style thresholds, optional absolute tolerance; a directed stream "
        "with the threshold / absolute-tolerance decision exactly ON the boundary (f = c*y^2, pixel centres at |y| = ps/4); functions "
        "vanishing at every pixel centre are generated on purpose (known finding level0-all-zero); (c) tolerance stream "
        "(exact=false, 1e-9): sub-sizes 3,5,6,7 and pixel scales 3/2, 3, 0.1. Iterative cases whose threshold decision lies "
        "within 1e-6 of the boundary (but not exactly on it) are skipped and counted. distinct = distinct JSON input.")
EXHAUSTIVE = {
    "quick": "all boolean masks of all shapes with H*W <= 6 (394 masks): over-sampled grid at uniform sub-size 1 and 2 (and 4 for every third mask); "
             "slim_for_sub_slim and binning of distinct integers at one of these sub-sizes per mask (rotating)",
    "thorough": "all boolean masks of all shapes with H*W <= 8 x uniform sub-size {1,2,4}",
}
TRUSTED = ["correspondence harness harness/c09.py (the user function is the SAME coefficient list on both sides: numpy evaluation "
           "in the implementation, eval_ufun at QOps in the model)",
           "Array2D slim/native conversion modelled structurally (Model.C09.to_native / to_slim; subject of C01)",
           "numpy float64 semantics of x / 0.0 = inf in threshold_mask_via_arrays_jit_from (numba absent), modelled by an explicit branch"]
ASSUMPTIONS = ["user functions are pointwise functions of (y, x) (func(grid)[k] = f(grid[k]))",
               "len(sub_size) = pixels_in_mask, sub-sizes >= 1, pixel scales non-zero, rectangular mask",
               "fractional_accuracy > 0 when set (with a threshold <= 0 the code accepts pixels whose ratio is undefined)",
               "real arithmetic: floating-point rounding is not modelled; exact streams use dyadic inputs, tolerance streams 1e-9"]

SKIPPED_IN_BAND = [0]
def extra_evidence():
    return {"skipped_in_band": SKIPPED_IN_BAND[0]}

# ----------------------------------------------------------------------------- helpers
def fr(x): return F(x)
def fs(x): return str(F(x))           # JSON form of a rational
def cmask(m): return clist([clist([cbool(b) for b in row]) for row in m])
def cnats(l): return clist([cnat(x) for x in l])
def cqq(p): return ctup([cq(F(p[0])), cq(F(p[1]))])
def cqs(l): return clist([cq(x) for x in l])
def cqqs(l): return clist([ctup([cq(a), cq(b)]) for a, b in l])
def cufun(f):
    ts = clist([ctup([cnat(i), cnat(j), cq(F(c))]) for i, j, c in f["terms"]])
    return f"(Build_ufun Q {cbool(f['absy'])} {cbool(f['absx'])} {ts})"
def cos_(os):
    if os["kind"] == "int": return f"(CUniformInt {cnat(os['s'])})"
    if os["kind"] == "map": return f"(CUniformMap {cnats(os['ss'])})"
    return f"(CIterate {copt(os['thr'], lambda t: cq(F(t)))} {copt(os['rel'], lambda t: cq(F(t)))} {cnats(os['steps'])})"

def unmasked(m): return [(y, x) for y, row in enumerate(m) for x, b in enumerate(row) if not b]

def np_ufun(f):
    """the user function, evaluated by numpy on arrays of y, x (repeated multiplication: exact on dyadic inputs)"""
    def powr(a, n):
        r = np.ones_like(a)
        for _ in range(n): r = r * a
        return r
    def g(y, x):
        u = np.abs(y) if f["absy"] else y
        v = np.abs(x) if f["absx"] else x
        acc = np.zeros_like(y)
        for i, j, c in f["terms"]:
            acc = acc + float(F(c)) * powr(u, i) * powr(v, j)
        return acc
    return g
def fr_ufun(f, y, x):
    u = abs(y) if f["absy"] else y
    v = abs(x) if f["absx"] else x
    return sum((F(c) * u ** i * v ** j for i, j, c in f["terms"]), F(0))

# independent exact reference used ONLY to classify inputs (finding class, decision margins) -- never compared
def ref_centre(m, ps, og, p):
    H, W = len(m), len(m[0])
    return (og[0] + (F(H - 1, 2) - p[0]) * ps[0], og[1] + (p[1] - F(W - 1, 2)) * ps[1])
def ref_level(f, m, ps, og, p, s):
    cy, cx = ref_centre(m, ps, og, p)
    tot = F(0)
    for a in range(s):
        for b in range(s):
            tot += fr_ufun(f, cy + ps[0] / 2 - (a + F(1, 2)) * ps[0] / s, cx - ps[1] / 2 + (b + F(1, 2)) * ps[1] / s)
    return tot / (s * s)
def iter_class(f, m, ps, og, thr, steps):
    """(level0_all_zero, in_band): exact classification of an iterative case"""
    ps = (F(ps[0]), F(ps[1])); og = (F(og[0]), F(og[1]))
    px = unmasked(m)
    l0 = [fr_ufun(f, *ref_centre(m, ps, og, p)) for p in px]
    allzero = all(v == 0 for v in l0)
    band = False
    if thr is not None and steps:
        t = F(thr)
        for p, v0 in zip(px, l0):
            prev = v0
            for s in steps[:-1]:
                cur = ref_level(f, m, ps, og, p, s)
                if prev > 0 and cur != 0:
                    r = prev / cur
                    if r > 1: r = 1 / r
                    if r != t and abs(r - t) < F(1, 10 ** 6): band = True
                    if r != 1 and abs(prev / cur - 1) < F(1, 10 ** 9): band = True
                prev = cur
    return allzero, band

# ----------------------------------------------------------------------------- generators
DY_PS = [F(1, 4), F(1, 2), F(1), F(2), F(4)]
TOL_PS = [F(3, 2), F(3), F(0.1), F(1, 2), F(1)]
def all_masks(h, w):
    for bits in itertools.product([True, False], repeat=h * w):
        yield [list(bits[r * w:(r + 1) * w]) for r in range(h)]
def rand_mask(rng, hmax=6, wmax=6, nmax=16):
    while True:
        h, w = rng.randint(1, hmax), rng.randint(1, wmax)
        p = rng.choice([0.2, 0.5, 0.8])
        m = [[rng.random() < p for _ in range(w)] for _ in range(h)]
        n = len(unmasked(m))
        if 1 <= n <= nmax: return m
def rand_geo(rng, exact=True):
    S = DY_PS if exact else TOL_PS
    ps = [fs(rng.choice(S)), fs(rng.choice(S))]
    if rng.random() < 0.25: ps[1] = ps[0]
    og = [fs(F(rng.randint(-8, 8), 4)), fs(F(rng.randint(-8, 8), 4))]
    if rng.random() < 0.2: og = ["0", "0"]
    return ps, og
def rand_poly(rng, kind=None):
    kind = kind or rng.choice(["const", "affine", "poly", "poly", "poly", "abs"])
    c = lambda: fs(F(rng.randint(-8, 8), 4))
    if kind == "const": terms = [[0, 0, c()]]
    elif kind == "affine": terms = [[0, 0, c()], [1, 0, c()], [0, 1, c()]]
    else:
        terms = []
        for _ in range(rng.randint(1, 5)):
            i = rng.randint(0, 3); j = rng.randint(0, 3 - i)
            terms.append([i, j, c()])
    absy = kind == "abs" and rng.random() < 0.7
    absx = kind == "abs" and rng.random() < 0.7
    return {"absy": absy, "absx": absx, "terms": terms}
def poly_mul(a, b):
    out = {}
    for i, j, c in a:
        for k, l, d in b:
            out[(i + k, j + l)] = out.get((i + k, j + l), F(0)) + F(c) * F(d)
    return [[i, j, fs(c)] for (i, j), c in sorted(out.items()) if c != 0]
def vanishing_poly(rng, m, ps, og):
    """a polynomial that is zero at every pixel centre of m (needs <= 2 distinct row or column centres), else None"""
    psf = (F(ps[0]), F(ps[1])); ogf = (F(og[0]), F(og[1]))
    cs = [ref_centre(m, psf, ogf, p) for p in unmasked(m)]
    ys = sorted(set(c[0] for c in cs)); xs = sorted(set(c[1] for c in cs))
    if len(ys) <= 2:
        base = [[0, 0, "1"]]
        for a in ys: base = poly_mul(base, [[1, 0, "1"], [0, 0, fs(-a)]])
    elif len(xs) <= 2:
        base = [[0, 0, "1"]]
        for a in xs: base = poly_mul(base, [[0, 1, "1"], [0, 0, fs(-a)]])
    else:
        return None
    other = [[0, 0, fs(F(rng.randint(1, 8), 4))], [0, 1, fs(F(rng.randint(-4, 4), 4))]] if rng.random() < 0.5 else [[0, 0, "1"]]
    t = poly_mul(base, other)
    return {"absy": False, "absx": False, "terms": t} if t else None
def rand_steps(rng):
    n = rng.choice([1, 2, 2, 3, 3, 4])
    if rng.random() < 0.6:
        return sorted(rng.sample([2, 4, 8], min(n, 3))) if n <= 3 else [1, 2, 4, 8]
    return [rng.choice([1, 2, 4, 8]) for _ in range(n)]
def rand_thr(rng):
    thr = rng.choice([None, "1/2", "3/4", "7/8", "15/16", "63/64", fs(F(0.9999)), fs(F(0.99)), "1", "5/4", "1/16"])
    rel = rng.choice([None, None, None, "0", "1/16", "1/4", "1", "8"])
    if thr is None and rel is None: thr = "3/4"
    return thr, rel

def gen_inputs(tier, rng):
    big = tier == "thorough"
    # (a) exhaustive small masks
    lim = 8 if big else 6
    i = 0; mi = 0
    for h in range(1, lim + 1):
        for w in range(1, lim // h + 1):
            for m in all_masks(h, w):
                n = len(unmasked(m)); mi += 1
                for sidx, s in enumerate((1, 2, 4)):
                    i += 1
                    rot = (mi + sidx) % 3            # rotates over the sub-sizes from mask to mask
                    via = "class" if (n > 0 and (mi // 3 + sidx) % 3 != 0) else "util"
                    ps, og = [["1", "1"], ["2", "1/2"], ["1/4", "4"]][i % 3], [["0", "0"], ["1/4", "-1/2"], ["-3/4", "2"]][(i // 3) % 3]
                    if big or s < 4 or rot == 0:
                        yield {"op": "grid", "m": m, "ps": ps, "og": og, "ss": [s] * n, "via": via, "int": via == "class"}
                    if big or rot == 0:      # quick tier: index table and binning at one (rotating) sub-size per mask
                        yield {"op": "slimsub", "m": m, "ss": [s] * n, "via": via, "int": via == "class"}
                        yield {"op": "bin", "m": m, "ss": [s] * n, "arr": [str(3 * k - 7) for k in range(n * s * s)], "via": via, "int": via == "class"}
                if n > 0 and mi % 4 == 0:
                    yield {"op": "grid", "m": m, "ps": ["3/2", "1"], "og": ["1/4", "0"], "ss": [3] * n, "via": "class", "int": True}
                    yield {"op": "nativesub", "m": m, "ss": [2] * n, "via": "class", "int": True}
                yield {"op": "centres", "m": m, "ps": ["2", "1/2"], "og": ["1/4", "-1/2"], "via": "from_mask" if n and mi % 2 else "util"}
    # (b) random, exact
    nb = 2500 if big else 260
    for _ in range(nb):
        m = rand_mask(rng); n = len(unmasked(m)); ps, og = rand_geo(rng)
        uniform = rng.random() < 0.3
        ss = [rng.choice([1, 2, 4, 8])] * n if uniform else [rng.choice([1, 1, 2, 2, 4, 8]) for _ in range(n)]
        via = rng.choice(["class", "util"])
        fl = via == "class" and rng.random() < 0.4          # float-typed per-pixel map
        yield {"op": "grid", "m": m, "ps": ps, "og": og, "ss": ss, "via": via, "int": uniform and via == "class" and not fl, "fl": fl}
        yield {"op": "slimsub", "m": m, "ss": ss, "via": via, "int": False, "fl": fl}
        yield {"op": "nativesub", "m": m, "ss": ss, "via": via, "int": False, "fl": fl}
        tot = sum(s * s for s in ss)
        yield {"op": "bin", "m": m, "ss": ss, "arr": [fs(F(rng.randint(-64, 64), 8)) for _ in range(tot)], "via": via, "int": False, "fl": fl}
        yield {"op": "areas", "m": m, "ps": ps, "ss": ss, "fl": fl}
        f = rand_poly(rng)
        yield {"op": "viafunc", "m": m, "ps": ps, "og": og, "ss": ss, "f": f, "fl": fl, "via": rng.choice(["sampler", "sampler", "oversampled"])}
        # decorator: uniform int / map / all-ones map / dataset grids
        r = rng.random()
        if r < 0.3: os = {"kind": "int", "s": rng.choice([1, 2, 4, 8])}
        elif r < 0.45: os = {"kind": "map", "ss": [1] * n}
        else: os = {"kind": "map", "ss": ss, "fl": rng.random() < 0.4}
        yield {"op": "decor", "m": m, "ps": ps, "og": og, "os": os, "f": rand_poly(rng),
               "via": rng.choice(["from_mask", "from_mask", "dataset", "dataset", "dataset_nu", "dataset_pixgrid"])}
    # dataset pixelization default (sub_size 4)
    for _ in range(40 if big else 8):
        m = rand_mask(rng, 4, 4, 8); ps, og = rand_geo(rng)
        yield {"op": "grid", "m": m, "ps": ps, "og": og, "ss": [4] * len(unmasked(m)), "via": "dataset_pix", "int": True}
    # iterative scheme
    ni = 3000 if big else 330
    for k in range(ni):
        m = rand_mask(rng, 4, 4, 10); ps, og = rand_geo(rng)
        thr, rel = rand_thr(rng); steps = rand_steps(rng)
        f = None
        r = rng.random()
        if r < 0.15: f = vanishing_poly(rng, m, ps, og)
        elif r < 0.25: f = {"absy": False, "absx": False, "terms": [[0, 0, "0"]]}
        elif r < 0.35:   # positive, slowly varying: agreement is reached early
            f = {"absy": False, "absx": False, "terms": [[0, 0, fs(F(rng.randint(64, 256)))], [2, 0, fs(F(rng.randint(0, 8), 4))], [0, 2, fs(F(rng.randint(0, 8), 4))]]}
        if f is None: f = rand_poly(rng)
        via = rng.choice(["class", "class", "decor", "dataset"])
        if via == "class": yield {"op": "iter", "m": m, "ps": ps, "og": og, "thr": thr, "rel": rel, "steps": steps, "f": f}
        else: yield {"op": "decor", "m": m, "ps": ps, "og": og, "os": {"kind": "iter", "thr": thr, "rel": rel, "steps": steps}, "f": f, "via": "from_mask" if via == "decor" else "dataset"}
    # decisions exactly ON the boundary: f = c*y^2, a row of pixel centres at |y| = ps_y/4 => level_0/level_2 = 1/2 exactly
    # there (threshold 1/2 must ACCEPT: `<`, not `<=`); level_2 - level_0 = c*ps_y^2/16 at every pixel (absolute tolerance
    # equal to it must ACCEPT: `>`, not `>=`)
    for k in range(240 if big else 36):
        m = rand_mask(rng, 4, 4, 10); ps, og = rand_geo(rng)
        H = len(m); y0 = rng.choice(unmasked(m))[0]; psy = F(ps[0])
        og = [fs(psy * (F(rng.choice([1, -1]), 4) - (F(H - 1, 2) - y0))), og[1]]
        c = F(rng.choice([1, 2, 4, 16]), rng.choice([1, 1, 4]))
        f = {"absy": False, "absx": False, "terms": [[2, 0, fs(c)]]}
        steps = rng.choice([[2, 4], [2, 4, 8], [2, 8], [2, 4, 4]])
        if k % 3 == 0: thr, rel = "1/2", None
        elif k % 3 == 1: thr, rel = None, fs(c * psy * psy / 16)
        else: thr, rel = "1/2", fs(c * psy * psy / 16)
        if k % 2: yield {"op": "iter", "m": m, "ps": ps, "og": og, "thr": thr, "rel": rel, "steps": steps, "f": f}
        else: yield {"op": "decor", "m": m, "ps": ps, "og": og, "os": {"kind": "iter", "thr": thr, "rel": rel, "steps": steps}, "f": f, "via": "from_mask"}
    # DESIGN D17 witness, the Coq refutation witness (Props C09_iterate_level0_all_zero_refuted) and the empty schedule
    yield {"op": "iter", "m": [[False]], "ps": ["1", "1"], "og": ["0", "0"], "thr": "1/2", "rel": None, "steps": [2],
           "f": {"absy": False, "absx": False, "terms": [[2, 0, "1"]]}}
    yield {"op": "iter", "m": [[False, False], [False, False]], "ps": ["1", "1"], "og": ["0", "0"], "thr": fs(F(0.9999)), "rel": None,
           "steps": [2, 4], "f": {"absy": True, "absx": False, "terms": [[2, 0, "1"], [1, 0, "-1"], [0, 0, "1/4"]]}}
    yield {"op": "iter", "m": [[False, True]], "ps": ["1", "1"], "og": ["0", "0"], "thr": "1/2", "rel": None, "steps": [],
           "f": {"absy": False, "absx": False, "terms": [[0, 0, "1"]]}}
    # (c) tolerance stream
    for _ in range(600 if big else 60):
        m = rand_mask(rng, 5, 5, 10); n = len(unmasked(m)); ps, og = rand_geo(rng, exact=False)
        ss = [rng.choice([1, 2, 3, 3, 5, 6, 7]) for _ in range(n)]
        yield {"op": "grid", "m": m, "ps": ps, "og": og, "ss": ss, "via": rng.choice(["class", "util"]), "int": False}
        tot = sum(s * s for s in ss)
        yield {"op": "bin", "m": m, "ss": ss, "arr": [fs(F(rng.randint(-64, 64), 8)) for _ in range(tot)], "via": "class", "int": False}
        yield {"op": "areas", "m": m, "ps": ps, "ss": ss}
        yield {"op": "viafunc", "m": m, "ps": ps, "og": og, "ss": ss, "f": rand_poly(rng)}
        yield {"op": "decor", "m": m, "ps": ps, "og": og, "os": {"kind": "int", "s": rng.choice([3, 5, 6, 7])}, "f": rand_poly(rng), "via": "from_mask"}

# ----------------------------------------------------------------------------- implementation calls
def is_exact(ps, ss):
    """every double operation of the implementation is exact: pixel scales are powers of two (the code DIVIDES the origin and
    the sub-step by them: 3/2 or F(0.1) round), sub-sizes are powers of two; origins / coefficients are small dyadics by construction"""
    def pow2(q):
        q = F(q); n, d = abs(q.numerator), q.denominator
        return n > 0 and (n & (n - 1)) == 0 and (d & (d - 1)) == 0 and n <= 1024 and d <= 1024
    return all(pow2(p) for p in ps) and all(s in (1, 2, 4, 8, 16) for s in ss)
def qlist(a): return [frac(v) for v in np.asarray(a, dtype=float).ravel()]
def qqlist(a): return [(frac(r[0]), frac(r[1])) for r in np.asarray(a, dtype=float).reshape(-1, 2)]

def run_case(inp):
    aa = import_aa()
    from autoarray.operators.over_sampling import over_sample_util as U
    from autoarray.operators.over_sampling.uniform import OverSamplerUniform, OverSamplingUniform
    from autoarray.operators.over_sampling.iterate import OverSamplerIterate, OverSamplingIterate
    from autoarray.operators.over_sampling.decorator import over_sample
    from autoarray.dataset.grids import GridsDataset
    from autoarray.dataset.over_sampling import OverSamplingDataset
    from autoarray.structures.grids import grid_2d_util

    class Profile:
        centre = (0.0, 0.0)
        def __init__(self, fn): self.fn = fn
        @over_sample
        def image_2d_from(obj, grid, *args, **kwargs):
            g = np.array(grid)
            return obj.fn(g[:, 0], g[:, 1])

    op = inp["op"]; m = inp.get("m")
    ps = tuple(float(F(p)) for p in inp["ps"]) if "ps" in inp else (1.0, 1.0)
    og = tuple(float(F(p)) for p in inp["og"]) if "og" in inp else (0.0, 0.0)
    psq = tuple(F(p) for p in ps); ogq = tuple(F(p) for p in og)      # the doubles actually passed, exactly
    marr = np.array(m, dtype=bool) if m is not None else None
    def mk_mask(): return aa.Mask2D(mask=marr, pixel_scales=ps, origin=og)
    def sampler(ss, as_int):
        mask = mk_mask()
        if as_int and ss: return OverSamplerUniform(mask=mask, sub_size=int(ss[0]))
        # float-typed maps are what OverSamplingUniform.from_radial_bins / from_adaptive_scheme build (repo fix edc1970, found by C06)
        return OverSamplerUniform(mask=mask, sub_size=aa.Array2D(values=np.array(ss, dtype=float if inp.get("fl") else int), mask=mask))
    ss = inp.get("ss"); ssa = np.array(ss, dtype=int) if ss is not None else None
    out = None; coq = None; finding = None; nontrivial = True
    ex = is_exact(inp.get("ps", ["1", "1"]), ss or [])

    if op == "grid":
        if inp["via"] == "util":
            g = U.grid_2d_slim_over_sampled_via_mask_from(mask_2d=marr, pixel_scales=ps, sub_size=ssa, origin=og)
        elif inp["via"] == "dataset_pix":
            g = GridsDataset(mask=mk_mask(), over_sampling=OverSamplingDataset()).over_sampler_pixelization.over_sampled_grid
        else:
            g = sampler(ss, inp["int"]).over_sampled_grid
        out = qqlist(g)
        coq = f"KGrid {cbool(ex)} {cmask(m)} {cqq(psq)} {cqq(ogq)} {cnats(ss)} {cqqs(out)}"
        nontrivial = len(ss) > 0
    elif op == "centres":
        if inp["via"] == "util": g = grid_2d_util.grid_2d_slim_via_mask_from(mask_2d=marr, pixel_scales=ps, origin=og)
        else: g = aa.Grid2D.from_mask(mask=mk_mask())
        out = qqlist(g)
        coq = f"KCentres {cbool(ex)} {cmask(m)} {cqq(psq)} {cqq(ogq)} {cqqs(out)}"
        nontrivial = len(out) > 0
    elif op == "bin":
        arr = np.array([float(F(v)) for v in inp["arr"]], dtype=float)
        if inp["via"] == "util": b = U.binned_array_2d_from(array_2d=arr, mask_2d=marr, sub_size=ssa)
        else: b = sampler(ss, inp["int"]).binned_array_2d_from(array=arr)
        out = qlist(b)
        coq = f"KBin {cbool(ex)} {cmask(m)} {cnats(ss)} {cqs([F(v) for v in inp['arr']])} {cqs(out)}"
        nontrivial = len(ss) > 0
    elif op == "slimsub":
        if inp["via"] == "util": r = U.slim_index_for_sub_slim_index_via_mask_2d_from(mask_2d=marr, sub_size=ssa)
        else: r = sampler(ss, inp["int"]).slim_for_sub_slim
        out = [int(v) for v in np.asarray(r)]
        coq = f"KSlimForSub {cmask(m)} {cnats(ss)} {cnats(out)}"
        nontrivial = len(ss) > 0
    elif op == "nativesub":
        if inp["via"] == "util": r = U.native_sub_index_for_slim_sub_index_2d_from(mask_2d=marr, sub_size=ssa)
        else: r = sampler(ss, inp["int"]).sub_mask_native_for_sub_mask_slim
        out = [(int(a), int(b)) for a, b in np.asarray(r).reshape(-1, 2)]
        coq = f"KNativeForSub {cmask(m)} {cnats(ss)} {clist([ctup([cnat(a), cnat(b)]) for a, b in out])}"
    elif op == "areas":
        out = qlist(sampler(ss, False).sub_pixel_areas)
        coq = f"KAreas {cbool(ex)} {cqq(psq)} {cnats(ss)} {cqs(out)}"
    elif op == "viafunc":
        fn = np_ufun(inp["f"])
        def func(*a): g = np.array(a[-1]); return fn(g[:, 0], g[:, 1])      # func(grid) if obj is None else func(obj, grid)
        if inp.get("via") == "oversampled":       # decorator branch `isinstance(grid, Grid2DOverSampled)`: func on grid.grid, then binned
            smp = sampler(ss, False)
            r = Profile(fn).image_2d_from(aa.Grid2DOverSampled(grid=smp.over_sampled_grid, over_sampler=smp, pixels_in_mask=len(ss)))
        else:
            r = sampler(ss, False).array_via_func_from(func, None if len(ss) % 2 else object())
        out = qlist(r)
        coq = f"KViaFunc {cbool(ex)} {cmask(m)} {cqq(psq)} {cqq(ogq)} {cnats(ss)} {cufun(inp['f'])} {cqs(out)}"
    elif op in ("decor", "iter"):
        f = inp["f"]; fn = np_ufun(f)
        os = inp["os"] if op == "decor" else {"kind": "iter", "thr": inp["thr"], "rel": inp["rel"], "steps": inp["steps"]}
        fl = lambda t: None if t is None else float(F(t))
        if os["kind"] == "iter":
            thrq = None if os["thr"] is None else F(fl(os["thr"])); relq = None if os["rel"] is None else F(fl(os["rel"]))
            allzero, band = iter_class(f, m, psq, ogq, thrq, os["steps"])
            if band:
                SKIPPED_IN_BAND[0] += 1
                return {"coq": None, "out": None, "py_ok": None, "nontrivial": False, "kind": op + "-skipped-in-band"}
            if allzero: finding = "level0-all-zero"
            osq = {"kind": "iter", "thr": thrq, "rel": relq, "steps": os["steps"]}
            ex = is_exact(inp["ps"], os["steps"])
        else:
            osq = os
            ex = is_exact(inp["ps"], os["ss"] if os["kind"] == "map" else [os["s"]])
        mask = mk_mask()
        if op == "iter":
            def func(obj, grid, *a, **k): g = np.array(grid); return fn(g[:, 0], g[:, 1])
            res = call_res(lambda: OverSamplerIterate(mask=mask, fractional_accuracy=fl(os["thr"]), relative_accuracy=fl(os["rel"]),
                                                       sub_steps=list(os["steps"])).array_via_func_from(func, None))
        else:
            if os["kind"] == "int": osobj = OverSamplingUniform(sub_size=int(os["s"]))
            elif os["kind"] == "map": osobj = OverSamplingUniform(sub_size=aa.Array2D(values=np.array(os["ss"], dtype=float if os.get("fl") else int), mask=mask))
            else: osobj = OverSamplingIterate(fractional_accuracy=fl(os["thr"]), relative_accuracy=fl(os["rel"]), sub_steps=list(os["steps"]))
            if inp["via"] == "dataset": grid = GridsDataset(mask=mask, over_sampling=OverSamplingDataset(uniform=osobj)).uniform
            elif inp["via"] == "dataset_nu": grid = GridsDataset(mask=mask, over_sampling=OverSamplingDataset(non_uniform=osobj)).non_uniform
            elif inp["via"] == "dataset_pixgrid": grid = GridsDataset(mask=mask, over_sampling=OverSamplingDataset(pixelization=osobj)).pixelization
            else: grid = aa.Grid2D.from_mask(mask=mask, over_sampling=osobj)
            res = call_res(lambda: Profile(fn).image_2d_from(grid))
        out = res if res[0] == "raise" else ("ok", qlist(res[1]))
        if op == "iter":
            coq = (f"KIter {cmask(m)} {cqq(psq)} {cqq(ogq)} {copt(osq['thr'], cq)} {copt(osq['rel'], cq)} {cnats(os['steps'])} "
                   f"{cufun(f)} {cres(out, cqs)}")
        else:
            coq = f"KDecor {cbool(ex)} {cmask(m)} {cqq(psq)} {cqq(ogq)} {cos_(osq)} {cufun(f)} {cres(out, cqs)}"
    else:
        raise ValueError(op)
    r = {"coq": "(" + coq + ")", "out": jsonable(out), "py_ok": None, "nontrivial": nontrivial, "kind": op}
    if finding: r["finding"] = finding
    return r

def jsonable(o):
    if isinstance(o, F): return str(o)
    if isinstance(o, (list, tuple)): return [jsonable(x) for x in o]
    return o
