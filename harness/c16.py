"""C16 -- FITS output followed by input reproduces values, orientation and pixel scale."""
import os, shutil, tempfile, itertools, contextlib, pathlib
from fractions import Fraction
import numpy as np
from harness.common import cz, cq, cbool, clist, ctup, copt, import_aa

ID = "C16"
GEN = []
PROPS = "Props/C16.v"
COQ_CHECK = ("Model.C16h", "check")
COQ_FALLBACK = None
COQ_IMPORTS = "From PAV Require Import Base.NumOps."
SHARD = 250
RULE = ("every case writes REAL files below a fresh tempfile.mkdtemp() root (outside /repo and /verif, removed afterwards; the "
        "root is the current directory during the call so that bare file names are exercised) through the public classes "
        "(Array2D / Kernel2D / Mask2D / Array1D / Mask1D .output_to_fits -> .from_fits, .hdu_for_output -> .from_primary_hdu, "
        "Imaging.output_to_fits -> Imaging.from_fits) and the util functions (numpy_array_{1,2}d_to_fits / _via_fits_from / "
        "header_obj_from), under both values of general.fits.flip_for_ds9; the directory tree and the raw content of every file "
        "are re-read with astropy after the write and compared with the model's file-system state; contents are non-symmetric "
        "(all cells distinct), pixel scales isotropic and anisotropic, values with negative, tiny (2^-60, 5e-324) and huge (2^70, 1e300) magnitudes, all exactly representable. "
        "Phase 2: HISTORIES of one object (ops hist2 / hist1 / histm2 / histm1): the object is built once (Array2D / Kernel2D with store_native in {False, True} under "
        "general.structures.native_binned_only in {false, true}; Array1D with store_native in {False, True}; Mask2D; Mask1D), then python-level steps are applied to it "
        "(arithmetic with scalars and with a saved array, .native, .slim, .copy(), aliasing, obj[k] = v / obj[y, x] = v in place, toggling flip_for_ds9) and it is OBSERVED any number "
        "of times (np.array(obj.native), hdu_for_output -> from_primary_hdu, output_to_fits -> from_fits on the tree left by the previous steps); the util functions are called twice with the "
        "caller's same ndarray and dict. "
        "A case is non-trivial unless the array has a single cell; distinct = distinct JSON input.")
EXHAUSTIVE = {
    "quick": "all shapes HxW <= 4x4 (incl. 1xN, Nx1) x flip x {Array2D, Kernel2D, Mask2D} x {file, hdu} route; all 1-D lengths 1..6 x flip "
             "x {Array1D, Mask1D} x {file, hdu}; all boolean masks with H*W <= 6 (Mask2D and masked Array2D through the hdu route, every third also through a file); all file-system "
             "scenarios {bare name, 1 dir, 2 dirs} x {directory absent, partly present, present} x {target absent, present} x overwrite "
             "x flip x {relative, absolute path}; hdu index in [-3..2] on 1- and 2-HDU files and on assembled 1-, 2-, 3-HDU files (2-D and 1-D); "
             "histories: 17 derivations x {slim, store_native, native_binned_only} x {Array2D, Kernel2D} x flip (one of 5 partially masked shapes each) and x store_native x flip for Array1D, each observed through np.array(.native), the HDU route and the file route; 11-13 re-use templates x storage x 3 shapes (2-D) and x store_native x 3 masks (1-D); 6 Mask2D templates x 6 shapes x flip; 4 Mask1D templates x 3 masks x flip; 130 random histories; phase 3: 16 + 9 ways of building an Array2D / Kernel2D x {file, hdu} x flip, 9 mask kinds x 4 ops x flip, 12 + 7 1-D kinds, 3 scale kinds, 2 path kinds x every file-system scenario x overwrite, "
             "6 foreign dtypes x 3 hdu indices x 7 ops, 6 input kinds x 3 storages x 5 histories, 5 session templates x flip x 2 trees + 16 random sessions, 28 sibling cases, 40+ Imaging hdu triples, 7 scale pairs x flip x 4-6 ops",
    "thorough": "as quick with shapes <= 6x6, masks with H*W <= 9 (sampled above 2^9), 1-D lengths 1..9, plus 10x the random budget; histories: every derivation x storage x class x flip "
                "on all 6 history shapes, every re-use template x storage x shape x flip, 1500 random histories",

}
TRUSTED = ["astropy FITS codec = identity on (float64 data, PIXSCALE* header cards); HDUList indexing = Python list indexing "
           "(oracle; exercised on every case: the harness re-reads every written file with astropy directly)",
           "file-system model Model.C16.fsys (os.path.split/exists, os.makedirs, os.remove, writeto) -- exercised on real "
           "directories by every file case; targets that are directories / directory parts that are files are outside the model",
           "correspondence harness harness/c16.py (generators, snapshot of the temporary tree, Fraction(float) conversion)",
           "slim/native scatter of Array2D.native is modelled in its consuming form (C01 proves the scatter form equivalent)",
           "numpy elementwise arithmetic on a buffer = the NumOps operation on each element (python floats as scalars); with_new_array / copy() give value semantics, `other = obj` an alias "
           "(the model tracks whether the two names denote the same object)"]
ASSUMPTIONS = ["repair e8113b3 (fixes/C16_native_mask_nan.diff): the model zeroes masked pixels of a native buffer whatever they hold; the code before the repair multiplied by the inverted mask, so a "
               "history that puts inf / NaN at a masked buffer position (c / arr on a natively stored masked array) was written with NaN there: reported as a violation on a tree without the repair",
               "histories are generated only if every float operation they cause is exact at unmasked buffer positions (hist_ok); numpy broadcasting between a slim and a native buffer and the row "
               "assignment obj[k] = v on a 2-D native buffer are outside the model and never generated",
               "the model follows the code after the repairs 9d3d532 (Array1D.hdu_for_output does not flip) and 770955c (PIXSCALEY / "
               "PIXSCALEX cards for unequal scales; fixes/C16_*.diff): on a tree without them the 1-D hdu route under flip_for_ds9 and "
               "every anisotropic hdu/header case is reported as a violation",
               "header cards hold the pixel scale exactly: astropy formats a float card in 20 characters, so a scale needing more than "
               "16 significant digits together with an exponent (e.g. 2^-40) is NOT reproduced by the codec; generators use scales with short "
               "decimal expansions",
               "floating point is exact on the generated values (mask multiplication by 1.0/0.0, psf normalisation by a sum equal to 1)",
               "Mask2D.from_fits(resized_mask_shape=...) is decided only for the same-shape request (resizing is C14's subject); other "
               "shapes are correspondence-only",
               "Imaging is decided by the specification for pairwise independent targets that are fresh or overwritten (the hypotheses "
               "of C16_imaging_roundtrip) and a PSF summing to one; refused / failing writes are correspondence-only"]

# ----------------------------------------------------------------------------- printing
def fr(x): return Fraction(float(x))
_cq_small = cq
def cq(f):
    """a double as an exact Coq rational; extreme magnitudes as (dy n e) = n * 2^e"""
    f = Fraction(f)
    if abs(f.numerator) < 10 ** 18 and f.denominator < 10 ** 18: return _cq_small(f)
    n, e = f.numerator, 0
    if f.denominator > 1: e = -(f.denominator.bit_length() - 1)
    else:
        while n % 2 == 0: n //= 2; e += 1
    assert Fraction(n) * Fraction(2) ** e == f
    return f"(dy {cz(n)} {cz(e)})"
def cpath(p): return clist([f"{int(c)}%nat" for c in p])
def crow(r): return clist([cq(fr(x)) for x in r])
def carr(m): return clist([crow(r) for r in m])
def cbrow(r): return clist([cbool(b) for b in r])
def cbarr(m): return clist([cbrow(r) for r in m])
def csc2(s): return ctup([cq(fr(s[0])), cq(fr(s[1]))])
def chdr(h): return clist([ctup([k, cq(fr(v))]) for k, v in h])
def chdu(h, cdata): return f"(mkhdu {cdata(h['data'])} {chdr(h['hdr'])})"
def cfs(fs, cdata):
    ds = clist([cpath(d) for d in sorted(fs["dirs"])])
    fl = clist([ctup([cpath(p), clist([chdu(h, cdata) for h in c])]) for p, c in sorted(fs["files"], key=lambda e: e[0])])
    return f"(mkfs {ds} {fl})"
def cfres(x, f): return f"(FOk {f(x[1])})" if x[0] == "ok" else f"(FRaise {x[1]})"
def coexn(x): return "None" if x is None else f"(Some {x})"
def cobs2(o): return ctup([carr(o[0]), cbarr(o[1]), csc2(o[2]), chdr(o[3]), chdr(o[4])])
def cobs1(o): return ctup([crow(o[0]), cbrow(o[1]), cq(fr(o[2])), chdr(o[3]), chdr(o[4])])
def cobsm2(o): return ctup([cbarr(o[0]), csc2(o[1])])
def cobsm1(o): return ctup([cbrow(o[0]), cq(fr(o[1]))])

def cnat(n): return f"{int(n)}%nat"
POPS = {"add": "PAdd", "radd": "PRAdd", "sub": "PSub", "rsub": "PRSub", "mul": "PMul", "rmul": "PRMul", "div": "PDiv", "rdiv": "PRDiv"}
BOPS = {"add": "BAdd", "sub": "BSub", "rsub": "BRSub", "mul": "BMul"}
def cstep(s):
    t = s[0]
    if t == "op": return "(SOp PNeg)" if s[1] == "neg" else "(SOp PAbs)" if s[1] == "abs" else f"(SOp (@{POPS[s[1]]} QOps {cq(fr(s[2]))}))"
    if t == "bop": return f"(SBop {BOPS[s[1]]})"
    if t in ("save", "swap", "native", "slim", "copy", "peek", "hdu"): return "S" + t.capitalize()
    if t == "set1": return f"(@SSet1 QOps {cnat(s[1])} {cq(fr(s[2]))})"
    if t == "set2": return f"(@SSet2 QOps {cnat(s[1])} {cnat(s[2])} {cq(fr(s[3]))})"
    if t == "flip": return f"(SFlip {cbool(s[1])})"
    if t == "file": return f"(SFile {cpath(s[1])} {cbool(s[2])} {cz(s[3])})"
    raise ValueError(t)
def cobsv(o, cdata, cr):
    t = o[0]
    if t == "peek": return f"(@OPeek QOps _ _ {cdata(o[1])})"
    if t == "hdu": return f"(@OHdu QOps _ _ {chdu(o[1], cdata)} {cfres(o[2], cr)})"
    if t == "file": return f"(@OFile QOps _ _ {coexn(o[1])} {cfs(o[2], cdata)} {cfres(o[3], cr)})"
    if t == "err": return f"(@OErr QOps _ _ {o[1]})"
    raise ValueError(t)

# ----------------------------------------------------------------------------- implementation side
def exn_name(e):
    aa = import_aa()
    from autoarray import exc
    if isinstance(e, FileNotFoundError): return "FileNotFound"
    if isinstance(e, OSError) and "already exists" in str(e): return "FileExists"
    if isinstance(e, IndexError): return "IndexErr"
    if isinstance(e, KeyError): return "KeyErr"
    if isinstance(e, exc.ArrayException): return "ArrayErr"
    if isinstance(e, exc.DatasetException): return "DatasetErr"
    return "OtherErr"
def call(f, *a, **k):
    try: return ("ok", f(*a, **k))
    except Exception as e: return ("raise", exn_name(e))   # noqa

def comp_name(c, is_file): return f"c{int(c)}.fits" if is_file else f"c{int(c)}"
def rel_path(p): return os.path.join(*([comp_name(c, False) for c in p[:-1]] + [comp_name(p[-1], True)]))
def pix_cards(header):
    return [[k, float(header[k])] for k in header.keys() if k in ("PIXSCALE", "PIXSCALEY", "PIXSCALEX")]

def write_raw(path, content):
    from astropy.io import fits
    hs = []
    for i, h in enumerate(content):
        hd = fits.Header()
        for k, v in h["hdr"]: hd.append((k, float(v)))
        data = np.array(h["data"], dtype="float64")
        if h.get("dt"):                       # a FOREIGN file: integer / float32 / big-endian data as other software writes it
            assert np.array_equal(data.astype(h["dt"]).astype("float64"), data); data = data.astype(h["dt"])
        hs.append(fits.PrimaryHDU(data, header=hd) if i == 0 else fits.ImageHDU(data, header=hd))
    fits.HDUList(hs).writeto(path)

def read_raw(path):
    from astropy.io import fits
    out = []
    with fits.open(path) as hl:
        for h in hl:
            out.append({"data": np.array(h.data, dtype="float64").tolist(), "hdr": pix_cards(h.header)})
    return out

def setup_fs(root, fs):
    for d in fs["dirs"]:
        os.makedirs(os.path.join(root, *[comp_name(c, False) for c in d]), exist_ok=True)
    for p, content in fs["files"]:
        write_raw(os.path.join(root, rel_path(p)), content)

def snapshot(root):
    dirs, files = [], []
    for cur, ds, fs in os.walk(root):
        rel = os.path.relpath(cur, root)
        comps = [] if rel == "." else [int(c[1:]) for c in rel.split(os.sep)]
        if comps: dirs.append(comps)
        for f in fs:
            files.append([comps + [int(f[1:-5])], read_raw(os.path.join(cur, f))])
    return {"dirs": sorted(dirs), "files": sorted(files, key=lambda e: e[0])}

@contextlib.contextmanager
def sandbox(flip, fs0=None):
    """fresh root = current directory, flip_for_ds9 set explicitly; everything restored / removed afterwards"""
    from autoconf import conf
    root = tempfile.mkdtemp(prefix="pav_c16_")
    cwd = os.getcwd()
    sect = conf.instance["general"]["fits"]
    old = sect["flip_for_ds9"]
    try:
        if fs0: setup_fs(root, fs0)
        os.chdir(root)
        sect["flip_for_ds9"] = bool(flip)
        yield root
    finally:
        sect["flip_for_ds9"] = old
        os.chdir(cwd)
        shutil.rmtree(root, ignore_errors=True)

def norm_fs(fs):
    return {"dirs": sorted(list(d) for d in fs["dirs"]),
            "files": sorted([[list(p_), [{"data": h["data"], "hdr": [list(c) for c in h["hdr"]]} for h in c]] for p_, c in fs["files"]], key=lambda e: e[0])}
def fpath(root, p, absolute): return os.path.join(root, rel_path(p)) if absolute else rel_path(p)

def obs_arr2(o, with_headers=True):
    hs = pix_cards(o.header.header_sci_obj) if with_headers else []
    hh = pix_cards(o.header.header_hdu_obj) if with_headers else []
    return [np.array(o.native, dtype="float64").tolist(), np.array(o.mask).astype(bool).tolist(),
            [float(o.pixel_scales[0]), float(o.pixel_scales[1])], hs, hh]
def obs_arr1(o, with_headers=True):
    hs = pix_cards(o.header.header_sci_obj) if with_headers else []
    hh = pix_cards(o.header.header_hdu_obj) if with_headers else []
    return [np.array(o.native, dtype="float64").tolist(), np.array(o.mask).astype(bool).tolist(), float(o.pixel_scales[0]), hs, hh]
def obs_m2(m): return [np.array(m).astype(bool).tolist(), [float(m.pixel_scales[0]), float(m.pixel_scales[1])]]
def obs_m1(m): return [np.array(m).astype(bool).tolist(), float(m.pixel_scales[0])]
def okmap(r, f): return ("ok", f(r[1])) if r[0] == "ok" else r
def raw_of(h): return {"data": np.array(h.data, dtype="float64").tolist(), "hdr": pix_cards(h.header)}

# ----------------------------------------------------------------------------- input KINDS (phase 3)
# The logical input of a case (values, mask, pixel scales, path) stays the same; `src` / `msrc` / `sk` / `pk` say HOW it is
# handed to the library: python lists, int64 / float32 / Fortran-ordered / strided ndarrays, slim values, an autoarray
# object as `values`, subclass instances, the constructor classmethods (full / ones / zeros / all_false / apply_mask),
# an object DERIVED by a previous read (from_primary_hdu / from_fits), pixel scales as float / list / numpy scalars,
# paths as str / pathlib.Path / "./name".
_SUB = {}
def subclass(aa, name):
    """a user subclass of an accepted class (dispatch on type(x) instead of isinstance would treat it differently)"""
    if name not in _SUB: _SUB[name] = type("PavSub" + name, (getattr(aa, name),), {})
    return _SUB[name]
def as_path(path, pk):
    if pk == "Path": return pathlib.Path(path)
    if pk == "dot" and not os.path.isabs(path): return "." + os.sep + path
    return path
def as_sc2(sc, sk):
    if sk == "float": assert sc[0] == sc[1]; return float(sc[0])
    if sk == "list": return [float(sc[0]), float(sc[1])]
    if sk == "np": return (np.float64(sc[0]), np.float64(sc[1]))
    return (float(sc[0]), float(sc[1]))
def as_sc1(sc, sk):
    if sk == "tuple": return (float(sc),)
    return float(sc)
def as_values(vals, src):
    v = np.array(vals, dtype="float64")
    if src == "list": return [list(map(float, r)) for r in vals] if v.ndim == 2 else [float(x) for x in vals]
    if src == "int": out = v.astype("int64")
    elif src == "f32": out = v.astype("float32")
    elif src == "fortran": out = np.asfortranarray(v)
    elif src == "view":
        big = np.full(tuple(3 * n + 1 for n in v.shape), 777.0)
        sl = tuple(slice(1, None, 3) for _ in v.shape)
        big[sl] = v; out = big[sl]
        assert not out.flags["C_CONTIGUOUS"] or out.size <= 1
    else: return v
    assert np.array_equal(np.asarray(out, dtype="float64"), v), "the kind must hold the logical values exactly"
    return out
def mk_mask2(aa, mask, sc, msrc=None, sk=None):
    b = np.array(mask, dtype=bool); ps = as_sc2(sc, sk)
    if msrc == "list": return aa.Mask2D(mask=[list(map(bool, r)) for r in mask], pixel_scales=ps)
    if msrc == "int": return aa.Mask2D(mask=b.astype("int64"), pixel_scales=ps)
    if msrc == "float": return aa.Mask2D(mask=b.astype("float64"), pixel_scales=ps)
    if msrc == "fortran": return aa.Mask2D(mask=np.asfortranarray(b), pixel_scales=ps)
    if msrc == "invert": return aa.Mask2D(mask=np.invert(b), pixel_scales=ps, invert=True)
    if msrc == "self": return aa.Mask2D(mask=aa.Mask2D(mask=b, pixel_scales=ps), pixel_scales=ps)
    if msrc == "sub": return subclass(aa, "Mask2D")(mask=b, pixel_scales=ps)
    if msrc == "all_false": assert not b.any(); return aa.Mask2D.all_false(shape_native=b.shape, pixel_scales=ps)
    if msrc == "reread": return aa.Mask2D.from_primary_hdu(aa.Mask2D(mask=b, pixel_scales=ps).hdu_for_output)
    return aa.Mask2D(mask=b, pixel_scales=ps)
def mk_mask1(aa, mask, sc, msrc=None, sk=None):
    b = np.array(mask, dtype=bool); ps = as_sc1(sc, sk)
    if msrc == "list": return aa.Mask1D(mask=[bool(x) for x in mask], pixel_scales=ps)
    if msrc == "int": return aa.Mask1D(mask=b.astype("int64"), pixel_scales=ps)
    if msrc == "float": return aa.Mask1D(mask=b.astype("float64"), pixel_scales=ps)
    if msrc == "invert": return aa.Mask1D(mask=np.invert(b), pixel_scales=ps, invert=True)
    if msrc == "sub": return subclass(aa, "Mask1D")(mask=b, pixel_scales=ps)
    if msrc == "all_false": assert not b.any(); return aa.Mask1D.all_false(shape_slim=(len(mask),), pixel_scales=ps)
    if msrc == "reread": return aa.Mask1D.from_primary_hdu(aa.Mask1D(mask=b, pixel_scales=ps).hdu_for_output)
    return aa.Mask1D(mask=b, pixel_scales=ps)
def cls2(aa, kd, src=None):
    name = "Kernel2D" if kd == "kernel" else "Array2D"
    return subclass(aa, name) if src == "sub" else getattr(aa, name)
def zero_filled2(vals, mask): return [[0.0 if b else float(v) for v, b in zip(rv, rb)] for rv, rb in zip(vals, mask)]
def zero_filled1(vals, mask): return [0.0 if b else float(v) for v, b in zip(vals, mask)]

def mk_obj2(aa, kd, vals, mask, sc, src=None, msrc=None, sk=None, mask0=None):
    """the object whose logical content is (vals, mask, sc); see the comment on input kinds"""
    ps = as_sc2(sc, sk)
    anym = any(any(r) for r in mask)
    cls = cls2(aa, kd, src)
    if src in ("reread_hdu", "reread_file"):        # DERIVED by a read: the content of a first object, unmasked
        assert not anym
        o0 = mk_obj2(aa, kd, vals, mask0 if mask0 else mask, sc, msrc=msrc, sk=sk)
        if src == "reread_hdu": return cls.from_primary_hdu(primary_hdu=o0.hdu_for_output)
        d = tempfile.mkdtemp(prefix="pav_c16_src_")
        try:
            f = os.path.join(d, "src.fits"); o0.output_to_fits(file_path=f)
            return cls.from_fits(file_path=f, hdu=0, pixel_scales=ps)
        finally: shutil.rmtree(d, ignore_errors=True)
    if src in ("full", "ones", "zeros"):
        c = float(vals[0][0]); shp = (len(vals), len(vals[0]))
        assert not anym and all(x == c for r in vals for x in r)
        if src == "full": return cls.full(fill_value=c, shape_native=shp, pixel_scales=ps)
        assert c == (1.0 if src == "ones" else 0.0)
        return getattr(cls, src)(shape_native=shp, pixel_scales=ps)
    if src == "apply_mask":
        return aa.Array2D.no_mask(values=np.array(vals, dtype="float64"), pixel_scales=ps).apply_mask(mask=mk_mask2(aa, mask, sc, msrc, sk))
    if src == "slim":
        v = np.array([x for rv, rb in zip(vals, mask) for x, b in zip(rv, rb) if not b], dtype="float64")
        return cls(values=v, mask=mk_mask2(aa, mask, sc, msrc, sk))
    if src == "slimlist":
        v = [float(x) for rv, rb in zip(vals, mask) for x, b in zip(rv, rb) if not b]
        return cls(values=v, mask=mk_mask2(aa, mask, sc, msrc, sk))
    if src == "self":
        m = mk_mask2(aa, mask, sc, msrc, sk)
        return cls(values=cls(values=np.array(vals, dtype="float64"), mask=m), mask=m)
    v = as_values(vals, src)
    if src is None and msrc is None and sk is None:       # the phase-1 construction, unchanged
        if kd == "kernel": return aa.Kernel2D.no_mask(values=v, pixel_scales=tuple(sc))
        if not anym and (len(vals) + len(vals[0])) % 2 == 0: return aa.Array2D.no_mask(values=v, pixel_scales=tuple(sc))
        return aa.Array2D(values=v, mask=aa.Mask2D(mask=np.array(mask, dtype=bool), pixel_scales=tuple(sc)))
    if not anym and msrc is None and src != "sub": return cls.no_mask(values=v, pixel_scales=ps)
    return cls(values=v, mask=mk_mask2(aa, mask, sc, msrc, sk))
def mk_obj1(aa, vals, mask, sc, src=None, msrc=None, sk=None, mask0=None):
    ps = as_sc1(sc, sk)
    cls = subclass(aa, "Array1D") if src == "sub" else aa.Array1D
    if src == "reread_hdu":
        assert not any(mask)
        return cls.from_primary_hdu(primary_hdu=mk_obj1(aa, vals, mask0 if mask0 else mask, sc, msrc=msrc, sk=sk).hdu_for_output)
    if src in ("full", "ones", "zeros"):
        c = float(vals[0]); assert not any(mask) and all(x == c for x in vals)
        if src == "full": return cls.full(fill_value=c, shape_native=len(vals), pixel_scales=ps)
        assert c == (1.0 if src == "ones" else 0.0)
        return getattr(cls, src)(shape_native=len(vals), pixel_scales=ps)
    if src == "slim": return cls(values=np.array([x for x, b in zip(vals, mask) if not b], dtype="float64"), mask=mk_mask1(aa, mask, sc, msrc, sk))
    if src == "self":
        m = mk_mask1(aa, mask, sc, msrc, sk)
        return cls(values=cls(values=np.array(vals, dtype="float64"), mask=m), mask=m)
    v = as_values(vals, src)
    if src is None and msrc is None and sk is None:
        if not any(mask) and len(vals) % 2 == 0: return aa.Array1D.no_mask(values=np.array(vals, dtype="float64"), pixel_scales=float(sc))
        return aa.Array1D(values=np.array(vals, dtype="float64"), mask=aa.Mask1D(mask=np.array(mask, dtype=bool), pixel_scales=float(sc)))
    if not any(mask) and msrc is None and src != "sub": return cls.no_mask(values=v, pixel_scales=ps)
    return cls(values=v, mask=mk_mask1(aa, mask, sc, msrc, sk))

def fingerprint(x):
    """a comparable deep fingerprint of an argument object (dict / ndarray / HDU / settings object)"""
    if isinstance(x, np.ndarray): return ("nd", str(x.dtype), x.shape, x.tobytes())
    if isinstance(x, dict): return ("dict", [(k, fingerprint(v)) for k, v in x.items()])
    if isinstance(x, (list, tuple)): return (type(x).__name__, [fingerprint(v) for v in x])
    if hasattr(x, "__dict__") and not isinstance(x, type): return ("obj", type(x).__name__, [(k, fingerprint(v)) for k, v in sorted(vars(x).items())])
    return repr(x)

def kinds_of(inp):
    return {"mk": {"src": inp.get("src"), "msrc": inp.get("msrc"), "sk": inp.get("sk"), "mask0": inp.get("mask0")}, "pk": inp.get("pk")}

def run_case(inp):
    aa = import_aa()
    py_bad = None
    from autoarray.structures.arrays import array_2d_util, array_1d_util
    op = inp["op"]; flip = inp.get("flip", False)
    finding = None; out = None; extra = None
    cells = 2
    if op == "util2":
        arr = inp["arr"]; hd = inp["hd"]; cells = len(arr) * len(arr[0])
        with sandbox(flip, inp["fs0"]) as root:
            path = as_path(fpath(root, inp["p"], inp["abs"]), inp.get("pk"))
            the_array = as_values(arr, inp.get("src")); the_dict = (dict(hd) if hd else None)
            w = call(array_2d_util.numpy_array_2d_to_fits, array_2d=the_array, file_path=path,
                     overwrite=inp["ow"], header_dict=the_dict)
            fsa = snapshot(root)
            r = okmap(call(array_2d_util.numpy_array_2d_via_fits_from, file_path=path, hdu=inp["k"]), lambda a: np.array(a).tolist())
            hr = okmap(call(array_2d_util.header_obj_from, file_path=path, hdu=inp["k"]), pix_cards)
            if inp.get("again"):     # the caller's ndarray and dict are used for a second write (to another path)
                path2 = fpath(root, inp["again"], inp["abs"])
                w2 = call(array_2d_util.numpy_array_2d_to_fits, array_2d=the_array, file_path=path2, overwrite=inp["ow"], header_dict=the_dict)
                fsa2 = snapshot(root)
                r2 = okmap(call(array_2d_util.numpy_array_2d_via_fits_from, file_path=path2, hdu=inp["k"]), lambda a: np.array(a).tolist())
                hr2 = okmap(call(array_2d_util.header_obj_from, file_path=path2, hdu=inp["k"]), pix_cards)
        wx = None if w[0] == "ok" else w[1]
        out = [wx, fsa, r, hr]
        coq = (f"KUtil2 {cbool(flip)} {cfs(inp['fs0'], carr)} {carr(arr)} {cpath(inp['p'])} {cbool(inp['ow'])} {chdr(hd)} {cz(inp['k'])} "
               f"{coexn(wx)} {cfs(fsa, carr)} {cfres(r, carr)} {cfres(hr, chdr)}")
        if inp.get("again"):
            wx2 = None if w2[0] == "ok" else w2[1]
            out += [wx2, fsa2, r2, hr2]
            extra = [(f"(KBase (KUtil2 {cbool(flip)} {cfs(fsa, carr)} {carr(arr)} {cpath(inp['again'])} {cbool(inp['ow'])} {chdr(hd)} {cz(inp['k'])} "
                      f"{coexn(wx2)} {cfs(fsa2, carr)} {cfres(r2, carr)} {cfres(hr2, chdr)}))")]
    elif op == "util1":
        arr = inp["arr"]; hd = inp["hd"]; cells = len(arr)
        with sandbox(flip, inp["fs0"]) as root:
            path = as_path(fpath(root, inp["p"], inp["abs"]), inp.get("pk"))
            the_array = as_values(arr, inp.get("src")); the_dict = (dict(hd) if hd else None)
            w = call(array_1d_util.numpy_array_1d_to_fits, array_1d=the_array, file_path=path,
                     overwrite=inp["ow"], header_dict=the_dict)
            fsa = snapshot(root)
            r = okmap(call(array_1d_util.numpy_array_1d_via_fits_from, file_path=path, hdu=inp["k"]), lambda a: np.array(a, dtype="float64").tolist())
            if inp.get("again"):
                path2 = fpath(root, inp["again"], inp["abs"])
                w2 = call(array_1d_util.numpy_array_1d_to_fits, array_1d=the_array, file_path=path2, overwrite=inp["ow"], header_dict=the_dict)
                fsa2 = snapshot(root)
                r2 = okmap(call(array_1d_util.numpy_array_1d_via_fits_from, file_path=path2, hdu=inp["k"]), lambda a: np.array(a, dtype="float64").tolist())
        wx = None if w[0] == "ok" else w[1]
        out = [wx, fsa, r]
        coq = (f"KUtil1 {cfs(inp['fs0'], crow)} {crow(arr)} {cpath(inp['p'])} {cbool(inp['ow'])} {chdr(hd)} {cz(inp['k'])} "
               f"{coexn(wx)} {cfs(fsa, crow)} {cfres(r, crow)}")
        if inp.get("again"):
            wx2 = None if w2[0] == "ok" else w2[1]
            out += [wx2, fsa2, r2]
            extra = [(f"(KBase (KUtil1 {cfs(fsa, crow)} {crow(arr)} {cpath(inp['again'])} {cbool(inp['ow'])} {chdr(hd)} {cz(inp['k'])} "
                      f"{coexn(wx2)} {cfs(fsa2, crow)} {cfres(r2, crow)}))")]
    elif op == "file2":
        vals, mask, sc, kd = inp["vals"], inp["mask"], inp["sc"], inp["kd"]; cells = len(vals) * len(vals[0])
        K = kinds_of(inp)
        with sandbox(flip, inp["fs0"]) as root:
            path = as_path(fpath(root, inp["p"], inp["abs"]), K["pk"])
            obj = mk_obj2(aa, kd, vals, mask, sc, **K["mk"])
            cls = cls2(aa, kd, K["mk"]["src"]); ps = as_sc2(sc, K["mk"]["sk"]); ps_fp = fingerprint(ps)
            w = call(obj.output_to_fits, file_path=path, overwrite=inp["ow"])
            fsa = snapshot(root)
            rd = lambda: okmap(call(cls.from_fits, file_path=path, hdu=inp["k"], pixel_scales=ps) if kd == "kernel" else
                               call(cls.from_fits, file_path=path, pixel_scales=ps, hdu=inp["k"]), obs_arr2)
            r = rd()
            if inp.get("twice"):      # the same file read a second time; the tree and the caller's arguments afterwards
                r2 = rd(); fsa2 = snapshot(root)
                if fingerprint(ps) != ps_fp: py_bad = "from_fits changed its pixel_scales argument"
        wx = None if w[0] == "ok" else w[1]
        out = [wx, fsa, r]
        head = (f"KFile2 {cbool(flip)} {'KKernel' if kd == 'kernel' else 'KArray'} {carr(vals)} {cbarr(mask)} {csc2(sc)} "
                f"{cfs(inp['fs0'], carr)} {cpath(inp['p'])} {cbool(inp['ow'])} {cz(inp['k'])} {coexn(wx)} ")
        coq = head + f"{cfs(fsa, carr)} {cfres(r, cobs2)}"
        if inp.get("twice"): out += [fsa2, r2]; extra = ["(KBase (" + head + f"{cfs(fsa2, carr)} {cfres(r2, cobs2)}))"]
    elif op == "hdu2":
        vals, mask, sc, kd = inp["vals"], inp["mask"], inp["sc"], inp["kd"]; cells = len(vals) * len(vals[0])
        K = kinds_of(inp)
        with sandbox(flip):
            obj = mk_obj2(aa, kd, vals, mask, sc, **K["mk"])
            h = obj.hdu_for_output
            raw = raw_of(h)
            cls = cls2(aa, kd, K["mk"]["src"])
            r = okmap(call(cls.from_primary_hdu, primary_hdu=h), lambda o: obs_arr2(o, False))
            if inp.get("twice"):      # the caller's HDU after the read, and read a second time
                raw2 = raw_of(h); r2 = okmap(call(cls.from_primary_hdu, primary_hdu=h), lambda o: obs_arr2(o, False))
        out = [raw, r]
        head = f"KHdu2 {cbool(flip)} {'KKernel' if kd == 'kernel' else 'KArray'} {carr(vals)} {cbarr(mask)} {csc2(sc)} "
        coq = head + f"{chdu(raw, carr)} {cfres(r, cobs2)}"
        if inp.get("twice"): out += [raw2, r2]; extra = ["(KBase (" + head + f"{chdu(raw2, carr)} {cfres(r2, cobs2)}))"]
    elif op == "filem2":
        mask, sc = inp["mask"], inp["sc"]; cells = len(mask) * len(mask[0])
        rs = inp.get("rs")
        with sandbox(flip, inp["fs0"]) as root:
            K = kinds_of(inp)
            path = as_path(fpath(root, inp["p"], inp["abs"]), K["pk"])
            m = mk_mask2(aa, mask, sc, K["mk"]["msrc"], K["mk"]["sk"])
            mcls = subclass(aa, "Mask2D") if K["mk"]["msrc"] == "sub" else aa.Mask2D; ps = as_sc2(sc, K["mk"]["sk"])
            w = call(m.output_to_fits, file_path=path, overwrite=inp["ow"])
            fsa = snapshot(root)
            rd = lambda: okmap(call(mcls.from_fits, file_path=path, pixel_scales=ps, hdu=inp["k"],
                                    resized_mask_shape=(tuple(rs) if rs else None), invert=inp["inv"]), obs_m2)
            r = rd()
            if inp.get("twice"): r2 = rd(); fsa2 = snapshot(root)
        wx = None if w[0] == "ok" else w[1]
        out = [wx, fsa, r]
        head = (f"KFileM2 {cbool(flip)} {cbarr(mask)} {csc2(sc)} {cfs(inp['fs0'], carr)} {cpath(inp['p'])} {cbool(inp['ow'])} {cz(inp['k'])} "
                f"{copt(rs, lambda t: ctup([cz(t[0]), cz(t[1])]))} {cbool(inp['inv'])} {coexn(wx)} ")
        coq = head + f"{cfs(fsa, carr)} {cfres(r, cobsm2)}"
        if inp.get("twice"): out += [fsa2, r2]; extra = ["(KBase (" + head + f"{cfs(fsa2, carr)} {cfres(r2, cobsm2)}))"]
    elif op == "hdum2":
        mask, sc = inp["mask"], inp["sc"]; cells = len(mask) * len(mask[0])
        with sandbox(flip):
            K = kinds_of(inp)
            m = mk_mask2(aa, mask, sc, K["mk"]["msrc"], K["mk"]["sk"])
            mcls = subclass(aa, "Mask2D") if K["mk"]["msrc"] == "sub" else aa.Mask2D
            h = m.hdu_for_output
            raw = raw_of(h)
            r = okmap(call(mcls.from_primary_hdu, primary_hdu=h), obs_m2)
            if inp.get("twice"): raw2 = raw_of(h); r2 = okmap(call(mcls.from_primary_hdu, primary_hdu=h), obs_m2)
        out = [raw, r]
        head = f"KHduM2 {cbool(flip)} {cbarr(mask)} {csc2(sc)} "
        coq = head + f"{chdu(raw, carr)} {cfres(r, cobsm2)}"
        if inp.get("twice"): out += [raw2, r2]; extra = ["(KBase (" + head + f"{chdu(raw2, carr)} {cfres(r2, cobsm2)}))"]
    elif op == "multi2":
        from astropy.io import fits
        objs = inp["objs"]; cells = 4
        with sandbox(flip) as root:
            hs = []
            for i, (v, m, s) in enumerate(objs):
                h = mk_obj2(aa, "array", v, m, s).hdu_for_output
                hs.append(h if i == 0 else fits.ImageHDU(h.data, header=h.header))
            fits.HDUList(hs).writeto("multi.fits")
            r = okmap(call(aa.Array2D.from_fits, file_path="multi.fits", pixel_scales=1.0, hdu=inp["k"]), obs_arr2)
        out = [r]
        cobjs = clist([ctup([carr(v), cbarr(m), csc2(s)]) for v, m, s in objs])
        coq = f"KMulti2 {cbool(flip)} {cobjs} {cz(inp['k'])} {cfres(r, cobs2)}"
    elif op == "multi1":
        from astropy.io import fits
        objs = inp["objs"]; cells = 4
        with sandbox(flip) as root:
            hs = []
            for i, (v, m, s) in enumerate(objs):
                h = mk_obj1(aa, v, m, s).hdu_for_output
                hs.append(h if i == 0 else fits.ImageHDU(h.data, header=h.header))
            fits.HDUList(hs).writeto("multi.fits")
            r = okmap(call(aa.Array1D.from_fits, file_path="multi.fits", pixel_scales=1.0, hdu=inp["k"]), obs_arr1)
        out = [r]
        cobjs = clist([ctup([crow(v), cbrow(m), cq(fr(s))]) for v, m, s in objs])
        coq = f"KMulti1 {cbool(flip)} {cobjs} {cz(inp['k'])} {cfres(r, cobs1)}"
    elif op == "file1":
        vals, mask, sc = inp["vals"], inp["mask"], inp["sc"]; cells = len(vals)
        with sandbox(flip, inp["fs0"]) as root:
            K = kinds_of(inp)
            path = as_path(fpath(root, inp["p"], inp["abs"]), K["pk"])
            obj = mk_obj1(aa, vals, mask, sc, **K["mk"])
            cls = subclass(aa, "Array1D") if K["mk"]["src"] == "sub" else aa.Array1D; ps = as_sc1(sc, K["mk"]["sk"])
            w = call(obj.output_to_fits, file_path=path, overwrite=inp["ow"])
            fsa = snapshot(root)
            rd = lambda: okmap(call(cls.from_fits, file_path=path, pixel_scales=ps, hdu=inp["k"]), obs_arr1)
            r = rd()
            if inp.get("twice"): r2 = rd(); fsa2 = snapshot(root)
        wx = None if w[0] == "ok" else w[1]
        out = [wx, fsa, r]
        head = (f"KFile1 {cbool(flip)} {crow(vals)} {cbrow(mask)} {cq(fr(sc))} {cfs(inp['fs0'], crow)} {cpath(inp['p'])} {cbool(inp['ow'])} "
                f"{cz(inp['k'])} {coexn(wx)} ")
        coq = head + f"{cfs(fsa, crow)} {cfres(r, cobs1)}"
        if inp.get("twice"): out += [fsa2, r2]; extra = ["(KBase (" + head + f"{cfs(fsa2, crow)} {cfres(r2, cobs1)}))"]
    elif op == "hdu1":
        vals, mask, sc = inp["vals"], inp["mask"], inp["sc"]; cells = len(vals)
        with sandbox(flip):
            K = kinds_of(inp)
            obj = mk_obj1(aa, vals, mask, sc, **K["mk"])
            cls = subclass(aa, "Array1D") if K["mk"]["src"] == "sub" else aa.Array1D
            h = obj.hdu_for_output
            raw = raw_of(h)
            r = okmap(call(cls.from_primary_hdu, primary_hdu=h), lambda o: obs_arr1(o, False))
            if inp.get("twice"): raw2 = raw_of(h); r2 = okmap(call(cls.from_primary_hdu, primary_hdu=h), lambda o: obs_arr1(o, False))
        out = [raw, r]
        head = f"KHdu1 {cbool(flip)} {crow(vals)} {cbrow(mask)} {cq(fr(sc))} "
        coq = head + f"{chdu(raw, crow)} {cfres(r, cobs1)}"
        if inp.get("twice"): out += [raw2, r2]; extra = ["(KBase (" + head + f"{chdu(raw2, crow)} {cfres(r2, cobs1)}))"]
    elif op == "filem1":
        mask, sc = inp["mask"], inp["sc"]; cells = len(mask)
        with sandbox(flip, inp["fs0"]) as root:
            K = kinds_of(inp)
            path = as_path(fpath(root, inp["p"], inp["abs"]), K["pk"])
            m = mk_mask1(aa, mask, sc, K["mk"]["msrc"], K["mk"]["sk"])
            mcls = subclass(aa, "Mask1D") if K["mk"]["msrc"] == "sub" else aa.Mask1D; ps = as_sc1(sc, K["mk"]["sk"])
            w = call(m.output_to_fits, file_path=path, overwrite=inp["ow"])
            fsa = snapshot(root)
            rd = lambda: okmap(call(mcls.from_fits, file_path=path, pixel_scales=ps, hdu=inp["k"]), obs_m1)
            r = rd()
            if inp.get("twice"): r2 = rd(); fsa2 = snapshot(root)
        wx = None if w[0] == "ok" else w[1]
        out = [wx, fsa, r]
        head = (f"KFileM1 {cbool(flip)} {cbrow(mask)} {cq(fr(sc))} {cfs(inp['fs0'], crow)} {cpath(inp['p'])} {cbool(inp['ow'])} {cz(inp['k'])} "
                f"{coexn(wx)} ")
        coq = head + f"{cfs(fsa, crow)} {cfres(r, cobsm1)}"
        if inp.get("twice"): out += [fsa2, r2]; extra = ["(KBase (" + head + f"{cfs(fsa2, crow)} {cfres(r2, cobsm1)}))"]
    elif op == "hdum1":
        mask, sc = inp["mask"], inp["sc"]; cells = len(mask)
        with sandbox(flip):
            K = kinds_of(inp)
            m = mk_mask1(aa, mask, sc, K["mk"]["msrc"], K["mk"]["sk"])
            mcls = subclass(aa, "Mask1D") if K["mk"]["msrc"] == "sub" else aa.Mask1D
            h = m.hdu_for_output
            raw = raw_of(h)
            r = okmap(call(mcls.from_primary_hdu, primary_hdu=h), obs_m1)
            if inp.get("twice"): raw2 = raw_of(h); r2 = okmap(call(mcls.from_primary_hdu, primary_hdu=h), obs_m1)
        out = [raw, r]
        head = f"KHduM1 {cbool(flip)} {cbrow(mask)} {cq(fr(sc))} "
        coq = head + f"{chdu(raw, crow)} {cfres(r, cobsm1)}"
        if inp.get("twice"): out += [raw2, r2]; extra = ["(KBase (" + head + f"{chdu(raw2, crow)} {cfres(r2, cobsm1)}))"]
    elif op == "imaging":
        mask, sc = inp["mask"], inp["sc"]; cells = 9
        with sandbox(flip, inp["fs0"]) as root:
            m = aa.Mask2D(mask=np.array(mask, dtype=bool), pixel_scales=tuple(sc))
            img = aa.Imaging(data=aa.Array2D(values=np.array(inp["data"], dtype="float64"), mask=m),
                             noise_map=aa.Array2D(values=np.array(inp["noise"], dtype="float64"), mask=m),
                             psf=aa.Kernel2D.no_mask(values=np.array(inp["psf"], dtype="float64"), pixel_scales=tuple(sc)))
            psf = np.array(img.psf.native, dtype="float64").tolist()      # as normalised by Imaging.__init__
            pd, pp, pn = (fpath(root, inp[k], inp["abs"]) for k in ("pd", "pp", "pn"))
            w = call(img.output_to_fits, data_path=pd, psf_path=pp, noise_map_path=pn, overwrite=inp["ow"])
            fsa = snapshot(root)
            r = okmap(call(aa.Imaging.from_fits, pixel_scales=tuple(sc), data_path=pd, psf_path=pp, noise_map_path=pn,
                           check_noise_map=inp["chk"]),
                      lambda im: [np.array(x.native, dtype="float64").tolist() for x in (im.data, im.noise_map, im.psf)])
        wx = None if w[0] == "ok" else w[1]
        out = [wx, fsa, r]
        coq = (f"KImaging {cbool(flip)} {cbarr(mask)} {carr(inp['data'])} {carr(inp['noise'])} {carr(psf)} {csc2(sc)} {cfs(inp['fs0'], carr)} "
               f"{cpath(inp['pd'])} {cpath(inp['pp'])} {cpath(inp['pn'])} {cbool(inp['ow'])} {cbool(inp['chk'])} {coexn(wx)} {cfs(fsa, carr)} "
               f"{cfres(r, lambda t: ctup([carr(t[0]), carr(t[1]), carr(t[2])]))}")
    elif op in ("hist2", "hist1", "histm2", "histm1"):
        return run_hist(aa, inp)
    elif op in ("sess2", "sess1"):
        return run_session(aa, inp)
    elif op == "sib":
        return run_sibling(aa, inp)
    elif op == "imghdus":
        return run_imaging_hdus(aa, inp)
    else:
        raise ValueError(op)
    kk = "".join(f":{k}={inp[k]}" for k in ("src", "msrc", "sk", "pk") if inp.get(k))
    res = {"coq": "(KBase (" + coq + "))", "out": out, "py_ok": (False if py_bad else None), "nontrivial": cells > 1, "kind": op + (":flip" if flip else "") + kk}
    if py_bad: res["py_note"] = py_bad
    if finding: res["finding"] = finding
    if extra: res["extra_coq"] = extra
    return res

# ----------------------------------------------------------------------------- sessions: several objects, one directory tree
def run_session(aa, inp):
    """Several objects of several classes live at once and are written / read in an interleaved order in ONE tree: the same
    object goes to several paths, the same path receives several objects (overwrite), files are re-read after later
    writes, a file written by one class is read by another, with pixel_scales arguments that differ from the header.
    Every act becomes one Coq case whose initial file system is the REAL tree left by the previous act."""
    from autoconf import conf
    dim2 = inp["op"] == "sess2"; flip = inp["flip"]
    cdata, cob, cobm = (carr, cobs2, cobsm2) if dim2 else (crow, cobs1, cobsm1)
    cases = []; out = []; py_bad = None
    with sandbox(flip, inp["fs0"]) as root:
        objs = []
        for o in inp["objs"]:
            K = {"src": o.get("src"), "msrc": o.get("msrc"), "sk": o.get("sk")}
            if o["kd"] == "mask": objs.append((mk_mask2 if dim2 else mk_mask1)(aa, o["mask"], o["sc"], K["msrc"], K["sk"]))
            elif dim2: objs.append(mk_obj2(aa, o["kd"], o["vals"], o["mask"], o["sc"], **K))
            else: objs.append(mk_obj1(aa, o["vals"], o["mask"], o["sc"], **K))
        fs_cur = inp["fs0"]
        for a in inp["acts"]:
            t = a[0]
            if t == "flip":
                flip = bool(a[1]); conf.instance["general"]["fits"]["flip_for_ds9"] = flip; continue
            if t == "w":                                       # ["w", object index, path, overwrite, hdu, absolute, path kind]
                _, i, pth, ow, k, ab, pk = a
                o = inp["objs"][i]; obj = objs[i]; sc = o["sc"]
                path = as_path(fpath(root, pth, ab), pk)
                w = call(obj.output_to_fits, file_path=path, overwrite=ow); wx = None if w[0] == "ok" else w[1]
                fsa = snapshot(root)
                if o["kd"] == "mask":
                    if dim2:
                        r = okmap(call(aa.Mask2D.from_fits, file_path=path, pixel_scales=tuple(sc), hdu=k), obs_m2)
                        c = (f"KFileM2 {cbool(flip)} {cbarr(o['mask'])} {csc2(sc)} {cfs(fs_cur, carr)} {cpath(pth)} {cbool(ow)} {cz(k)} None false "
                             f"{coexn(wx)} {cfs(fsa, carr)} {cfres(r, cobsm2)}")
                    else:
                        r = okmap(call(aa.Mask1D.from_fits, file_path=path, pixel_scales=float(sc), hdu=k), obs_m1)
                        c = (f"KFileM1 {cbool(flip)} {cbrow(o['mask'])} {cq(fr(sc))} {cfs(fs_cur, crow)} {cpath(pth)} {cbool(ow)} {cz(k)} "
                             f"{coexn(wx)} {cfs(fsa, crow)} {cfres(r, cobsm1)}")
                elif dim2:
                    cls = cls2(aa, o["kd"], o.get("src"))
                    r = okmap(call(cls.from_fits, file_path=path, hdu=k, pixel_scales=tuple(sc)), obs_arr2)
                    c = (f"KFile2 {cbool(flip)} {'KKernel' if o['kd'] == 'kernel' else 'KArray'} {carr(o['vals'])} {cbarr(o['mask'])} {csc2(sc)} "
                         f"{cfs(fs_cur, carr)} {cpath(pth)} {cbool(ow)} {cz(k)} {coexn(wx)} {cfs(fsa, carr)} {cfres(r, cobs2)}")
                else:
                    r = okmap(call(aa.Array1D.from_fits, file_path=path, pixel_scales=float(sc), hdu=k), obs_arr1)
                    c = (f"KFile1 {cbool(flip)} {crow(o['vals'])} {cbrow(o['mask'])} {cq(fr(sc))} {cfs(fs_cur, crow)} {cpath(pth)} {cbool(ow)} "
                         f"{cz(k)} {coexn(wx)} {cfs(fsa, crow)} {cfres(r, cobs1)}")
                cases.append("(KBase (" + c + "))"); out.append([wx, fsa, r]); fs_cur = fsa
            elif t == "r":                                     # ["r", reader class, path, pixel_scales argument, hdu, absolute, path kind, invert]
                _, kd, pth, sc, k, ab, pk, inv = a
                path = as_path(fpath(root, pth, ab), pk)
                if kd == "mask":
                    if dim2:
                        r = okmap(call(aa.Mask2D.from_fits, file_path=path, pixel_scales=tuple(sc), hdu=k, invert=inv), obs_m2)
                        c = f"KReadM2 {cbool(flip)} {cfs(fs_cur, carr)} {cpath(pth)} {csc2(sc)} {cz(k)} {cbool(inv)} {cfres(r, cobsm2)}"
                    else:
                        r = okmap(call(aa.Mask1D.from_fits, file_path=path, pixel_scales=float(sc), hdu=k), obs_m1)
                        c = f"KReadM1 {cfs(fs_cur, crow)} {cpath(pth)} {cq(fr(sc))} {cz(k)} {cfres(r, cobsm1)}"
                elif dim2:
                    cls = aa.Kernel2D if kd == "kernel" else aa.Array2D
                    r = okmap(call(cls.from_fits, file_path=path, hdu=k, pixel_scales=tuple(sc)), obs_arr2)
                    c = f"KRead2 {cbool(flip)} {'KKernel' if kd == 'kernel' else 'KArray'} {cfs(fs_cur, carr)} {cpath(pth)} {csc2(sc)} {cz(k)} {cfres(r, cobs2)}"
                else:
                    r = okmap(call(aa.Array1D.from_fits, file_path=path, pixel_scales=float(sc), hdu=k), obs_arr1)
                    c = f"KRead1 {cfs(fs_cur, crow)} {cpath(pth)} {cq(fr(sc))} {cz(k)} {cfres(r, cobs1)}"
                cases.append("(" + c + ")"); out.append(r)
            else: raise ValueError(t)
        if norm_fs(snapshot(root)) != norm_fs(fs_cur): py_bad = "a read changed the directory tree"
    res = {"coq": cases[0], "extra_coq": cases[1:], "out": out, "py_ok": (False if py_bad else None), "nontrivial": len(cases) > 1,
           "kind": inp["op"] + (":flip" if inp["flip"] else "")}
    if py_bad: res["py_note"] = py_bad
    return res

# ----------------------------------------------------------------------------- siblings that share the util functions
def run_sibling(aa, inp):
    """Visibilities / VisibilitiesNoiseMap (.hdu_for_output, .output_to_fits -> .from_fits) and Grid2D (AbstractNDArray.output_to_fits ->
    Grid2D.from_fits) go through numpy_array_2d_to_fits /
    numpy_array_2d_via_fits_from with a headerless array: each write + read is a KUtil2 case on the array the object stands for
    ([N, 2] = (real, imag); a [H, W, 2] grid is compared as [H, 2 W], which commutes with flipping axis 0)."""
    from autoarray.structures.arrays import array_2d_util
    flip = inp["flip"]; kind = inp["kind"]; K = inp.get("src")
    cases = []; out = []; py_bad = None
    def flat(a):
        a = np.array(a, dtype="float64")
        return a.reshape(a.shape[0], -1).tolist()
    def flat_fs(fs): return {"dirs": fs["dirs"], "files": [[p, [{"data": flat(h["data"]), "hdr": h["hdr"]} for h in c]] for p, c in fs["files"]]}
    def vis_of(cls, pairs):
        if K == "complex": return cls(visibilities=np.array([complex(a, b) for a, b in pairs]))
        if K == "complexlist": return cls(visibilities=[complex(a, b) for a, b in pairs])
        if K == "list": return cls(visibilities=[[float(a), float(b)] for a, b in pairs])
        if K == "f32": return cls(visibilities=np.array(pairs, dtype="float32"))
        return cls(visibilities=np.array(pairs, dtype="float64"))
    def one(write, arr, pth, ow, k, read, fs_cur, root):
        path = as_path(fpath(root, pth, inp["abs"]), inp.get("pk"))
        w = call(write, path, ow); wx = None if w[0] == "ok" else w[1]
        fsa = flat_fs(snapshot(root))
        r = okmap(call(read, path, k), flat)
        hr = okmap(call(array_2d_util.header_obj_from, file_path=path, hdu=k), pix_cards)
        cases.append(f"(KBase (KUtil2 {cbool(flip)} {cfs(fs_cur, carr)} {carr(flat(arr))} {cpath(pth)} {cbool(ow)} {chdr([])} {cz(k)} "
                     f"{coexn(wx)} {cfs(fsa, carr)} {cfres(r, carr)} {cfres(hr, chdr)}))")
        out.append([wx, fsa, r, hr]); return fsa
    with sandbox(flip, inp["fs0"]) as root:
        fs_cur = inp["fs0"]; ow = inp["ow"]; k = inp["k"]
        if kind in ("vis", "visnoise"):
            cls = aa.Visibilities if kind == "vis" else aa.VisibilitiesNoiseMap
            v = vis_of(cls, inp["vis"])
            h = v.hdu_for_output; raw = raw_of(h)            # the HDU route: data = in_array (flipped under the flag), no cards
            exp = list(reversed(inp["vis"])) if flip else inp["vis"]
            if flat(raw["data"]) != flat(exp) or raw["hdr"]: py_bad = f"hdu_for_output: {raw}"
            out.append(raw)
            for pth in inp["paths"]:                          # the same object to every path
                fs_cur = one(lambda p_, o_: v.output_to_fits(file_path=p_, overwrite=o_), inp["vis"], pth, ow, k,
                             lambda p_, k_: np.array(cls.from_fits(file_path=p_, hdu=k_).in_array), fs_cur, root)
        elif kind == "grid":
            g = np.array(inp["grid"], dtype="float64")       # [H, W, 2]
            obj = aa.Grid2D.no_mask(values=as_values(inp["grid"], K) if K in ("f32", "fortran") else (inp["grid"] if K == "list" else g), pixel_scales=tuple(inp["sc"]))
            for pth in inp["paths"]:
                fs_cur = one(lambda p_, o_: obj.output_to_fits(file_path=p_, overwrite=o_), g, pth, ow, k,
                             lambda p_, k_: np.array(aa.Grid2D.from_fits(file_path=p_, pixel_scales=tuple(inp["sc"])).native) if k_ == 0 else
                                            array_2d_util.numpy_array_2d_via_fits_from(file_path=p_, hdu=k_), fs_cur, root)
        else: raise ValueError(kind)
    res = {"coq": cases[0] if cases else None, "extra_coq": cases[1:], "out": out, "py_ok": (False if py_bad else None), "nontrivial": True,
           "kind": "sib:" + kind + (":flip" if flip else "") + (f":src={K}" if K else "")}
    if py_bad: res["py_note"] = py_bad
    return res

# ----------------------------------------------------------------------------- Imaging.from_fits: the three hdu arguments
def run_imaging_hdus(aa, inp):
    """Imaging.from_fits(data_hdu, noise_map_hdu, psf_hdu) on pre-existing multi-HDU files, the three indices varied
    independently; psf_path may be None.  Each loaded array is one KRead2 case (the psf files hold kernels that sum to one, so
    the normalisation in Imaging.__init__ is exact).  The shared default `over_sampling` object is fingerprinted and the call is
    made twice."""
    flip = inp["flip"]; sc = inp["sc"]; fs0 = inp["fs0"]; py_bad = None
    with sandbox(flip, fs0) as root:
        pd, pn, pp = inp["pd"], inp["pn"], inp["pp"]
        f = lambda q: None if q is None else as_path(fpath(root, q, inp["abs"]), inp.get("pk"))
        fp0 = fingerprint(aa.Imaging.from_fits.__func__.__defaults__)
        go = lambda: call(aa.Imaging.from_fits, pixel_scales=tuple(sc), data_path=f(pd), noise_map_path=f(pn), data_hdu=inp["kd"], noise_map_hdu=inp["kn"],
                          psf_path=f(pp), psf_hdu=inp["kp"], check_noise_map=False)
        from autoarray.structures.arrays import array_2d_util
        def psf_obs(k_):      # Imaging.__init__ rebuilds the (normalised) psf without its header: the cards are read with header_obj_from
            o = obs_arr2(k_, False)
            return o[:3] + [pix_cards(array_2d_util.header_obj_from(file_path=f(pp), hdu=0)), pix_cards(array_2d_util.header_obj_from(file_path=f(pp), hdu=inp["kp"]))]
        parts = lambda im: [obs_arr2(im.data), obs_arr2(im.noise_map), None if im.psf is None else psf_obs(im.psf)]
        r = okmap(go(), parts)
        r2 = okmap(go(), parts)
        if r2 != r: py_bad = "the second identical call of Imaging.from_fits differs from the first"
        if fingerprint(aa.Imaging.from_fits.__func__.__defaults__) != fp0: py_bad = "Imaging.from_fits changed a shared default argument"
        if norm_fs(snapshot(root)) != norm_fs(fs0): py_bad = "a read changed the directory tree"
    cases = []
    if r[0] == "ok":
        for q, k, kd, o in ((pd, inp["kd"], "KArray", r[1][0]), (pn, inp["kn"], "KArray", r[1][1]), (pp, inp["kp"], "KKernel", r[1][2])):
            if q is None:
                if o is not None: py_bad = "psf_path=None gave a psf"
                continue
            cases.append(f"(KRead2 {cbool(flip)} {kd} {cfs(fs0, carr)} {cpath(q)} {csc2(sc)} {cz(k)} {cfres(('ok', o), cobs2)})")
    else:
        # the first failing reader in the code's order (data, noise map, psf) decides the exception
        for q, k, kd in ((pd, inp["kd"], "KArray"), (pn, inp["kn"], "KArray"), (pp, inp["kp"], "KKernel")):
            if q is None: continue
            hl = dict((tuple(e[0]), e[1]) for e in fs0["files"]).get(tuple(q))
            if hl is None or not (-len(hl) <= k < len(hl)):
                cases.append(f"(KRead2 {cbool(flip)} {kd} {cfs(fs0, carr)} {cpath(q)} {csc2(sc)} {cz(k)} {cfres(r, cobs2)})"); break
        if not cases: py_bad = py_bad or f"Imaging.from_fits raised {r[1]} although every file and hdu exists"
    res = {"coq": cases[0] if cases else None, "extra_coq": cases[1:], "out": [r], "py_ok": (False if py_bad else None), "nontrivial": True,
           "kind": "imghdus" + (":flip" if flip else "")}
    if py_bad: res["py_note"] = py_bad
    return res

# ----------------------------------------------------------------------------- histories of one object
def apply_op(obj, name, c):
    """the python expression a user writes; c is a python float (a numpy scalar on the left would take numpy's own route)"""
    if name == "add": return obj + c
    if name == "radd": return c + obj
    if name == "sub": return obj - c
    if name == "rsub": return c - obj
    if name == "mul": return obj * c
    if name == "rmul": return c * obj
    if name == "div": return obj / c
    if name == "rdiv": return c / obj
    if name == "neg": return -obj
    if name == "abs": return abs(obj)
    raise ValueError(name)
def apply_bop(obj, other, name):
    if name == "add": return obj + other
    if name == "sub": return obj - other
    if name == "rsub": return other - obj
    if name == "mul": return obj * other
    raise ValueError(name)

def run_hist(aa, inp):
    from autoconf import conf
    op = inp["op"]; flip = inp["flip"]; sc = inp["sc"]; mask = inp["mask"]; steps = inp["steps"]
    nbo = bool(inp.get("nbo", False)); sn = bool(inp.get("sn", False))
    dim2 = op in ("hist2", "histm2")
    st = conf.instance["general"]["structures"]; old_nbo = st["native_binned_only"]
    obs = []
    with sandbox(flip, inp["fs0"]) as root:
        try:
            st["native_binned_only"] = nbo
            if op == "hist2":
                m = mk_mask2(aa, mask, sc, inp.get("msrc"))
                cls = cls2(aa, inp["kd"], inp.get("src"))
                obj = cls(values=as_values(inp["vals"], inp.get("src")), mask=m, store_native=sn)     # the input KIND (int64 / float32 / list / strided ...) must not show later
                peek = lambda o: np.array(o.native, dtype="float64").tolist()
                rd_hdu = lambda h: okmap(call(cls.from_primary_hdu, primary_hdu=h), lambda o: obs_arr2(o, False))
                if inp["kd"] == "kernel": rd_file = lambda p, k: okmap(call(cls.from_fits, file_path=p, hdu=k, pixel_scales=tuple(sc)), obs_arr2)
                else: rd_file = lambda p, k: okmap(call(cls.from_fits, file_path=p, pixel_scales=tuple(sc), hdu=k), obs_arr2)
            elif op == "hist1":
                m = mk_mask1(aa, mask, sc, inp.get("msrc"))
                obj = (subclass(aa, "Array1D") if inp.get("src") == "sub" else aa.Array1D)(values=as_values(inp["vals"], inp.get("src")), mask=m, store_native=sn)
                peek = lambda o: np.array(o.native, dtype="float64").tolist()
                rd_hdu = lambda h: okmap(call(aa.Array1D.from_primary_hdu, primary_hdu=h), lambda o: obs_arr1(o, False))
                rd_file = lambda p, k: okmap(call(aa.Array1D.from_fits, file_path=p, pixel_scales=float(sc), hdu=k), obs_arr1)
            elif op == "histm2":
                obj = mk_mask2(aa, mask, sc, inp.get("msrc"))
                peek = lambda o: np.array(o).astype("float64").tolist()
                rd_hdu = lambda h: okmap(call(aa.Mask2D.from_primary_hdu, primary_hdu=h), obs_m2)
                rd_file = lambda p, k: okmap(call(aa.Mask2D.from_fits, file_path=p, pixel_scales=tuple(sc), hdu=k), obs_m2)
            else:
                obj = mk_mask1(aa, mask, sc, inp.get("msrc"))
                peek = lambda o: np.array(o).astype("float64").tolist()
                rd_hdu = lambda h: okmap(call(aa.Mask1D.from_primary_hdu, primary_hdu=h), obs_m1)
                rd_file = lambda p, k: okmap(call(aa.Mask1D.from_fits, file_path=p, pixel_scales=float(sc), hdu=k), obs_m1)
            other = obj
            for s in steps:
                t = s[0]
                try:
                    if t == "op": obj = apply_op(obj, s[1], float(s[2]) if len(s) > 2 else None)
                    elif t == "bop": obj = apply_bop(obj, other, s[1])
                    elif t == "save": other = obj
                    elif t == "swap": obj, other = other, obj
                    elif t == "native": obj = obj.native
                    elif t == "slim": obj = obj.slim
                    elif t == "copy": obj = obj.copy()
                    elif t == "set1": obj[int(s[1])] = float(s[2])
                    elif t == "set2":
                        if dim2: obj[int(s[1]), int(s[2])] = float(s[3])
                        else: obj[int(s[2])] = float(s[3])
                    elif t == "flip": conf.instance["general"]["fits"]["flip_for_ds9"] = bool(s[1])
                    elif t == "peek": obs.append(["peek", peek(obj)])
                    elif t == "hdu":
                        h = obj.hdu_for_output
                        obs.append(["hdu", raw_of(h), rd_hdu(h)])
                    elif t == "file":
                        path = fpath(root, s[1], s[4])
                        w = call(obj.output_to_fits, file_path=path, overwrite=s[2])
                        fsa = snapshot(root)
                        obs.append(["file", None if w[0] == "ok" else w[1], fsa, rd_file(path, s[3])])
                    else: raise ValueError(t)
                except ValueError: raise
                except Exception as e:   # noqa
                    obs.append(["err", exn_name(e)]); break
        finally:
            st["native_binned_only"] = old_nbo
    csteps = clist([cstep(s) for s in steps])
    if op == "hist2":
        cells = len(mask) * len(mask[0])
        coq = (f"KHist2 {cbool(nbo)} {cbool(flip)} {'KKernel' if inp['kd'] == 'kernel' else 'KArray'} {cbool(sn)} {carr(inp['vals'])} {cbarr(mask)} "
               f"{csc2(sc)} {cfs(inp['fs0'], carr)} {csteps} {clist([cobsv(o, carr, cobs2) for o in obs])}")
    elif op == "hist1":
        cells = len(mask)
        coq = (f"KHist1 {cbool(flip)} {cbool(sn)} {crow(inp['vals'])} {cbrow(mask)} {cq(fr(sc))} {cfs(inp['fs0'], crow)} {csteps} "
               f"{clist([cobsv(o, crow, cobs1) for o in obs])}")
    elif op == "histm2":
        cells = len(mask) * len(mask[0])
        coq = f"KHistM2 {cbool(flip)} {cbarr(mask)} {csc2(sc)} {cfs(inp['fs0'], carr)} {csteps} {clist([cobsv(o, carr, cobsm2) for o in obs])}"
    else:
        cells = len(mask)
        coq = f"KHistM1 {cbool(flip)} {cbrow(mask)} {cq(fr(sc))} {cfs(inp['fs0'], crow)} {csteps} {clist([cobsv(o, crow, cobsm1) for o in obs])}"
    kind = op + (":nbo" if nbo else ":sn" if sn else "") + (":flip" if flip else "") + "".join(f":{k}={inp[k]}" for k in ("src", "msrc") if inp.get(k))
    return {"coq": "(" + coq + ")", "out": obs, "py_ok": None, "nontrivial": cells > 1 and len(obs) > 0, "kind": kind}

# ----------------------------------------------------------------------------- generators
SPECIAL = [2.0 ** -60, -(2.0 ** -60), 5e-324, 2.0 ** 70, -(2.0 ** 70), 1e300, -1e300, 0.1, -0.3, 1e-12, 123456.789]
SCALES = [0.25, 0.5, 1.0, 1.5, 2.0, 3.0, 0.125, 0.1, 0.05]

def content2(h, w, rng=None, special=False):
    """non-symmetric content: every cell distinct, both signs"""
    m = [[float((1 + y * w + x) * (-1 if (y + 2 * x) % 3 == 0 else 1)) + (0.5 if (x + y) % 2 else 0.0) for x in range(w)] for y in range(h)]
    if rng is not None:
        for _ in range(1 + (h * w) // 3):
            y, x = rng.randrange(h), rng.randrange(w)
            m[y][x] = rng.choice(SPECIAL) if special else float(rng.randint(-999, 999)) / rng.choice([1, 2, 4, 8])
    return m
def content1(n, rng=None, special=False): return content2(1, n, rng, special)[0]
def falses(h, w): return [[False] * w for _ in range(h)]
def rand_mask(h, w, rng): return [[rng.random() < 0.4 for _ in range(w)] for _ in range(h)]

def old_hdu(dim, tag, w=2):
    data = [[90.0 + tag, 91.0, -92.0][:w], [93.0, 94.5, 95.0][:w], [96.0, -97.0, 98.0][:w]] if dim == 2 else [90.0 + tag, -91.0, 92.5]
    return {"data": data, "hdr": [["PIXSCALE", 7.0 + tag]]}

def fs_scenarios(dim):
    """(fs0, target path, description): directory absent / partly present / present, target absent / present, bystander files"""
    out = []
    by = [[[19], [old_hdu(dim, 1)]]]                                    # a bystander file in the root
    for depth in (0, 1, 2):
        d = [1, 2][:depth]
        p = d + [10]
        states = [[]] if depth == 0 else ([[], [d]] if depth == 1 else [[], [[1]], [[1], [1, 2]]])
        for dirs in states:
            full = (depth == 0) or (d in dirs)
            out.append(({"dirs": dirs, "files": list(by)}, p))
            if full:
                # target present: once as a single-HDU file, once as a larger two-HDU file; plus a sibling
                out.append(({"dirs": dirs, "files": by + [[p, [old_hdu(dim, 2)]]]}, p))
                out.append(({"dirs": dirs, "files": by + [[p, [old_hdu(dim, 3, 3), old_hdu(dim, 4)]], [d + [11], [old_hdu(dim, 5)]]]}, p))
    # unrelated directories present, target in a fresh branch
    out.append(({"dirs": [[3], [3, 4]], "files": [[[3, 12], [old_hdu(dim, 6)]]]}, [3, 5, 10]))
    return out

def all_masks(h, w):
    for bits in itertools.product([False, True], repeat=h * w):
        yield [list(bits[y * w:(y + 1) * w]) for y in range(h)]

def gen_inputs(tier, rng):
    if os.environ.get("C16_STREAMS") == "p3":      # development aid (mutation screening): the phase-3 streams alone, a SUBSET of the tier
        yield from gen_phase3(tier, rng); return
    big = tier == "thorough"
    E = {"dirs": [], "files": []}
    smax = 6 if big else 4
    # 1. every shape x flip x kind x route, fresh one-directory target
    for h in range(1, smax + 1):
        for w in range(1, smax + 1):
            vals = content2(h, w)
            mask = falses(h, w)
            if h * w > 1: mask[(h * w // 2) // w][(h * w // 2) % w] = True; mask[0][0] = (h + w) % 2 == 0
            for flip in (False, True):
                sc = [[0.5, 0.5], [1.0, 1.0], [0.5, 0.25]][(h + w) % 3]
                for kd in ("array", "kernel"):
                    mk = mask if kd == "array" else falses(h, w)
                    yield {"op": "file2", "flip": flip, "kd": kd, "vals": vals, "mask": mk, "sc": sc, "fs0": E, "p": [1, 10], "abs": (h + w) % 2 == 0, "ow": False, "k": 0}
                    yield {"op": "hdu2", "flip": flip, "kd": kd, "vals": vals, "mask": mk, "sc": sc}
                yield {"op": "filem2", "flip": flip, "mask": mask, "sc": sc, "fs0": E, "p": [10], "abs": False, "ow": False, "k": 0, "rs": None, "inv": (h * w) % 2 == 1}
                yield {"op": "hdum2", "flip": flip, "mask": mask, "sc": sc}
                yield {"op": "util2", "flip": flip, "fs0": E, "arr": vals, "p": [1, 2, 10], "abs": False, "ow": w % 2 == 0, "hd": [["PIXSCALE", 2.0]] if h % 2 else [], "k": 0,
                       "again": [[11], [1, 11], [3, 10]][(h + w) % 3]}
    nmax = 9 if big else 6
    for n in range(1, nmax + 1):
        vals = content1(n); mask = [False] * n
        if n > 1: mask[n // 2] = True
        for flip in (False, True):
            for mk in ([False] * n, mask):
                yield {"op": "file1", "flip": flip, "vals": vals, "mask": mk, "sc": 0.5, "fs0": E, "p": [1, 10], "abs": n % 2 == 0, "ow": False, "k": 0}
                yield {"op": "hdu1", "flip": flip, "vals": vals, "mask": mk, "sc": 0.5}
            yield {"op": "filem1", "flip": flip, "mask": mask, "sc": 2.0, "fs0": E, "p": [10], "abs": False, "ow": False, "k": 0}
            yield {"op": "hdum1", "flip": flip, "mask": mask, "sc": 2.0}
            yield {"op": "util1", "flip": flip, "fs0": E, "arr": vals, "p": [1, 10], "abs": True, "ow": False, "hd": [["PIXSCALE", 0.25]], "k": 0, "again": [2, 11]}
    # 2. all boolean masks of the small shapes
    lim = 9 if big else 6
    i = 0
    for h in range(1, lim + 1):
        for w in range(1, lim + 1):
            if h * w > lim: continue
            vals = content2(h, w)
            for mask in all_masks(h, w):
                i += 1; flip = i % 2 == 0
                yield {"op": "hdum2", "flip": flip, "mask": mask, "sc": [1.0, 1.0]}
                yield {"op": "hdu2", "flip": not flip, "kd": "array", "vals": vals, "mask": mask, "sc": [2.0, 2.0]}
                if i % 3 == 0:
                    yield {"op": "filem2", "flip": flip, "mask": mask, "sc": [0.5, 0.5], "fs0": E, "p": [10], "abs": False, "ow": False, "k": 0,
                           "rs": ([h, w] if i % 4 == 0 else None), "inv": i % 5 < 2}
                    yield {"op": "file2", "flip": flip, "kd": "array", "vals": vals, "mask": mask, "sc": [1.5, 1.5], "fs0": E, "p": [10], "abs": False, "ow": False, "k": 0}
    for n in range(1, lim + 1):
        for bits in itertools.product([False, True], repeat=n):
            i += 1
            yield {"op": "hdum1", "flip": i % 2 == 0, "mask": list(bits), "sc": 0.25}
            yield {"op": "filem1", "flip": i % 2 == 1, "mask": list(bits), "sc": 0.25, "fs0": E, "p": [1, 10], "abs": False, "ow": False, "k": 0}
            yield {"op": "hdu1", "flip": i % 3 == 0, "vals": content1(n), "mask": list(bits), "sc": 1.0}
            yield {"op": "file1", "flip": i % 2 == 0, "vals": content1(n), "mask": list(bits), "sc": 1.0, "fs0": E, "p": [10], "abs": False, "ow": False, "k": 0}
    # 3. file-system scenarios x overwrite x flip x relative/absolute, 2-D and 1-D, classes and util
    vals = content2(2, 3); mask = [[False, True, False], [False, False, False]]
    for fs0, p in fs_scenarios(2):
        for ow in (False, True):
            for flip in (False, True):
                for ab in (False, True):
                    yield {"op": "file2", "flip": flip, "kd": "array", "vals": vals, "mask": mask, "sc": [0.5, 0.5], "fs0": fs0, "p": p, "abs": ab, "ow": ow, "k": 0}
                    yield {"op": "util2", "flip": flip, "fs0": fs0, "arr": vals, "p": p, "abs": ab, "ow": ow, "hd": [["PIXSCALE", 1.5]], "k": 0}
                yield {"op": "filem2", "flip": flip, "mask": mask, "sc": [2.0, 2.0], "fs0": fs0, "p": p, "abs": ow, "ow": ow, "k": 0, "rs": None, "inv": False}
                yield {"op": "file2", "flip": flip, "kd": "kernel", "vals": content2(3, 3), "mask": falses(3, 3), "sc": [1.0, 1.0], "fs0": fs0, "p": p, "abs": not ow, "ow": ow, "k": 0}
    for fs0, p in fs_scenarios(1):
        for ow in (False, True):
            for ab in (False, True):
                yield {"op": "file1", "flip": ab != ow, "vals": content1(4), "mask": [False, False, True, False], "sc": 0.5, "fs0": fs0, "p": p, "abs": ab, "ow": ow, "k": 0}
                yield {"op": "filem1", "flip": ab, "mask": [True, False, False], "sc": 0.5, "fs0": fs0, "p": p, "abs": ab, "ow": ow, "k": 0}
                yield {"op": "util1", "flip": ow, "fs0": fs0, "arr": content1(5), "p": p, "abs": ab, "ow": ow, "hd": [], "k": 0}
    # 4. hdu indices: on freshly written (1-HDU) files, on refused writes over 2-HDU files, on assembled multi-HDU files
    two = {"dirs": [], "files": [[[10], [old_hdu(2, 3, 3), old_hdu(2, 4)]]]}
    two1 = {"dirs": [], "files": [[[10], [old_hdu(1, 3), old_hdu(1, 4)]]]}
    for k in range(-3, 3):
        for flip in (False, True):
            yield {"op": "file2", "flip": flip, "kd": "array", "vals": vals, "mask": mask, "sc": [1.0, 1.0], "fs0": E, "p": [10], "abs": False, "ow": False, "k": k}
            yield {"op": "file2", "flip": flip, "kd": "kernel", "vals": vals, "mask": falses(2, 3), "sc": [1.0, 1.0], "fs0": two, "p": [10], "abs": False, "ow": False, "k": k}
            yield {"op": "file2", "flip": flip, "kd": "array", "vals": vals, "mask": mask, "sc": [1.0, 1.0], "fs0": two, "p": [10], "abs": False, "ow": True, "k": k}
            yield {"op": "filem2", "flip": flip, "mask": mask, "sc": [1.0, 1.0], "fs0": two, "p": [10], "abs": False, "ow": k % 2 == 0, "k": k, "rs": None, "inv": False}
            yield {"op": "util2", "flip": flip, "fs0": two, "arr": vals, "p": [10], "abs": False, "ow": k % 2 == 1, "hd": [], "k": k}
            yield {"op": "file1", "flip": flip, "vals": content1(3), "mask": [False] * 3, "sc": 1.0, "fs0": two1, "p": [10], "abs": False, "ow": k % 2 == 0, "k": k}
            yield {"op": "filem1", "flip": flip, "mask": [True, False], "sc": 1.0, "fs0": two1, "p": [10], "abs": False, "ow": k % 2 == 1, "k": k}
            yield {"op": "util1", "flip": flip, "fs0": two1, "arr": content1(3), "p": [10], "abs": False, "ow": flip, "hd": [], "k": k}
            objs = [[content2(2, 3), mask, [1.0, 1.0]], [content2(3, 1), falses(3, 1), [0.5, 0.5]], [content2(1, 4), [[True, False, False, True]], [2.0, 2.0]]]
            objs1 = [[content1(4), [False, True, False, False], 0.5], [content1(2), [False, False], 2.0], [content1(3), [True, False, True], 0.25]]
            for n in (1, 2, 3):
                if -n - 1 <= k <= n:
                    yield {"op": "multi2", "flip": flip, "objs": objs[:n], "k": k}
                    yield {"op": "multi1", "flip": flip, "objs": objs1[:n], "k": k}
    # 5. anisotropic pixel scales (PIXSCALEY / PIXSCALEX cards)
    for flip in (False, True):
        for sc in ([1.0, 2.0], [0.5, 0.25]):
            yield {"op": "hdu2", "flip": flip, "kd": "array", "vals": vals, "mask": mask, "sc": sc}
            yield {"op": "hdu2", "flip": flip, "kd": "kernel", "vals": vals, "mask": falses(2, 3), "sc": sc}
            yield {"op": "hdum2", "flip": flip, "mask": mask, "sc": sc}
            yield {"op": "file2", "flip": flip, "kd": "array", "vals": vals, "mask": mask, "sc": sc, "fs0": E, "p": [10], "abs": False, "ow": False, "k": 0}
            yield {"op": "filem2", "flip": flip, "mask": mask, "sc": sc, "fs0": E, "p": [10], "abs": False, "ow": False, "k": 0, "rs": None, "inv": False}
    # 6. Imaging
    psfs = [[[1.0, 2.0, 1.0], [0.0, 0.0, 0.0], [0.0, 3.0, 1.0]], [[0.5, 0.25, 0.25]], [[4.0], [-1.0], [1.0]], [[1.0]]]
    for j in range(60 if big else 24):
        h, w = rng.randint(1, 5), rng.randint(1, 5)
        mask = rand_mask(h, w, rng) if j % 2 else falses(h, w)
        if all(all(r) for r in mask): mask[0][0] = False
        noise = [[float(rng.choice([0.5, 1.0, 2.0, 4.0, 0.25])) for _ in range(w)] for _ in range(h)]
        old_psf = {"data": [[0.5, 0.25, 0.25]], "hdr": [["PIXSCALE", 8.0]]}        # sums to one: its renormalisation is exact
        fs0 = E if j % 3 else {"dirs": [[1]], "files": [[[1, 11], [old_psf]], [[12], [old_hdu(2, 2)]]]}   # psf / noise-map targets exist
        yield {"op": "imaging", "flip": j % 4 < 2, "mask": mask, "data": content2(h, w, rng), "noise": noise, "psf": psfs[j % 4], "sc": [0.5, 0.25] if j % 5 == 0 else [0.5, 0.5],
               "fs0": fs0, "pd": [1, 10], "pp": [1, 11] if j % 3 == 0 else [2, 11], "pn": [12], "abs": j % 2 == 0, "ow": j % 6 == 0, "chk": j % 2 == 0}
    # 7. random larger cases with special magnitudes
    scen2 = fs_scenarios(2); scen1 = fs_scenarios(1)
    for j in range(3000 if big else 260):
        h, w = rng.randint(1, 9), rng.randint(1, 9)
        flip = rng.random() < 0.5
        sp = rng.random() < 0.4
        vals = content2(h, w, rng, sp); mask = rand_mask(h, w, rng) if rng.random() < 0.6 else falses(h, w)
        s = rng.choice(SCALES); sc = [s, s] if rng.random() < 0.7 else [s, rng.choice(SCALES)]
        fs0, p = rng.choice(scen2); ow = rng.random() < 0.5; ab = rng.random() < 0.5
        t = j % 8
        if t == 0: yield {"op": "file2", "flip": flip, "kd": "array", "vals": vals, "mask": mask, "sc": sc, "fs0": fs0, "p": p, "abs": ab, "ow": ow, "k": rng.choice([0, 0, -1])}
        elif t == 1: yield {"op": "hdu2", "flip": flip, "kd": rng.choice(["array", "kernel"]), "vals": vals, "mask": falses(h, w), "sc": sc}
        elif t == 2: yield {"op": "hdu2", "flip": flip, "kd": "array", "vals": vals, "mask": mask, "sc": sc}
        elif t == 3:
            rs = rng.choice([None, None, [h, w], [rng.randint(1, 9), rng.randint(1, 9)]])
            yield {"op": "filem2", "flip": flip, "mask": mask, "sc": sc, "fs0": fs0, "p": p, "abs": ab, "ow": ow, "k": 0, "rs": rs, "inv": rng.random() < 0.5}
        elif t == 4: yield {"op": "util2", "flip": flip, "fs0": fs0, "arr": vals, "p": p, "abs": ab, "ow": ow, "hd": [["PIXSCALE", s]], "k": rng.choice([0, -1])}
        elif t == 5:
            fs1, p1 = rng.choice(scen1)
            yield {"op": "file1", "flip": flip, "vals": vals[0], "mask": mask[0], "sc": s, "fs0": fs1, "p": p1, "abs": ab, "ow": ow, "k": 0}
        elif t == 6: yield {"op": "hdu1", "flip": flip, "vals": vals[0], "mask": mask[0], "sc": s}
        else: yield {"op": "file2", "flip": flip, "kd": "kernel", "vals": vals, "mask": falses(h, w), "sc": sc, "fs0": fs0, "p": p, "abs": ab, "ow": ow, "k": 0}
    # 8. histories of one object (derived arrays, re-used objects, in-place edits): see gen_hist
    yield from gen_hist(tier, rng)
    # 9.-13. phase 3: input kinds, sessions, sibling classes, Imaging hdu arguments, scale extremes
    yield from gen_phase3(tier, rng)

# ----------------------------------------------------------------------------- generators of histories
EPS = 2.0 ** -30
_F = Fraction
def _sem(name, c):
    """(float function, exact function) of a scalar operator"""
    c_ = None if c is None else _F(float(c))
    return {"add": (lambda v: v + c, lambda q: q + c_), "radd": (lambda v: c + v, lambda q: c_ + q),
            "sub": (lambda v: v - c, lambda q: q - c_), "rsub": (lambda v: c - v, lambda q: c_ - q),
            "mul": (lambda v: v * c, lambda q: q * c_), "rmul": (lambda v: c * v, lambda q: c_ * q),
            "div": (lambda v: v / c, lambda q: q / c_), "rdiv": (lambda v: c / v, lambda q: c_ / q),
            "neg": (lambda v: -v, lambda q: -q), "abs": (lambda v: abs(v), lambda q: abs(q))}[name]
_BSEM = {"add": (lambda a, b: a + b), "sub": (lambda a, b: a - b), "rsub": (lambda a, b: b - a), "mul": (lambda a, b: a * b)}
def _exact1(ff, fq, v):
    try: r = ff(v)
    except ZeroDivisionError: return None
    if r != r or r in (float("inf"), float("-inf")): return None
    try: return r if _F(r) == fq(_F(v)) else None
    except ZeroDivisionError: return None

JUNK = "junk"
def hist_ok(inp):
    """Generator-side filter: a history is used only if (i) every step fits the way the object is stored at that point and
    (ii) every floating-point operation it causes is exact and finite on every value that can sit at an UNMASKED position of a
    buffer (abstract interpretation on the SETS of values at unmasked / masked positions).  At masked positions of a natively
    stored buffer anything may happen (1.0 / 0.0 = inf, inf - inf = NaN, rounding): these values must never be shown."""
    op = inp["op"]; mask = inp["mask"]; nbo = bool(inp.get("nbo")); sn = bool(inp.get("sn"))
    if op in ("histm2", "histm1"):
        return all(s[0] in ("save", "swap", "copy", "flip", "peek", "hdu", "file", "set2" if op == "histm2" else "set1") for s in inp["steps"])
    flat_m = [b for r in mask for b in r] if op == "hist2" else list(mask)
    flat_v = [v for r in inp["vals"] for v in r] if op == "hist2" else list(inp["vals"])
    n_un = flat_m.count(False)
    native0 = sn or (nbo and op == "hist2")
    cur = {"u": {float(v) for v, b in zip(flat_v, flat_m) if not b}, "m": ({0.0} if native0 and n_un < len(flat_m) else (set() if native0 else None)), "st": "native" if native0 else "slim"}
    reg = cur
    for s in inp["steps"]:
        t = s[0]
        if t == "op":
            ff, fq = _sem(s[1], float(s[2]) if len(s) > 2 else None)
            new = {"st": cur["st"], "u": set(), "m": None if cur["m"] is None else set()}
            for key in ("u", "m"):
                if cur[key] is None: continue
                for v in cur[key]:
                    r = JUNK if v == JUNK else _exact1(ff, fq, v)
                    if r is None:
                        if key == "u": return False
                        r = JUNK          # a masked pixel of the raw buffer: never shown (inf, NaN, a rounded value ... are all junk)
                    new[key].add(r)
            cur = new
        elif t == "bop":
            if cur["st"] != reg["st"]: return False
            f = _BSEM[s[1]]
            new = {"st": cur["st"], "u": set(), "m": None if cur["m"] is None else set()}
            for key in ("u", "m"):
                if cur[key] is None: continue
                for a in cur[key]:
                    for b in reg[key]:
                        if a == JUNK or b == JUNK: new[key].add(JUNK); continue
                        r = f(a, b)
                        if r != r or abs(r) == float("inf") or _F(r) != f(_F(a), _F(b)):
                            if key == "u": return False
                            r = JUNK
                        new[key].add(r)
            cur = new
        elif t == "save": reg = cur
        elif t == "swap": cur, reg = reg, cur
        elif t == "copy": cur = {"st": cur["st"], "u": set(cur["u"]), "m": None if cur["m"] is None else set(cur["m"])}
        elif t == "native": cur = {"st": "native", "u": set(cur["u"]), "m": ({0.0} if n_un < len(flat_m) else set())}
        elif t == "slim":
            if nbo and op == "hist2": cur = {"st": "native", "u": set(cur["u"]), "m": ({0.0} if n_un < len(flat_m) else set())}
            else: cur = {"st": "slim", "u": set(cur["u"]), "m": None}
        elif t == "set1":
            if cur["st"] != "slim" and not (op == "hist1" and n_un == len(flat_m)): return False
            if not (0 <= s[1] < n_un): return False
            cur["u"].add(float(s[2]))
        elif t == "set2":
            if cur["st"] != "native" and not (op == "hist1" and n_un == len(flat_m)): return False
            if op == "hist2":
                if not (0 <= s[1] < len(mask) and 0 <= s[2] < len(mask[0])): return False
                masked = mask[s[1]][s[2]]
            else:
                if s[1] != 0 or not (0 <= s[2] < len(mask)): return False
                masked = mask[s[2]]
            (cur["m"] if masked and cur["m"] is not None else cur["u"]).add(float(s[3]))
        elif t in ("flip", "peek", "hdu", "file"): pass
        else: return False
    return True

HSHAPES = [(2, 3, [[False, True, False], [True, False, False]]),
           (3, 2, [[False, False], [True, False], [False, True]]),
           (1, 4, [[True, False, False, True]]),
           (4, 1, [[False], [True], [False], [False]]),
           (3, 3, [[True, False, False], [False, True, False], [False, False, False]]),
           (2, 2, [[False, False], [False, False]])]
POW2 = [1.0, -2.0, 4.0, 0.5, 8.0, -0.25, 16.0, -1.0, 2.0]
def content_zero_ties(h, w):
    """exact zeros, equal values (ties) and both signs among the cells"""
    base = [0.0, 3.0, -3.0, 3.0, 0.0, 7.5, -0.5, 7.5, 2.0]
    return [[base[(y * w + x) % 9] for x in range(w)] for y in range(h)]
def content_pow2(h, w): return [[POW2[(y * w + x) % 9] for x in range(w)] for y in range(h)]

# derivations: python expressions producing a DERIVED array from the constructed one
DERIV = [
    [["op", "add", 5.0]],                                                   # arr + 5.0
    [["op", "rsub", 100.0]],                                                # 100.0 - arr
    [["op", "mul", 0.5], ["bop", "rsub"], ["op", "add", EPS]],              # arr - arr * 0.5 + eps
    [["op", "radd", EPS]],                                                  # eps + arr
    [["op", "neg"], ["op", "sub", 1.0]],                                    # -arr - 1.0
    [["op", "abs"], ["op", "rmul", -3.0]],                                  # -3.0 * abs(arr)
    [["op", "div", 4.0], ["op", "add", 0.25]],                              # arr / 4.0 + 0.25
    [["op", "add", 2.0], ["native"]],                                       # (arr + 2.0).native
    [["op", "add", 2.0], ["slim"]],                                         # (arr + 2.0).slim
    [["native"], ["op", "add", 7.0]],                                       # arr.native + 7.0
    [["native"], ["op", "rsub", 1.0], ["slim"], ["op", "add", 1.0]],        # (1.0 - arr.native).slim + 1.0
    [["op", "add", 1.0], ["bop", "mul"]],                                   # (arr + 1.0) * arr
    [["copy"], ["op", "sub", 0.5]],                                         # arr.copy() - 0.5
    [["op", "add", 1.0], ["op", "mul", 2.0 ** 990]],                        # huge values, also in the masked pixels of the buffer
    [["op", "mul", 0.0], ["op", "add", 5e-324]],                            # the smallest double everywhere
    [["op", "rdiv", 1.0], ["op", "mul", 3.0]],                              # 3.0 * (1.0 / arr)   (powers of two; inf at the masked pixels of a native buffer)
    [["op", "rdiv", 2.0], ["save"], ["op", "mul", 1.0], ["bop", "sub"], ["op", "add", 1.0]],   # w = 2.0 / arr; w * 1.0 - w + 1.0   (inf - inf = NaN at masked pixels)
]
# re-use of ONE object: the same object observed twice, edited in place between two observations, aliased, copied
def reuse_templates(native):
    setv = (lambda k, v: ["set2", k[0], k[1], v]) if native else (lambda k, v: ["set1", k[2], v])
    # k = (y, x, slim index) of an unmasked pixel; km = a masked pixel (native form only)
    def T(k, km):
        out = [
            [["hdu"], ["hdu"], ["peek"]],
            [["file", [10], False, 0, False], ["file", [1, 11], False, 0, True], ["hdu"]],
            [["file", [10], False, 0, False], ["op", "add", 1.0], ["file", [10], True, 0, False], ["file", [10], False, -1, False]],
            [["hdu"], setv(k, -77.5), ["hdu"], ["file", [2, 10], False, 0, False]],
            [["peek"], setv(k, 0.0), ["peek"], ["hdu"]],
            [["file", [10], False, 0, True], setv(k, 41.0), ["file", [10], True, 0, True]],
            [["hdu"], ["flip", None], ["hdu"], ["file", [10], False, 0, False], ["flip", None], ["file", [11], False, 0, False]],
            [["copy"], setv(k, 9.0), ["hdu"], ["swap"], ["hdu"]],                       # the copy is independent of the original
            [["save"], setv(k, 6.5), ["swap"], ["hdu"], ["peek"]],                      # an alias is not
            [["op", "add", 1.0], ["save"], ["op", "mul", 2.0], ["hdu"], ["swap"], ["hdu"], ["swap"], ["file", [10], False, 0, False]],
            [["native"], ["hdu"], ["slim"], ["hdu"], ["native"], ["file", [1, 10], False, 0, False]],
        ]
        if native and km is not None:
            out.append([["set2", km[0], km[1], 123.0], ["hdu"], ["file", [10], False, 0, False], ["peek"]])   # the user writes INTO a masked pixel
            out.append([["hdu"], ["set2", km[0], km[1], -1.0], ["op", "add", 1.0], ["hdu"]])
        return out
    return T

def pick_pixels(mask, rng=None):
    """an unmasked pixel (y, x, slim index) and a masked pixel (or None)"""
    un = []; ms = []; k = 0
    for y, r in enumerate(mask):
        for x, b in enumerate(r):
            if b: ms.append((y, x))
            else: un.append((y, x, k)); k += 1
    u = un[len(un) // 2] if rng is None else rng.choice(un)
    m = (ms[len(ms) // 2] if rng is None else rng.choice(ms)) if ms else None
    return u, m

def fix_flips(steps, flip):
    """["flip", None] toggles the flag"""
    out = []; f = flip
    for s in steps:
        if s[0] == "flip" and s[1] is None: f = not f; out.append(["flip", f])
        else:
            if s[0] == "flip": f = s[1]
            out.append(list(s))
    return out

ROUTES = [["peek"], ["hdu"], ["file", [1, 10], False, 0, False]]
STORE = [(False, False), (True, False), (False, True)]          # (store_native, native_binned_only)

def gen_hist(tier, rng):
    big = tier == "thorough"
    E = {"dirs": [], "files": []}
    i = 0
    # H1. every derivation x storage x class, then every write route on the derived object
    for di, d in enumerate(DERIV):
        for si, (sn, nbo) in enumerate(STORE):
            for kd in ("array", "kernel"):
                for flip in (False, True):
                    i += 1
                    shapes = HSHAPES if big else [HSHAPES[(i + j) % 5] for j in range(1)]
                    for (h, w, mask) in shapes:
                        rd = any(s[0] == "op" and s[1] == "rdiv" for s in d)
                        vals = content_pow2(h, w) if rd else (content_zero_ties(h, w) if (i % 3 == 0) else content2(h, w))
                        steps = [list(s) for s in d] + [list(r) for r in ROUTES]
                        steps[-1][4] = (i % 2 == 0)
                        inp = {"op": "hist2", "flip": flip, "nbo": nbo, "sn": sn, "kd": kd, "vals": vals, "mask": mask,
                               "sc": [[0.5, 0.5], [1.0, 1.0], [0.5, 0.25]][i % 3], "fs0": E, "steps": steps}
                        if hist_ok(inp): yield inp
    for di, d in enumerate(DERIV):
        for sn in (False, True):
            for flip in (False, True):
                i += 1
                n = 3 + i % 4
                mask = [(j % 3 == 1) for j in range(n)] if i % 5 else [False] * n
                rd = any(s[0] == "op" and s[1] == "rdiv" for s in d)
                vals = content_pow2(1, n)[0] if rd else (content_zero_ties(1, n)[0] if i % 3 == 0 else content1(n))
                steps = [list(s) for s in d] + [list(r) for r in ROUTES]
                inp = {"op": "hist1", "flip": flip, "sn": sn, "vals": vals, "mask": mask, "sc": [0.5, 2.0, 0.25][i % 3], "fs0": E, "steps": steps}
                if hist_ok(inp): yield inp
    # H2. re-use of one object
    for si, (sn, nbo) in enumerate(STORE):
        native = sn or nbo
        for (h, w, mask) in (HSHAPES if big else HSHAPES[:3]):
            u, m = pick_pixels(mask)
            for ti, tpl in enumerate(reuse_templates(native)(u, m)):
                for flip in ((False, True) if big else ((ti + si + h) % 2 == 0,)):
                    i += 1
                    inp = {"op": "hist2", "flip": flip, "nbo": nbo, "sn": sn, "kd": "kernel" if i % 4 == 0 else "array", "vals": content2(h, w), "mask": mask,
                           "sc": [1.0, 1.0] if i % 3 else [2.0, 0.5], "fs0": E, "steps": fix_flips(tpl, flip)}
                    if hist_ok(inp): yield inp
    for sn in (False, True):
        for n, mask in ((4, [False, True, False, False]), (3, [False, False, False]), (5, [True, False, True, False, False])):
            un = [j for j, b in enumerate(mask) if not b]
            u = (0, un[len(un) // 2], len(un) // 2); m = (0, mask.index(True)) if True in mask else None
            for ti, tpl in enumerate(reuse_templates(sn)(u, m)):
                i += 1
                flip = i % 2 == 0
                inp = {"op": "hist1", "flip": flip, "sn": sn, "vals": content1(n), "mask": mask, "sc": 0.5, "fs0": E, "steps": fix_flips(tpl, flip)}
                if hist_ok(inp): yield inp
    # H3. masks: written, edited in place, written again; copies and aliases
    for (h, w, mask) in HSHAPES:
        for flip in (False, True):
            u, m = pick_pixels(mask)
            y2, x2 = (m if m else (0, 0))
            tpls = [
                [["hdu"], ["set2", u[0], u[1], 1.0], ["hdu"], ["peek"]],
                [["file", [10], False, 0, False], ["set2", y2, x2, 0.0], ["file", [10], True, 0, False], ["file", [1, 11], False, -1, True]],
                [["file", [10], False, 0, False], ["set2", u[0], u[1], 1.0], ["file", [10], False, 0, False], ["hdu"]],
                [["copy"], ["set2", u[0], u[1], 1.0], ["hdu"], ["swap"], ["hdu"]],
                [["save"], ["set2", u[0], u[1], 1.0], ["swap"], ["hdu"], ["file", [2, 10], False, 0, False]],
                [["hdu"], ["flip", None], ["hdu"], ["set2", h - 1, w - 1, 1.0], ["flip", None], ["hdu"], ["file", [10], False, 0, False]],
            ]
            for tpl in tpls:
                i += 1
                yield {"op": "histm2", "flip": flip, "mask": mask, "sc": [0.5, 0.5] if i % 3 else [1.0, 2.0], "fs0": E, "steps": fix_flips(tpl, flip)}
    for n, mask in ((4, [False, True, False, False]), (1, [False]), (5, [True, False, True, False, False])):
        for flip in (False, True):
            tpls = [
                [["hdu"], ["set1", n - 1, 1.0], ["hdu"], ["peek"]],
                [["file", [10], False, 0, False], ["set1", 0, 1.0], ["file", [10], True, 0, False], ["set1", 0, 0.0], ["file", [1, 11], False, -1, True]],
                [["copy"], ["set1", 0, 1.0], ["hdu"], ["swap"], ["hdu"]],
                [["save"], ["set1", n // 2, 1.0], ["swap"], ["hdu"], ["file", [2, 10], False, 0, False]],
            ]
            for tpl in tpls:
                yield {"op": "histm1", "flip": flip, "mask": mask, "sc": 0.25, "fs0": E, "steps": fix_flips(tpl, flip)}
    # H4. random histories
    scen2 = fs_scenarios(2); scen1 = fs_scenarios(1)
    consts = [5.0, 100.0, 0.5, 2.0, -3.0, EPS, 1.0, 0.25, -0.5, 4.0, 1024.0]
    want = 1500 if big else 130
    made = 0; tries = 0
    while made < want and tries < want * 30:
        tries += 1
        one_d = tries % 4 == 0
        if one_d:
            n = rng.randint(1, 7); mask = [rng.random() < 0.35 for _ in range(n)]
            if all(mask): mask[rng.randrange(n)] = False
            sn = rng.random() < 0.5; nbo = False
            vals = rng.choice([content1(n, rng), content_zero_ties(1, n)[0], content_pow2(1, n)[0]])
            msk2 = [mask]
        else:
            h, w = rng.randint(1, 5), rng.randint(1, 5)
            mask = rand_mask(h, w, rng) if rng.random() < 0.8 else falses(h, w)
            if all(all(r) for r in mask): mask[rng.randrange(h)][rng.randrange(w)] = False
            sn, nbo = rng.choice(STORE)
            vals = rng.choice([content2(h, w, rng), content_zero_ties(h, w), content_pow2(h, w)])
            msk2 = mask
        flip = rng.random() < 0.5
        native = sn or nbo
        steps = []; files = 0; nobs = 0
        for _ in range(rng.randint(3, 9)):
            r = rng.random()
            u, m = pick_pixels(msk2, rng)
            if r < 0.30:
                name = rng.choice(["add", "radd", "sub", "rsub", "mul", "rmul", "div", "neg", "abs", "rdiv"])
                c = rng.choice([0.5, 2.0, 4.0, 0.25] if name == "div" else consts)
                steps.append(["op", name] + ([] if name in ("neg", "abs") else [c]))
            elif r < 0.38: steps.append(["bop", rng.choice(["add", "sub", "rsub", "mul"])])
            elif r < 0.44: steps.append(["save"])
            elif r < 0.48: steps.append(["swap"])
            elif r < 0.54: steps.append(["native"]); native = True
            elif r < 0.60: steps.append(["slim"]); native = nbo
            elif r < 0.64: steps.append(["copy"])
            elif r < 0.74:
                v = rng.choice([0.0, -7.5, 12.0, 1e-12 * 0 + 2.0 ** -20, 300.0])
                if native:
                    px = m if (m is not None and rng.random() < 0.4) else u
                    steps.append(["set2", px[0], px[1], v])
                else: steps.append(["set1", u[2], v])
            elif r < 0.78: steps.append(["flip", None])
            elif r < 0.84: steps.append(["peek"]); nobs += 1
            elif r < 0.93: steps.append(["hdu"]); nobs += 1
            elif files < 2:
                steps.append(["file", rng.choice([[10], [1, 10], [1, 2, 10], [11]]), rng.random() < 0.5, rng.choice([0, 0, 0, -1, 1]), rng.random() < 0.5]); files += 1; nobs += 1
        if nobs == 0: steps.append(["hdu"])
        steps = fix_flips(steps, flip)
        fs0 = E if rng.random() < 0.6 else rng.choice(scen1 if one_d else scen2)[0]
        if one_d: inp = {"op": "hist1", "flip": flip, "sn": sn, "vals": vals, "mask": mask, "sc": rng.choice(SCALES), "fs0": fs0, "steps": steps}
        else:
            s = rng.choice(SCALES)
            inp = {"op": "hist2", "flip": flip, "nbo": nbo, "sn": sn, "kd": rng.choice(["array", "kernel"]), "vals": vals, "mask": mask,
                   "sc": [s, s] if rng.random() < 0.7 else [s, rng.choice(SCALES)], "fs0": fs0, "steps": steps}
        if hist_ok(inp): made += 1; yield inp


# ----------------------------------------------------------------------------- phase 3 generators
def content_int(h, w): return [[float((3 + y * w + x) * (-1 if (y + x) % 3 == 1 else 1)) for x in range(w)] for y in range(h)]
def const2(h, w, c): return [[c] * w for _ in range(h)]
KSHAPES = [(2, 3, [[False, True, False], [True, False, False]]), (3, 2, [[False, False], [True, False], [False, True]]),
           (1, 4, [[True, False, False, True]]), (4, 1, [[False], [True], [False], [False]]),
           (3, 3, [[True, False, False], [False, True, False], [False, False, False]])]
SRC_A2 = [None, "list", "int", "f32", "fortran", "view", "slim", "slimlist", "self", "sub", "apply_mask", "reread_hdu", "reread_file", "full", "ones", "zeros"]
SRC_K2 = ["list", "int", "f32", "fortran", "view", "sub", "reread_hdu", "full", "ones"]
MSRC = ["list", "int", "float", "fortran", "invert", "self", "sub", "reread", "all_false"]
SRC_A1 = [None, "list", "int", "f32", "view", "slim", "self", "sub", "reread_hdu", "full", "ones", "zeros"]
MSRC1 = ["list", "int", "float", "invert", "sub", "reread", "all_false"]
FOREIGN = ["int16", "int64", "float32", "uint8", "int32", ">f8"]

def kind_case2(src, kd, h, w, mask, j):
    """logical (vals, mask) of a 2-D object built the `src` way"""
    if src in ("full",): vals, mask = const2(h, w, [2.5, -7.0, 2.0 ** -40][j % 3]), falses(h, w)
    elif src == "ones": vals, mask = const2(h, w, 1.0), falses(h, w)
    elif src == "zeros": vals, mask = const2(h, w, 0.0), falses(h, w)
    elif src == "int": vals = content_int(h, w)
    else: vals = content2(h, w)
    extra = {}
    if kd == "kernel": mask = falses(h, w)
    if src in ("reread_hdu", "reread_file"):
        if kd != "kernel": extra["mask0"] = mask; vals = zero_filled2(vals, mask)
        mask = falses(h, w)
    return vals, mask, extra

def gen_phase3(tier, rng):
    big = tier == "thorough"
    E = {"dirs": [], "files": []}
    j = 0
    # 9a. every way of building the object x class x route x flip (shape rotates; thorough: every shape)
    for kd, srcs in (("array", SRC_A2), ("kernel", SRC_K2)):
        for src in srcs:
            for flip in (False, True):
                for route in ("file2", "hdu2"):
                    j += 1
                    for (h, w, mask) in (KSHAPES if big else [KSHAPES[j % 5]]):
                        vals, mk, extra = kind_case2(src, kd, h, w, mask, j)
                        sc = [[0.5, 0.5], [1.0, 2.0], [0.25, 0.25]][j % 3]
                        inp = {"op": route, "flip": flip, "kd": kd, "vals": vals, "mask": mk, "sc": sc, "twice": True, **extra}
                        if src: inp["src"] = src
                        if route == "file2": inp.update({"fs0": E, "p": [[10], [1, 10]][j % 2], "abs": j % 4 < 2, "ow": False, "k": [0, -1][j % 2]})
                        yield inp
    # 9b. the mask of an array / a Mask2D built every way
    for msrc in MSRC:
        for flip in (False, True):
            j += 1
            for (h, w, mask) in (KSHAPES if big else [KSHAPES[j % 5], KSHAPES[(j + 2) % 5]]):
                mk = falses(h, w) if msrc == "all_false" else mask
                sc = [[0.5, 0.5], [2.0, 1.0]][j % 2]
                yield {"op": "hdu2", "flip": flip, "kd": "array", "vals": content2(h, w), "mask": mk, "sc": sc, "msrc": msrc, "twice": True}
                yield {"op": "file2", "flip": flip, "kd": "array", "vals": content2(h, w), "mask": mk, "sc": sc, "msrc": msrc, "src": ["slim", "list", None][j % 3],
                       "fs0": E, "p": [10], "abs": False, "ow": False, "k": 0}
                yield {"op": "hdum2", "flip": flip, "mask": mk, "sc": sc, "msrc": msrc, "twice": True}
                yield {"op": "filem2", "flip": flip, "mask": mk, "sc": sc, "msrc": msrc, "fs0": E, "p": [1, 10], "abs": j % 2 == 0, "ow": False, "k": 0, "rs": None, "inv": j % 3 == 0,
                       "twice": True}
    # 9c. 1-D
    for src in SRC_A1:
        for flip in (False, True):
            j += 1
            n = 3 + j % 4
            mask = [(i % 3 == 1) for i in range(n)]
            vals = content_int(1, n)[0] if src == "int" else content1(n)
            extra = {}
            if src in ("full", "ones", "zeros"): vals, mask = [{"full": -2.5, "ones": 1.0, "zeros": 0.0}[src]] * n, [False] * n
            if src == "reread_hdu": extra["mask0"] = mask; vals = zero_filled1(vals, mask); mask = [False] * n
            base = {"flip": flip, "vals": vals, "mask": mask, "sc": [0.5, 2.0, 0.25][j % 3], "twice": True, **extra}
            if src: base["src"] = src
            yield {"op": "hdu1", **base}
            yield {"op": "file1", **base, "fs0": E, "p": [[10], [1, 10]][j % 2], "abs": j % 2 == 0, "ow": False, "k": 0}
    for msrc in MSRC1:
        for flip in (False, True):
            j += 1
            n = 2 + j % 4
            mask = [False] * n if msrc == "all_false" else [(i % 3 == 1) for i in range(n)]
            yield {"op": "hdum1", "flip": flip, "mask": mask, "sc": 0.5, "msrc": msrc, "twice": True}
            yield {"op": "filem1", "flip": flip, "mask": mask, "sc": 0.25, "msrc": msrc, "fs0": E, "p": [10], "abs": False, "ow": False, "k": 0, "twice": True}
            yield {"op": "hdu1", "flip": flip, "vals": content1(n), "mask": mask, "sc": 2.0, "msrc": msrc, "src": ["slim", None][j % 2]}
    # 9d. pixel scales handed over as float / list / numpy scalars / 1-tuple; paths as pathlib.Path / "./name" on every file-system scenario
    vals = content2(2, 3); mask = [[False, True, False], [False, False, False]]
    for sk in ("float", "list", "np"):
        for flip in (False, True):
            for sc in ([[0.5, 0.5]] if sk == "float" else [[0.5, 0.5], [0.5, 0.25]]):
                # (numpy-scalar scales that are EQUAL come back from an in-memory HDU as one numpy scalar, which convert_pixel_scales_2d
                #  [type(x) is float] does not turn into a pair: outside C16's anchors, reported to the coordinator, not generated)
                if not (sk == "np" and sc[0] == sc[1]):
                    yield {"op": "hdu2", "flip": flip, "kd": "array", "vals": vals, "mask": mask, "sc": sc, "sk": sk}
                    yield {"op": "hdu2", "flip": flip, "kd": "kernel", "vals": vals, "mask": falses(2, 3), "sc": sc, "sk": sk}
                    yield {"op": "hdum2", "flip": flip, "mask": mask, "sc": sc, "sk": sk}
                yield {"op": "file2", "flip": flip, "kd": "array", "vals": vals, "mask": mask, "sc": sc, "sk": sk, "fs0": E, "p": [10], "abs": False, "ow": False, "k": 0, "twice": True}
                yield {"op": "filem2", "flip": flip, "mask": mask, "sc": sc, "sk": sk, "fs0": E, "p": [10], "abs": False, "ow": False, "k": 0, "rs": None, "inv": False}
    for flip in (False, True):
        yield {"op": "hdu1", "flip": flip, "vals": content1(4), "mask": [False, True, False, False], "sc": 0.5, "sk": "tuple"}
        yield {"op": "file1", "flip": flip, "vals": content1(4), "mask": [False, True, False, False], "sc": 0.5, "sk": "tuple", "fs0": E, "p": [10], "abs": False, "ow": False, "k": 0}
        yield {"op": "hdum1", "flip": flip, "mask": [False, True, False], "sc": 0.5, "sk": "tuple"}
    for pk in ("Path", "dot"):
        for si, (fs0, p) in enumerate(fs_scenarios(2)):
            for ow in (False, True):
                j += 1; flip = j % 2 == 0; ab = (pk == "Path" and j % 3 == 0)
                t = j % 4
                if t == 0: yield {"op": "file2", "flip": flip, "kd": "array", "vals": vals, "mask": mask, "sc": [0.5, 0.5], "fs0": fs0, "p": p, "abs": ab, "ow": ow, "k": 0, "pk": pk}
                elif t == 1: yield {"op": "filem2", "flip": flip, "mask": mask, "sc": [2.0, 2.0], "fs0": fs0, "p": p, "abs": ab, "ow": ow, "k": 0, "rs": None, "inv": False, "pk": pk}
                elif t == 2: yield {"op": "util2", "flip": flip, "fs0": fs0, "arr": vals, "p": p, "abs": ab, "ow": ow, "hd": [["PIXSCALE", 1.5]], "k": 0, "pk": pk, "again": [3, 11]}
                else: yield {"op": "file2", "flip": flip, "kd": "kernel", "vals": content2(3, 3), "mask": falses(3, 3), "sc": [1.0, 1.0], "fs0": fs0, "p": p, "abs": ab, "ow": ow, "k": 0, "pk": pk}
        for si, (fs0, p) in enumerate(fs_scenarios(1)):
            for ow in (False, True):
                j += 1; ab = (pk == "Path" and j % 3 == 0)
                t = j % 3
                if t == 0: yield {"op": "file1", "flip": ow, "vals": content1(4), "mask": [False, False, True, False], "sc": 0.5, "fs0": fs0, "p": p, "abs": ab, "ow": ow, "k": 0, "pk": pk}
                elif t == 1: yield {"op": "filem1", "flip": ow, "mask": [True, False, False], "sc": 0.5, "fs0": fs0, "p": p, "abs": ab, "ow": ow, "k": 0, "pk": pk}
                else: yield {"op": "util1", "flip": ow, "fs0": fs0, "arr": content1(5), "p": p, "abs": ab, "ow": ow, "hd": [], "k": 0, "pk": pk, "again": [3, 11]}
    # 9e. util functions on int / float32 / strided / Fortran-ordered ndarrays and lists (written twice)
    for src in ("int", "f32", "fortran", "view"):
        for flip in (False, True):
            a2 = content_int(3, 2) if src == "int" else content2(3, 2)
            yield {"op": "util2", "flip": flip, "fs0": E, "arr": a2, "p": [10], "abs": False, "ow": False, "hd": [["PIXSCALE", 0.5]], "k": 0, "src": src, "again": [1, 11]}
            if src != "fortran":
                yield {"op": "util1", "flip": flip, "fs0": E, "arr": a2[0] + a2[1], "p": [10], "abs": False, "ow": False, "hd": [], "k": 0, "src": src, "again": [1, 11]}
    # 9f. FOREIGN files (integer / float32 / unsigned data, two HDUs): read through a refused write, every hdu index
    for dt in (FOREIGN if big else FOREIGN[:4]):
        pos = dt == "uint8"
        d2 = [[3.0, 7.0, 2.0], [1.0, 0.0, 9.0]] if pos else [[3.0, -7.0, 2.0], [-1.0, 0.0, 9.0]]
        e2 = [[5.0, 4.0], [8.0, 6.0], [0.0, 1.0]]
        old2 = {"dirs": [], "files": [[[10], [{"data": d2, "hdr": [["PIXSCALE", 3.0]], "dt": dt}, {"data": e2, "hdr": [["PIXSCALEY", 4.0], ["PIXSCALEX", 5.0]], "dt": dt}]]]}
        old1 = {"dirs": [], "files": [[[10], [{"data": d2[0], "hdr": [["PIXSCALE", 3.0]], "dt": dt}, {"data": e2[0] + e2[1], "hdr": [["PIXSCALE", 4.0]], "dt": dt}]]]}
        for k in (0, 1, -1) if not big else range(-3, 3):
            j += 1; flip = j % 2 == 0
            yield {"op": "file2", "flip": flip, "kd": "array", "vals": vals, "mask": mask, "sc": [0.5, 0.5], "fs0": old2, "p": [10], "abs": False, "ow": False, "k": k, "twice": True}
            yield {"op": "file2", "flip": not flip, "kd": "kernel", "vals": vals, "mask": falses(2, 3), "sc": [0.5, 0.25], "fs0": old2, "p": [10], "abs": False, "ow": False, "k": k}
            yield {"op": "filem2", "flip": flip, "mask": mask, "sc": [0.5, 0.5], "fs0": old2, "p": [10], "abs": False, "ow": False, "k": k, "rs": None, "inv": j % 3 == 0}
            yield {"op": "util2", "flip": flip, "fs0": old2, "arr": vals, "p": [10], "abs": False, "ow": False, "hd": [], "k": k}
            yield {"op": "file1", "flip": flip, "vals": content1(3), "mask": [False] * 3, "sc": 1.0, "fs0": old1, "p": [10], "abs": False, "ow": False, "k": k}
            yield {"op": "filem1", "flip": flip, "mask": [True, False], "sc": 1.0, "fs0": old1, "p": [10], "abs": False, "ow": False, "k": k}
            yield {"op": "util1", "flip": flip, "fs0": old1, "arr": content1(3), "p": [10], "abs": False, "ow": False, "hd": [], "k": k}
    # 9g. histories on objects built from int64 / float32 / list / strided input: a buffer that inherits the input dtype truncates or rounds LATER
    hsteps = [
        [["op", "add", EPS], ["peek"], ["hdu"], ["file", [10], False, 0, False]],
        [["op", "mul", 0.5], ["op", "add", 2.0 ** -40], ["hdu"], ["peek"]],
        [["op", "div", 4.0], ["op", "add", 0.25], ["native"], ["hdu"]],
        None,                                             # in-place edit with a non-integer, tiny-fraction value
        [["copy"], ["op", "rsub", 2.0 ** -33], ["slim"], ["hdu"], ["file", [1, 10], False, 0, True]],
    ]
    # (on /repo a NATIVELY stored buffer keeps the dtype of the input -- store_native exists to avoid copies -- so float32 / int64 input
    #  stored natively computes in that dtype; the round trip itself is unaffected.  For those combinations the steps are exact in
    #  float32 and in int64; a SLIM-stored buffer is float64 whatever the input, and gets the steps that expose an inherited dtype.)
    hsteps_narrow = [
        [["op", "add", 5.0], ["peek"], ["hdu"], ["file", [10], False, 0, False]],
        [["op", "mul", 0.5], ["hdu"], ["peek"]],
        [["op", "rsub", 100.0], ["native"], ["hdu"]],
        None,
        [["copy"], ["op", "neg"], ["slim"], ["hdu"], ["file", [1, 10], False, 0, True]],
    ]
    for src in ("int", "f32", "list", "view", "fortran", "sub"):
        for si, (sn, nbo) in enumerate(STORE):
            for ti, tpl in enumerate(hsteps):
                j += 1; flip = j % 2 == 0
                h, w, mask = KSHAPES[j % 5]
                u, m = pick_pixels(mask)
                native = sn or nbo
                narrow = native and src in ("int", "f32")
                if narrow: tpl = hsteps_narrow[ti]
                sv = 7.0 if narrow else 0.5 + EPS
                steps = tpl if tpl is not None else [(["set2", u[0], u[1], sv] if native else ["set1", u[2], sv]), ["hdu"], ["op", "add", 1.0], ["peek"]]
                inp = {"op": "hist2", "flip": flip, "nbo": nbo, "sn": sn, "kd": "kernel" if j % 5 == 0 else "array", "vals": content_int(h, w) if src == "int" else content2(h, w),
                       "mask": mask, "sc": [1.0, 1.0], "fs0": E, "steps": [list(x) for x in steps], "src": src}
                if hist_ok(inp): yield inp
                if si < 2 and (big or ti % 2 == 0):
                    n = 3 + j % 3; m1 = [(i % 3 == 1) for i in range(n)]
                    un = [i for i, b in enumerate(m1) if not b]
                    st1 = tpl if tpl is not None else [(["set2", 0, un[-1], sv] if sn else ["set1", len(un) - 1, sv]), ["hdu"], ["op", "add", 1.0], ["peek"]]
                    if src != "fortran":
                        inp = {"op": "hist1", "flip": flip, "sn": sn, "vals": content_int(1, n)[0] if src == "int" else content1(n), "mask": m1, "sc": 0.5, "fs0": E,
                               "steps": [list(x) for x in st1], "src": src}
                        if hist_ok(inp): yield inp
    for msrc in ("int", "float", "list", "self", "sub", "reread"):
        for flip in (False, True):
            h, w, mask = KSHAPES[(j + flip) % 5]; u, m = pick_pixels(mask); j += 1
            yield {"op": "histm2", "flip": flip, "mask": mask, "sc": [0.5, 0.5], "fs0": E, "msrc": msrc,
                   "steps": [["hdu"], ["set2", u[0], u[1], 1.0], ["hdu"], ["file", [10], False, 0, False], ["peek"]]}
            if msrc in ("int", "float", "list", "sub", "reread"):
                yield {"op": "histm1", "flip": flip, "mask": [False, True, False, False], "sc": 0.25, "fs0": E, "msrc": msrc,
                       "steps": [["hdu"], ["set1", 3, 1.0], ["hdu"], ["file", [10], False, 0, False], ["peek"]]}
    # 10. sessions
    A = {"kd": "array", "vals": content2(2, 3), "mask": [[False, True, False], [True, False, False]], "sc": [0.5, 0.5]}
    B = {"kd": "array", "vals": content2(3, 2, rng), "mask": [[False, False], [True, False], [False, False]], "sc": [1.0, 2.0]}
    M = {"kd": "mask", "mask": [[False, True], [True, True], [False, False]], "sc": [0.25, 0.25]}
    Kk = {"kd": "kernel", "vals": content2(3, 3), "mask": falses(3, 3), "sc": [2.0, 2.0]}
    C = {"kd": "array", "vals": content2(2, 3, rng), "mask": falses(2, 3), "sc": [0.5, 0.5], "src": "sub"}
    W = lambda i, p, ow=False, k=0, ab=False, pk=None: ["w", i, p, ow, k, ab, pk]
    R = lambda kd, p, sc, k=0, ab=False, pk=None, inv=False: ["r", kd, p, sc, k, ab, pk, inv]
    sess2 = [
        ([A, B, M, Kk], [W(0, [10]), W(1, [1, 10]), R("array", [10], [3.0, 3.0]), W(1, [10], True), R("array", [10], [0.5, 0.5]), R("array", [1, 10], [1.0, 2.0], -1),
                         W(0, [1, 10]), R("kernel", [1, 10], [0.5, 0.25]), W(2, [11]), R("mask", [11], [0.25, 0.25]), R("array", [11], [1.0, 1.0]),
                         R("mask", [10], [2.0, 2.0], 0, False, None, True), W(3, [11], True, 0, True), R("mask", [11], [1.0, 1.0]), R("kernel", [11], [2.0, 2.0], 0, True, "Path")]),
        ([A, C], [W(0, [10]), ["flip", None], R("array", [10], [0.5, 0.5]), W(0, [11]), W(1, [10], True), ["flip", None], R("array", [11], [0.5, 0.5]), R("array", [10], [0.5, 1.5]),
                  W(1, [2, 10]), W(0, [2, 10], True), R("array", [2, 10], [0.5, 0.5], 0, False, "dot")]),
        ([B, A, C], [W(0, [10]), W(1, [11]), W(0, [1, 10]), W(2, [11], True), W(0, [2, 3, 10], False, -1), R("array", [10], [1.0, 2.0], 1), R("array", [12], [1.0, 1.0]),
                     R("array", [11], [7.0, 7.0], -1), R("kernel", [1, 10], [1.0, 2.0], -2), R("mask", [13], [1.0, 1.0]), R("mask", [2, 3, 10], [1.0, 1.0], 1)]),
        ([M, Kk, A], [W(0, [10]), W(1, [10], True), W(0, [10], True), R("mask", [10], [0.25, 0.25]), W(2, [10]), R("array", [10], [0.5, 0.5]), W(2, [10], True),
                      R("array", [10], [0.5, 0.5]), R("mask", [10], [0.5, 0.5], 0, False, None, True)]),
    ]
    for objs, acts in sess2:
        for flip in (False, True):
            yield {"op": "sess2", "flip": flip, "fs0": E, "objs": objs, "acts": fix_flips(acts, flip)}
            yield {"op": "sess2", "flip": flip, "fs0": fs_scenarios(2)[8][0], "objs": objs, "acts": fix_flips(acts, flip)}
    A1 = {"kd": "array", "vals": content1(4), "mask": [False, True, False, False], "sc": 0.5}
    B1 = {"kd": "array", "vals": content1(3, rng), "mask": [False, False, False], "sc": 2.0, "src": "list"}
    M1 = {"kd": "mask", "mask": [True, False, False, True, False], "sc": 0.25}
    sess1 = [
        ([A1, B1, M1], [W(0, [10]), W(1, [1, 10]), R("array", [10], 3.0), W(1, [10], True), R("array", [10], 0.5), W(0, [1, 10]), R("array", [1, 10], 0.5, -1),
                        W(2, [11]), R("mask", [11], 0.25), R("array", [11], 1.0), R("mask", [10], 2.0), W(0, [11], True, 0, True, "Path"), R("mask", [11], 1.0), R("array", [12], 1.0),
                        R("array", [10], 1.0, 1)]),
    ]
    for objs, acts in sess1:
        for flip in (False, True):
            yield {"op": "sess1", "flip": flip, "fs0": E, "objs": objs, "acts": acts}
            yield {"op": "sess1", "flip": flip, "fs0": fs_scenarios(1)[8][0], "objs": objs, "acts": acts}
    for q in range(150 if big else 16):                        # random sessions
        objs = []
        for _ in range(rng.randint(2, 4)):
            h, w = rng.randint(1, 4), rng.randint(1, 4)
            kd = rng.choice(["array", "array", "kernel", "mask"])
            mk = rand_mask(h, w, rng) if kd != "kernel" else falses(h, w)
            s_ = rng.choice(SCALES); sc = [s_, s_] if rng.random() < 0.6 else [s_, rng.choice(SCALES)]
            o = {"kd": kd, "mask": mk, "sc": sc}
            if kd != "mask":
                o["vals"] = content2(h, w, rng)
                if rng.random() < 0.3: o["src"] = rng.choice(["list", "f32", "fortran", "view", "sub"] + (["slim"] if kd == "array" else []))
            objs.append(o)
        paths = [[10], [11], [1, 10], [1, 2, 10]]
        acts = []
        for _ in range(rng.randint(4, 9)):
            x = rng.random()
            if x < 0.5: acts.append(W(rng.randrange(len(objs)), rng.choice(paths), rng.random() < 0.5, rng.choice([0, 0, -1, 1]), rng.random() < 0.3, rng.choice([None, None, "Path", "dot"])))
            elif x < 0.9:
                s_ = rng.choice(SCALES)
                acts.append(R(rng.choice(["array", "kernel", "mask"]), rng.choice(paths), [s_, rng.choice([s_, 1.0])], rng.choice([0, 0, -1, 1]), rng.random() < 0.3,
                              rng.choice([None, "Path"]), rng.random() < 0.3))
            else: acts.append(["flip", None])
        if not any(a[0] != "flip" for a in acts): acts.append(W(0, [10]))
        flip = rng.random() < 0.5
        yield {"op": "sess2", "flip": flip, "fs0": E if q % 2 else rng.choice(fs_scenarios(2))[0], "objs": objs, "acts": fix_flips(acts, flip)}
    # 11. sibling classes on the same util functions
    vis = [[1.0, -2.0], [3.5, 4.0], [-5.0, 0.25], [0.0, 7.0], [2.0 ** -30, -(2.0 ** 40)]]
    noise = [[1.0, 2.0], [0.5, 4.0], [8.0, 0.25], [2.0, 2.0], [1.0, 0.5]]
    for kind in ("vis", "visnoise"):
        for src in (None, "complex", "complexlist", "list", "f32"):
            for flip in (False, True):
                j += 1
                n = 1 + j % 5
                yield {"op": "sib", "kind": kind, "flip": flip, "vis": (noise if kind == "visnoise" else vis)[:n], "src": src, "fs0": E if j % 2 else fs_scenarios(2)[1][0],
                       "paths": [[10], [1, 10]], "ow": j % 3 == 0, "k": [0, -1, 0, 1][j % 4], "abs": j % 2 == 0, "pk": [None, "Path", "dot"][j % 3]}
    for flip in (False, True):
        for hi, (h, w) in enumerate(((2, 3), (3, 1), (1, 1), (1, 4))):
            g = [[[float(10 * y + x) + 0.5, -float(y + 10 * x) - 0.25] for x in range(w)] for y in range(h)]
            yield {"op": "sib", "kind": "grid", "flip": flip, "grid": g, "sc": [0.5, 0.25], "src": [None, "list", "f32", "fortran"][hi], "fs0": E if hi % 2 else {"dirs": [], "files": [[[10], [old_hdu(2, 2)]]]}, "paths": [[10], [2, 10]],
                   "ow": hi % 2 == 0, "k": 0, "abs": hi % 2 == 1, "pk": [None, "Path"][hi % 2]}
    # 12. Imaging.from_fits: data_hdu / noise_map_hdu / psf_hdu varied independently on multi-HDU files
    H = lambda data, s, dt=None: ({"data": data, "hdr": [["PIXSCALE", s]]} if dt is None else {"data": data, "hdr": [["PIXSCALE", s]], "dt": dt})
    img_fs = {"dirs": [[1]], "files": [
        [[10], [H(content2(2, 3), 3.0), H(content_int(2, 3), 4.0, "int32")]],
        [[1, 11], [H([[1.0, 2.0, 4.0], [0.5, 8.0, 0.25]], 5.0), H([[2.0, 2.0, 1.0], [1.0, 4.0, 4.0]], 6.0, "float32"), H([[8.0, 1.0, 1.0], [2.0, 0.5, 4.0]], 7.0)]],
        [[12], [H([[0.5, 0.25, 0.25]], 8.0), H([[0.5], [0.125], [0.375]], 9.0)]]]}
    for kd_ in (0, 1, -1, 2):
        for kn in (0, 1, 2, -1, 3):
            for kp in (0, 1, -1, -3):
                j += 1
                if not big and (kd_ + 2 * kn + 3 * kp) % 3 != 0 and not (kd_ != kn and kn != kp and kd_ != kp and j % 2): continue
                yield {"op": "imghdus", "flip": j % 2 == 0, "sc": [[0.5, 0.5], [0.5, 0.25]][j % 2], "fs0": img_fs, "pd": [10], "pn": [1, 11], "pp": [12] if j % 5 else None,
                       "kd": kd_, "kn": kn, "kp": kp, "abs": j % 3 == 0, "pk": [None, "Path"][j % 2]}
    yield {"op": "imghdus", "flip": False, "sc": [1.0, 1.0], "fs0": img_fs, "pd": [13], "pn": [1, 11], "pp": [12], "kd": 0, "kn": 0, "kp": 0, "abs": False}
    # 13. pixel-scale extremes and near ties
    vals = content2(2, 3); mask = [[False, True, False], [False, False, False]]
    for sc in ([1e-8, 1e-8], [3e-9, 1e10], [12345.678, 12345.678], [0.5, 0.5000000000000001], [1.0, 0.9999999999999999], [1e10, 1e10], [2.0 ** -20, 2.0 ** -20]):
        for flip in (False, True):
            yield {"op": "hdu2", "flip": flip, "kd": "array", "vals": vals, "mask": mask, "sc": sc}
            yield {"op": "hdum2", "flip": flip, "mask": mask, "sc": sc}
            yield {"op": "file2", "flip": flip, "kd": "kernel", "vals": vals, "mask": falses(2, 3), "sc": sc, "fs0": E, "p": [10], "abs": False, "ow": False, "k": 0}
            yield {"op": "filem2", "flip": flip, "mask": mask, "sc": sc, "fs0": E, "p": [10], "abs": False, "ow": False, "k": 0, "rs": None, "inv": False}
            if sc[0] == sc[1]:
                yield {"op": "hdu1", "flip": flip, "vals": content1(3), "mask": [False, True, False], "sc": sc[0]}
                yield {"op": "filem1", "flip": flip, "mask": [False, True, False], "sc": sc[0], "fs0": E, "p": [10], "abs": False, "ow": False, "k": 0}
