"""C14 -- resize, pad and trim keep data centred and attached to its coordinates."""
import itertools
from fractions import Fraction
import numpy as np
from harness.common import cz, cq, cbool, clist, ctup, copt, cres, call_res, import_aa

ID = "C14"
GEN = []
PROPS = "Props/C14.v"
COQ_CHECK = ("Model.C14", "check")
COQ_FALLBACK = ("Model.C14", "spec_ok")
COQ_IMPORTS = ""
SHARD = 400
RULE = ("exhaustive enumeration (see exhaustive_subspace) of (input shape, target shape) pairs in every parity "
        "combination through array_2d_util.resized_array_2d_from, Array2D.resized_from and Mask2D.resized_from; all odd "
        "kernels in {1,3,5,7}^2 (plus some even ones) through padded_before_convolution_from / "
        "trimmed_after_convolution_from / Mask2D.trimmed_array_from and their compositions; all masks of small shapes "
        "with buffers 0..2 through Mask2D.zoom_region / Array2D.zoomed_around_mask; Imaging.apply_mask (automatic "
        "padding) over masks, kernels, pixel scales and origins observing .data/.noise_map/.grids.uniform/.mask; "
        "Mask2D.resized_from + Grid2D.from_mask for the coordinate clause; Imaging.apply_mask followed by "
        "AbstractDataset.trimmed_after_convolution_from on inputs that get padded; plus a random stream of larger shapes. "
        "Every case is non-trivial (it runs an anchored routine); distinct = distinct JSON input.")
EXHAUSTIVE = {
    "quick": "util resize: all shapes 1..5 x 1..5 to all targets 0..6 x 0..6; Array2D/Mask2D.resized_from: shapes 1..4^2 to "
             "targets 1..6^2 (mask drawn per case); pad / trim / pad-then-trim / trimmed_array_from: shapes 1..4^2 x kernels "
             "{1,3,5,7}^2; enlarge-then-shrink: shapes 1..4^2 x enlargements 0..3 per axis; zoom: every mask with H*W <= 7, "
             "buffer cycling 0,1,2; apply_mask: every mask with H*W <= 6 with kernel (3,3)",
    "thorough": "util resize: shapes 1..8^2 to targets 0..9^2; Array2D/Mask2D.resized_from: shapes 1..7^2 to targets 1..9^2; "
                "pad/trim family: shapes 1..6^2 x kernels {1,3,5,7}^2; enlarge-then-shrink: shapes 1..6^2 x enlargements 0..4; "
                "zoom: every mask with H*W <= 9 (each buffer 0,1,2 up to H*W <= 8, cycling above); apply_mask: every mask with H*W <= 8, kernels (3,3),(1,5),(5,3)",
}
TRUSTED = ["correspondence harness harness/c14.py (exact: integer data, dyadic pixel scales / origins, outputs converted with Fraction)",
           "numpy slicing a[lo:hi] (Model.C14.pyslice incl. negative bounds), element-wise array *= invert(mask) "
           "(Model.C14.mask_apply), np.where/amin/amax (Model.C14.zoom_region), bool<->float casts of Mask2D.resized_from",
           "Array2D slim<->native storage (property C01): the model keeps the native array; the harness reads .native/.slim"]
ASSUMPTIONS = ["kernels of the proved clauses are odd and >= 1 per axis (the property's quantifier); even kernels are exercised for "
               "correspondence only (the automatic padding then changes parity and shifts coordinates by half a pixel)",
               "target shapes >= 0, buffers >= 0, noise maps positive on unmasked pixels (Imaging's own check), pixel scales non-zero",
               "array values arbitrary (theorems polymorphic in the element type / over R); correspondence uses integers"]

_tally = {}
def tally(k): _tally[k] = _tally.get(k, 0) + 1
def extra_evidence(): return {"distribution": dict(sorted(_tally.items()))}

# ------------------------------------------------------------------ printing
def czarr(m): return clist([clist([cz(x) for x in row]) for row in m])
def cbarr(m): return clist([clist([cbool(x) for x in row]) for row in m])
def cpair(p): return ctup([cz(p[0]), cz(p[1])])
def ca2(a): return ctup([czarr(a[0]), cbarr(a[1])])
def cgeom(g): return ctup([cq(Fraction(x)) for x in g])
def cqq(p): return ctup([cq(p[0]), cq(p[1])])

def to_int(v):
    f = float(v)
    if f != int(f): raise ValueError("non-integer value in an integer-valued case")
    return int(f)
def zout(a): return [[to_int(v) for v in row] for row in np.asarray(a).tolist()] if np.asarray(a).ndim == 2 else []
def bout(a): return [[bool(v) for v in row] for row in np.asarray(a).tolist()] if np.asarray(a).ndim == 2 else []
def a2out(arr): return [zout(np.array(arr.native)), bout(np.array(arr.mask))]
def fr(x): return Fraction(float(x))

# ------------------------------------------------------------------ generators
def values(h, w, rng, lo=-9, hi=9):
    return [[rng.choice([v for v in range(lo, hi + 1) if v != 0]) for _ in range(w)] for _ in range(h)]
def rmask(h, w, rng, p=None):
    p = rng.choice([0.0, 0.3, 0.6, 0.85]) if p is None else p
    return [[rng.random() < p for _ in range(w)] for _ in range(h)]
def all_masks(h, w):
    for bits in itertools.product([False, True], repeat=h * w):
        yield [list(bits[y * w:(y + 1) * w]) for y in range(h)]
GEOMS = [("1", "1", "0", "0"), ("1/2", "2", "1", "-2"), ("2", "1/4", "-1/2", "3/4"), ("1/4", "1/2", "1/4", "0"),
         ("3/2", "3", "3", "-3/2"), ("1", "3/2", "-2", "3")]
ODD = [1, 3, 5, 7]

def needs_pad(m, k):
    """an unmasked pixel whose (odd) kernel footprint leaves the frame: Imaging pads"""
    h, w = len(m), len(m[0]); c0, c1 = (k[0] - 1) // 2, (k[1] - 1) // 2
    return any((not m[y][x]) and (y < c0 or y + c0 >= h or x < c1 or x + c1 >= w) for y in range(h) for x in range(w))

def gen_inputs(tier, rng):
    big = tier == "thorough"
    # --- util resize, exhaustive over shapes and targets (all parity combinations)
    S, R = (8, 9) if big else (5, 6)
    for h, w in itertools.product(range(1, S + 1), repeat=2):
        m = [[1 + y * w + x for x in range(w)] for y in range(h)]
        for r0, r1 in itertools.product(range(0, R + 1), repeat=2):
            yield {"op": "resize_u", "m": m, "rs": [r0, r1], "origin": [-1, -1], "pad": -7 if (r0 + r1) % 3 == 0 else 0}
    for _ in range(600 if big else 150):   # explicit origin, negative shapes: correspondence only
        h, w = rng.randint(1, 6), rng.randint(1, 6)
        yield {"op": "resize_u", "m": values(h, w, rng), "rs": [rng.randint(-1, 8), rng.randint(0, 8)],
               "origin": [rng.randint(-2, 7), rng.randint(-2, 7)], "pad": rng.randint(-3, 3)}
    for _ in range(1500 if big else 300):
        h, w = rng.randint(1, 6), rng.randint(1, 6)
        y0, x0 = rng.randint(-3, h + 1), rng.randint(-3, w + 1)
        yield {"op": "extract_u", "m": values(h, w, rng), "r": [y0, rng.randint(y0 - 1, h + 3), x0, rng.randint(x0 - 1, w + 3)]}
    # --- Array2D.resized_from / Mask2D.resized_from
    S, R = (7, 9) if big else (4, 6)
    i = 0
    for h, w in itertools.product(range(1, S + 1), repeat=2):
        for r0, r1 in itertools.product(range(1, R + 1), repeat=2):
            i += 1
            yield {"op": "arr_resize", "a": [values(h, w, rng), rmask(h, w, rng)], "rs": [r0, r1], "mpv": i % 2}
            yield {"op": "mask_resize", "m": rmask(h, w, rng, 0.5), "rs": [r0, r1], "padv": [0, 1, 0, 2, -1][i % 5]}
            if (r0 - h) % 2 == 0 and (r1 - w) % 2 == 0 or i % 4 == 0:
                yield {"op": "resize_coords", "m": rmask(h, w, rng, 0.4), "rs": [r0, r1], "g": list(GEOMS[i % len(GEOMS)])}
    for rs in ([0, 0], [0, 2], [2, 0]):
        yield {"op": "arr_resize", "a": [values(2, 3, rng), rmask(2, 3, rng)], "rs": rs, "mpv": 0}
        yield {"op": "mask_resize", "m": rmask(2, 3, rng, 0.5), "rs": rs, "padv": 1}
    # --- pad / trim family
    S = 6 if big else 4
    for h, w in itertools.product(range(1, S + 1), repeat=2):
        for k0, k1 in itertools.product(ODD, repeat=2):
            i += 1
            a = [values(h, w, rng), rmask(h, w, rng)]
            yield {"op": "arr_pad", "a": a, "k": [k0, k1], "mpv": i % 2}
            yield {"op": "arr_trim", "a": [values(h, w, rng), rmask(h, w, rng)], "k": [k0, k1]}
            yield {"op": "pad_trim", "a": a, "k": [k0, k1], "mpv": (i // 2) % 2}
            yield {"op": "pad_trimarr", "a": a, "k": [k0, k1]}
        for k0, k1 in ((2, 2), (4, 3), (3, 6), (2, 1)):   # even kernels: correspondence only
            a = [values(h, w, rng), rmask(h, w, rng)]
            yield {"op": "arr_pad", "a": a, "k": [k0, k1], "mpv": 1}
            yield {"op": "arr_trim", "a": a, "k": [k0, k1]}
            yield {"op": "pad_trim", "a": a, "k": [k0, k1], "mpv": 0}
            yield {"op": "pad_trimarr", "a": a, "k": [k0, k1]}
        for e0, e1 in itertools.product(range(0, 5 if big else 4), repeat=2):
            i += 1
            yield {"op": "enlarge_shrink", "a": [values(h, w, rng), rmask(h, w, rng)], "rs": [h + e0, w + e1], "mpv": i % 2}
        for d0, d1 in itertools.product(range(-2, 5), repeat=2):   # trimmed_array_from with arbitrary image shapes
            ish = [h - d0, w - d1]
            if ish[0] < 0 or ish[1] < 0: continue
            yield {"op": "trimarr", "p": values(h, w, rng), "is": ish}
    # --- zoom
    lim = 9 if big else 7
    for h in range(1, lim + 1):
        for w in range(1, lim // h + 1):
            for mk in all_masks(h, w):
                i += 1
                yield {"op": "zoom_region", "m": mk}
                for b in ((0, 1, 2) if big and h * w <= 8 else (i % 3,)):
                    yield {"op": "zoom", "a": [values(h, w, rng), mk], "b": b}
    yield {"op": "zoom", "a": [values(2, 2, rng), rmask(2, 2, rng, 0.5)], "b": -1}
    # --- Imaging.apply_mask
    lim = 8 if big else 6
    kers = [(3, 3), (1, 5), (5, 3)] if big else [(3, 3)]
    for h in range(1, lim + 1):
        for w in range(1, lim // h + 1):
            for mk in all_masks(h, w):
                for k in kers:
                    i += 1
                    yield {"op": "apply_mask", "data": values(h, w, rng), "noise": values(h, w, rng, 1, 9), "m": mk,
                           "k": list(k), "g": list(GEOMS[i % len(GEOMS)])}
    for _ in range(3000 if big else 300):
        h, w = rng.randint(1, 7), rng.randint(1, 7)
        k = rng.choice([None, None] + [[a, b] for a in ODD for b in ODD] + [[2, 2], [4, 3]])
        yield {"op": "apply_mask", "data": values(h, w, rng), "noise": values(h, w, rng, 1, 9),
               "m": rmask(h, w, rng, rng.choice([0.3, 0.6, 0.9])), "k": k, "g": list(rng.choice(GEOMS))}
    # --- Imaging.apply_mask (padding) then AbstractDataset.trimmed_after_convolution_from (inputs of the padded class only)
    n = 0
    while n < (1500 if big else 250):
        h, w = rng.randint(1, 6), rng.randint(1, 6)
        k = [rng.choice(ODD), rng.choice(ODD)]
        mk = rmask(h, w, rng, rng.choice([0.3, 0.6, 0.9]))
        if not needs_pad(mk, k): continue
        n += 1
        yield {"op": "apply_mask_trim", "data": values(h, w, rng), "noise": values(h, w, rng, 1, 9), "m": mk, "k": k,
               "g": list(rng.choice(GEOMS)), "touch": n % 2 == 0}
    # --- random larger shapes
    for _ in range(1200 if big else 200):
        h, w = rng.randint(5, 12), rng.randint(5, 12)
        r = [rng.randint(1, 14), rng.randint(1, 14)]
        a = [values(h, w, rng, -99, 99), rmask(h, w, rng)]
        yield {"op": "arr_resize", "a": a, "rs": r, "mpv": rng.randint(0, 1)}
        yield {"op": "enlarge_shrink", "a": a, "rs": [h + rng.randint(0, 5), w + rng.randint(0, 5)], "mpv": rng.randint(0, 1)}
        k = [rng.choice(ODD + [9]), rng.choice(ODD + [9])]
        yield {"op": "pad_trim", "a": a, "k": k, "mpv": rng.randint(0, 1)}
        if not all(all(row) for row in a[1]): yield {"op": "zoom", "a": a, "b": rng.randint(0, 3)}
        r2 = [h + 2 * rng.randint(-2, 3), w + 2 * rng.randint(-2, 3)]
        yield {"op": "resize_coords", "m": a[1], "rs": r2, "g": list(rng.choice(GEOMS))}

# ------------------------------------------------------------------ implementation calls
def mk_mask(aa, m, g=("1", "1", "0", "0")):
    g = [float(Fraction(x)) for x in g]
    return aa.Mask2D(mask=np.array(m, dtype=bool).reshape(len(m), len(m[0])), pixel_scales=(g[0], g[1]), origin=(g[2], g[3]))
def mk_arr(aa, a, g=("1", "1", "0", "0")):
    return aa.Array2D(values=np.array(a[0], dtype=float), mask=mk_mask(aa, a[1], g))
def held(aa, a):
    """(native values, mask) as held by Array2D(values=a[0], mask=a[1]): masked entries are zero"""
    return a2out(mk_arr(aa, a))
GEOM_CHK = GEOMS[1]
def geom_kept(obj):
    """the resized / padded / trimmed object keeps pixel scales and origin (objects are built with GEOM_CHK)"""
    want = [float(Fraction(x)) for x in GEOM_CHK]
    mask = obj if type(obj).__name__ == "Mask2D" else obj.mask
    return tuple(mask.pixel_scales) == (want[0], want[1]) and tuple(mask.origin) == (want[2], want[3])
def parity(s, t): return "".join("e" if (x - y) % 2 == 0 else "o" for x, y in zip(s, t))

def run_case(inp):
    aa = import_aa()
    import logging; logging.disable(logging.CRITICAL)
    from autoarray.structures.arrays import array_2d_util
    op = inp["op"]
    geom_bad = []
    def keep(obj, conv):
        if not geom_kept(obj): geom_bad.append(1)
        return conv(obj)
    if op == "resize_u":
        m = np.array(inp["m"], dtype=float)
        out = call_res(lambda: zout(array_2d_util.resized_array_2d_from(
            array_2d=m, resized_shape=tuple(inp["rs"]), origin=tuple(inp["origin"]), pad_value=float(inp["pad"]))))
        tally("resize_u parity " + parity(inp["rs"], m.shape) + (" grow" if inp["rs"][0] >= m.shape[0] else " shrink")
              + ("/grow" if inp["rs"][1] >= m.shape[1] else "/shrink"))
        coq = f"KResizeU {czarr(inp['m'])} {cpair(inp['rs'])} {cpair(inp['origin'])} {cz(inp['pad'])} {cres(out, czarr)}"
    elif op == "extract_u":
        m = np.array(inp["m"], dtype=float); r = inp["r"]
        out = call_res(lambda: zout(array_2d_util.extracted_array_2d_from(array_2d=m, y0=r[0], y1=r[1], x0=r[2], x1=r[3])))
        coq = f"KExtractU {czarr(inp['m'])} {cz(r[0])} {cz(r[1])} {cz(r[2])} {cz(r[3])} {cres(out, czarr)}"
    elif op == "mask_resize":
        out = call_res(lambda: keep(mk_mask(aa, inp["m"], GEOM_CHK).resized_from(new_shape=tuple(inp["rs"]), pad_value=inp["padv"]), lambda r: bout(np.array(r))))
        coq = f"KMaskResize {cbarr(inp['m'])} {cpair(inp['rs'])} {cz(inp['padv'])} {cres(out, cbarr)}"
    elif op == "arr_resize":
        out = call_res(lambda: keep(mk_arr(aa, inp["a"], GEOM_CHK).resized_from(new_shape=tuple(inp["rs"]), mask_pad_value=inp["mpv"]), a2out))
        tally("arr_resize parity " + parity(inp["rs"], (len(inp["a"][0]), len(inp["a"][0][0]))))
        coq = f"KArrResize {ca2(held(aa, inp['a']))} {cpair(inp['rs'])} {cz(inp['mpv'])} {cres(out, ca2)}"
    elif op == "arr_pad":
        out = call_res(lambda: keep(mk_arr(aa, inp["a"], GEOM_CHK).padded_before_convolution_from(
            kernel_shape=tuple(inp["k"]), mask_pad_value=inp["mpv"]), a2out))
        coq = f"KArrPad {ca2(held(aa, inp['a']))} {cpair(inp['k'])} {cz(inp['mpv'])} {cres(out, ca2)}"
    elif op == "arr_trim":
        out = call_res(lambda: keep(mk_arr(aa, inp["a"], GEOM_CHK).trimmed_after_convolution_from(kernel_shape=tuple(inp["k"])), a2out))
        coq = f"KArrTrim {ca2(held(aa, inp['a']))} {cpair(inp['k'])} {cres(out, ca2)}"
    elif op == "pad_trim":
        k = tuple(inp["k"])
        out = call_res(lambda: keep(mk_arr(aa, inp["a"], GEOM_CHK).padded_before_convolution_from(
            kernel_shape=k, mask_pad_value=inp["mpv"]).trimmed_after_convolution_from(kernel_shape=k), a2out))
        tally("pad_trim kernel " + ("odd" if k[0] % 2 and k[1] % 2 else "even"))
        coq = f"KPadTrim {ca2(held(aa, inp['a']))} {cpair(k)} {cz(inp['mpv'])} {cres(out, ca2)}"
    elif op == "enlarge_shrink":
        h, w = len(inp["a"][0]), len(inp["a"][0][0])
        out = call_res(lambda: keep(mk_arr(aa, inp["a"], GEOM_CHK).resized_from(new_shape=tuple(inp["rs"]), mask_pad_value=inp["mpv"])
                                    .resized_from(new_shape=(h, w), mask_pad_value=inp["mpv"]), a2out))
        tally("enlarge_shrink parity " + parity(inp["rs"], (h, w)))
        coq = f"KEnlargeShrink {ca2(held(aa, inp['a']))} {cpair(inp['rs'])} {cz(inp['mpv'])} {cres(out, ca2)}"
    elif op == "trimarr":
        p = inp["p"]; h, w = len(p), len(p[0])
        mask = mk_mask(aa, [[False] * w for _ in range(h)], GEOMS[1])
        padded = aa.Array2D.no_mask(values=np.array(p, dtype=float), pixel_scales=(0.5, 2.0), origin=(1.0, -2.0))
        t = mask.trimmed_array_from(padded_array=padded, image_shape=tuple(inp["is"]))
        out = zout(np.array(t.native))
        py_ok = None
        if tuple(t.mask.origin) != (1.0, -2.0) or tuple(t.pixel_scales) != (0.5, 2.0): py_ok = False   # keeps the geometry
        coq = f"KTrimArr {cpair((h, w))} {czarr(p)} {cpair(inp['is'])} {czarr(out)}"
        return {"coq": "(" + coq + ")", "out": out, "py_ok": py_ok, "nontrivial": True, "kind": op}
    elif op == "pad_trimarr":
        def f():
            arr = mk_arr(aa, inp["a"])
            padded = arr.padded_before_convolution_from(kernel_shape=tuple(inp["k"]))
            return zout(np.array(padded.mask.trimmed_array_from(padded_array=padded, image_shape=arr.shape_native).native))
        out = call_res(f)
        coq = f"KPadTrimArr {ca2(held(aa, inp['a']))} {cpair(inp['k'])} {cres(out, czarr)}"
    elif op == "zoom_region":
        out = call_res(lambda: [int(v) for v in mk_mask(aa, inp["m"]).zoom_region])
        coq = f"KZoomRegion {cbarr(inp['m'])} {cres(out, lambda r: ctup([cz(v) for v in r]))}"
    elif op == "zoom":
        out = call_res(lambda: zout(np.array(mk_arr(aa, inp["a"]).zoomed_around_mask(buffer=inp["b"]).native)))
        tally("zoom buffer %d" % inp["b"])
        coq = f"KZoom {ca2(held(aa, inp['a']))} {cz(inp['b'])} {cres(out, czarr)}"
    elif op == "apply_mask":
        g = inp["g"]; gf = [float(Fraction(x)) for x in g]
        def f():
            ps, org = (gf[0], gf[1]), (gf[2], gf[3])
            data = aa.Array2D.no_mask(values=np.array(inp["data"], dtype=float), pixel_scales=ps, origin=org)
            noise = aa.Array2D.no_mask(values=np.array(inp["noise"], dtype=float), pixel_scales=ps, origin=org)
            psf = None if inp["k"] is None else aa.Kernel2D.no_mask(values=np.ones(tuple(inp["k"])), pixel_scales=ps)
            ds = aa.Imaging(data=data, noise_map=noise, psf=psf).apply_mask(mask=mk_mask(aa, inp["m"], g))
            grid = np.array(ds.grids.uniform).reshape(-1, 2)
            return [bout(np.array(ds.mask)), [to_int(v) for v in np.array(ds.data.slim)],
                    [to_int(v) for v in np.array(ds.noise_map.slim)], [[fr(p[0]), fr(p[1])] for p in grid]]
        out = call_res(f)
        if out[0] == "ok":
            tally("apply_mask " + ("no psf" if inp["k"] is None else
                                   ("padded" if len(out[1][0]) != len(inp["m"]) or len(out[1][0][0]) != len(inp["m"][0]) else "not padded")))
        pr = lambda o: ctup([cbarr(o[0]), ctup([clist([cz(v) for v in o[1]]), clist([cz(v) for v in o[2]])]),
                             clist([cqq(p) for p in o[3]])])
        coq = (f"KApplyMask {czarr(inp['data'])} {czarr(inp['noise'])} {cbarr(inp['m'])} {copt(inp['k'], cpair)} "
               f"{cgeom(g)} {cres(out, pr)}")
        if out[0] == "ok": out = ("ok", [out[1][0], out[1][1], out[1][2], [[str(a), str(b)] for a, b in out[1][3]]])
    elif op == "apply_mask_trim":
        g = inp["g"]; gf = [float(Fraction(x)) for x in g]
        def f():
            ps, org = (gf[0], gf[1]), (gf[2], gf[3])
            data = aa.Array2D.no_mask(values=np.array(inp["data"], dtype=float), pixel_scales=ps, origin=org)
            noise = aa.Array2D.no_mask(values=np.array(inp["noise"], dtype=float), pixel_scales=ps, origin=org)
            psf = aa.Kernel2D.no_mask(values=np.ones(tuple(inp["k"])), pixel_scales=ps)
            ds = aa.Imaging(data=data, noise_map=noise, psf=psf).apply_mask(mask=mk_mask(aa, inp["m"], g))
            if inp["touch"]: _ = ds.grids.uniform      # the cached grids exist before the trim
            ds2 = ds.trimmed_after_convolution_from(kernel_shape=tuple(inp["k"]))
            grid = np.array(ds2.grids.uniform).reshape(-1, 2)
            # the grid lives on the frame of the trimmed data (not on a cached copy of the padded frame)
            if tuple(ds2.grids.uniform.mask.shape_native) != tuple(ds2.data.shape_native): geom_bad.append(1)
            return [bout(np.array(ds2.mask)), zout(np.array(ds2.data.native)), zout(np.array(ds2.noise_map.native)),
                    [[fr(p[0]), fr(p[1])] for p in grid]]
        out = call_res(f)
        tally("apply_mask_trim" + (" grids touched before" if inp["touch"] else ""))
        pr = lambda o: ctup([cbarr(o[0]), ctup([czarr(o[1]), czarr(o[2])]), clist([cqq(p) for p in o[3]])])
        coq = (f"KApplyMaskTrim {czarr(inp['data'])} {czarr(inp['noise'])} {cbarr(inp['m'])} {cpair(inp['k'])} "
               f"{cgeom(g)} {cres(out, pr)}")
        if out[0] == "ok": out = ("ok", [out[1][0], out[1][1], out[1][2], [[str(a), str(b)] for a, b in out[1][3]]])
    elif op == "resize_coords":
        g = inp["g"]
        def f():
            m2 = mk_mask(aa, inp["m"], g).resized_from(new_shape=tuple(inp["rs"]), pad_value=1)
            grid = np.array(aa.Grid2D.from_mask(mask=m2)).reshape(-1, 2)
            return [bout(np.array(m2)), [[fr(p[0]), fr(p[1])] for p in grid]]
        out = call_res(f)
        tally("resize_coords parity " + parity(inp["rs"], (len(inp["m"]), len(inp["m"][0]))))
        pr = lambda o: ctup([cbarr(o[0]), clist([cqq(p) for p in o[1]])])
        coq = f"KResizeCoords {cbarr(inp['m'])} {cpair(inp['rs'])} {cgeom(g)} {cres(out, pr)}"
        if out[0] == "ok": out = ("ok", [out[1][0], [[str(a), str(b)] for a, b in out[1][1]]])
    else:
        raise ValueError(op)
    return {"coq": "(" + coq + ")", "out": out, "py_ok": (False if geom_bad else None), "nontrivial": True, "kind": op}
