"""C02 -- pixel indices and scaled (y,x) coordinates are consistent inverse maps; shape-based mask constructors."""
import math
import numpy as np
from fractions import Fraction
from harness.common import cz, cq, cbool, clist, ctup, import_aa, frac

ID = "C02"
GEN = ["geometry"]
GEN_FILES = ["Gen/Gen_geometry.v"]
PROPS = "Props/C02.v"
COQ_CHECK = ("Model.C02x", "check")
COQ_FALLBACK = ("Model.C02", "spec_ok")
COQ_IMPORTS = "From PAV Require Import Model.C02."
SHARD = 200
RULE = ("all-shapes sweep (see exhaustive_subspace), then geometries: shapes H,W in 1..9 (all parity combinations, 1xN and Nx1 included), anisotropic pixel scales, unequal origin "
        "components, random masks. EXACT stream: dyadic scales (also 3/2, 3, 3/4, 5/4) times a power-of-two magnitude (2^-40, 2^-22 ~ 2.4e-7 rad, 1, 2^20, 2^31), origins "
        "that are dyadic multiples of the scale and query coordinates on a 1/16-pixel lattice over the whole extent plus a one-pixel rim outside it -- every double operation "
        "of the implementation is exact, so pixel-boundary and radius TIES are included and compared exactly. TOLERANCE stream: two-decimal doubles times a power of two, "
        "full-mantissa scales / origins (1/3, 0.0123457, pi/10), radian-sized scales (2.4e-7, 1.1e-7) with origins like 3e-6, origins 1e4 pixels from zero, scales 1e6..4e8, "
        "coordinates anywhere in the extent incl. the origin itself, exact zeros and mirror images; real-valued outputs compared to 1e-11 RELATIVE to the magnitudes involved, every decision "
        "(pixel boundary, mask radius) kept at an exact-rational margin >= 1e-6 of a pixel / of the scale (cases inside the band are skipped and counted). "
        "Mask constructors: radii on a 1/4 lattice (ties with pixel centres are frequent), centres k/4 pixels off, axis ratios in "
        "{1/4..1}, arbitrary angles (cos/sin handed to the model as the rational value of the doubles math.cos/math.sin), invert on/off, non-zero mask origin. "
        "HISTORIES (op session / session1): a pool of live Mask2D / Mask1D objects that differ in ONE attribute (origin / pixel scales / shape), queried in an interleaved order "
        "through the Geometry2D held from the start and through freshly fetched ones, the same query repeated through the same and through a sibling object, in-place edits "
        "mask[i, j] = v between reads of the pixel-centre grid. DERIVED structures (op derived / derived1): geometry of arithmetic results, .native / .slim, derive_mask.all_false, "
        "resized masks, Mask2D(mask=<Mask2D>); query grids that are arithmetic results, native->slim, built from a natively shaped array, or the pixel-centre grid of ANOTHER "
        "mask; the Grid2D that carries the query points has its own native shape (any factorisation of the point count), unrelated to the geometry. Every array / Grid2D handed to "
        "the implementation is fingerprinted and compared after the call. Every case goes through the public entry point (Mask2D.geometry.*, Grid2D.from_mask / uniform, "
        "derive_grid.all_false / unmasked, the Mask2D constructors, Mask1D.geometry, Grid1D.from_mask / uniform) AND the util function; the OBJECT returned by the public entry "
        "point (values, mask content, pixel scales, origin) is checked against the generated class-layer model and the specification; where the util function / a second entry "
        "point returned exactly the same thing it is judged once. Arguments equal to the documented default (origin (0,0), centre (0,0), invert False) are NOT passed, so the "
        "defaults themselves are exercised (12% of the geometries have origin (0,0)). Sibling mask cases (same shape and scales / other centre, same centre / other scales) follow "
        "every circular case in the same process. INPUT KINDS (op kinds / kinds1, 30% of the mask-constructor cases): the same values as tuples / lists / float64 ndarrays / "
        "numpy scalars / Python ints / int64 arrays / float32 (exact stream) for shape, pixel scales, origin, centre, radii and query coordinates; integer-typed / float32 / list query grids; "
        "masks as lists, 0-1 integer / uint8 / float arrays; integer coordinates in geometries with non-integral origin; fully masked masks, single unmasked pixels, 1 x 1 shapes; every mutable "
        "argument fingerprinted after every call and re-used for the next call; every scalar query also through a directly constructed Geometry2D / Geometry1D; sibling entry points "
        "Grid2DIrregular.from_pixels_and_mask, grid_2d_via_mask_from / grid_2d_via_shape_native_from, Grid1D.uniform_from_zero; history step regrid (the query Grid2D overwritten in place and "
        "queried again). RARE constructor states: negative radius, inner = outer on a tie radius, inner > outer, unsorted anti-annular radii, axis ratios > 1 and < 0. Non-trivial = non-square shape or "
        "unequal scales or non-zero origin/centre or a history; distinct = distinct JSON input.")
EXHAUSTIVE = {
    "quick": "every shape H x W with H, W <= 6 and every pixel of it: pixel-centre grid, centre -> (row, column) -> flat index "
             "(one sampled anisotropic geometry with unequal non-zero origin per shape; scales / origins are sampled, not enumerated)",
    "thorough": "as quick with H, W <= 9",
}
TRUSTED = ["py2v plug-in py2v/gen_geometry.py (fail-closed ast -> Gallina over NumOps; coq/Gen/Gen_geometry.v regenerated from /repo on "
           "every run): scalar conversions, Geometry1D/2D properties and methods, the slim-grid conversion loops, the native 3-D loop, the pixel-centre gathers, "
           "the circular / annular / anti-annular constructor loops and (over R only) elliptical_radius_from and the two elliptical "
           "constructor loops; the class layer (Mask2D / Mask1D constructors and geometry, Grid2D / Grid1D from_mask / uniform, DeriveGrid2D, DeriveMask2D/1D.all_false); "
           "pinned glue: Geometry*.__init__, Mask2D/Mask1D/Mask.__init__, shape_native, derive_mask / derive_grid, Derive*.__init__, Structure.shape_native / pixel_scales / origin, "
           "Grid2D.no_mask, Grid1D.no_mask, convert_pixel_scales_{1,2}d, total_pixels_{1,2}d_from",
           "object contract written in the header of Gen_geometry.v (not derived from source, checked per case): Grid2D / Array2D / Grid1D(values=slim v, mask=M) stores v unchanged, "
           "np.array() of a slim-stored structure is its values, .astype('int') truncates toward zero",
           "NumPy oracle contract written in the header of Gen_geometry.v: arctan2 = angle of (x, y) in (-pi, pi], radians = d pi/180, "
           "sin / cos / sqrt = the mathematical functions, element-wise double arithmetic = real arithmetic on the exact stream",
           "executable (cos, sin)-pair form of the elliptical constructors (Model/C02x.v): PROVED equal to the generated trigonometric "
           "code for every angle; the harness hands it Fraction(math.cos(radians(angle))) (or the exact Pythagorean pair), i.e. trusts "
           "libm's cos/sin to 1e-9 (checked per case), decisions kept 1e-6 away",
           "QOps execution: sqrtT is a 2^-64 rational approximation (exact on squares of rationals); generated radii keep it away "
           "from every decision unless the tie is exact",
           "correspondence harness harness/c02.py (Fraction(float) conversion, exact margins, expected mask content tracked across in-place edits)"]
ASSUMPTIONS = ["real arithmetic (no rounding): theorems over R; the exact stream makes double arithmetic exact, the tolerance stream "
               "stays 1e-6 of a pixel away from every decision, which is the exclusion band of the property text (1e-9) with room to spare",
               "pixel scales > 0; Python int() = truncation toward zero",
               "natively STORED Grid2D objects are not handed to the Geometry2D grid methods (they raise TypeError on them); geometry of derived structures "
               "(arithmetic results, .native / .slim, derived / resized masks) is covered by correspondence only",
               "Mask1D.derive_grid.all_false on masks with masked pixels is a listed known finding (specification-only case; repair in fixes/)"]

REL = 1e-11                       # relative tolerance of real-valued outputs on the tolerance stream (relative to the magnitudes involved)
MARGIN = Fraction(1, 10 ** 6)     # decision margin, in PIXEL units (conversions) / relative to the pixel scale magnitude (mask radii)
SKIPPED = {"inband": 0, "redrawn": 0}

def extra_evidence():
    return {"skipped_in_band": SKIPPED["inband"], "redrawn_in_band_by_generator": SKIPPED["redrawn"]}

# ----------------------------------------------------------------------------- helpers
def F(x): return Fraction(x)
def S(x): return str(Fraction(x))
def fl(x): return float(Fraction(x))
def q2(p): return ctup([cq(p[0]), cq(p[1])])
def z2(p): return ctup([cz(p[0]), cz(p[1])])
def qlist(v): return clist([cq(x) for x in v])
def q2list(g): return clist([q2(p) for p in g])
def cmask(m): return clist([clist([cbool(bool(b)) for b in r]) for r in m])
def fr2(a): return [[frac(a[i][0]), frac(a[i][1])] for i in range(len(a))]
def q4(e): return ctup([cq(frac(v)) for v in e])

def q2f(p): return q2((frac(p[0]), frac(p[1])))
def cmobj(M):
    """a Mask2D object as (content, pixel_scales, origin), read from the object"""
    return f"({cmask(np.array(M).astype(bool))}, {q2f(M.pixel_scales)}, {q2f(M.origin)})"
def cgobj(G):
    """a slim Grid2D object as (values, mask object)"""
    return f"({q2list(fr2(np.array(G)))}, {cmobj(G.mask)})"
def cm1obj(M):
    return f"({clist([cbool(bool(b)) for b in np.array(M)])}, {cq(frac(M.pixel_scales[0]))}, {cq(frac(M.origin[0]))})"
def cg1obj(G):
    return f"({qlist([frac(v) for v in np.array(G)])}, {cm1obj(G.mask)})"

def tol_of(exact, *mags):
    """0 on the exact stream; else REL * (largest magnitude involved), rounded up to a short dyadic"""
    if exact: return Fraction(0)
    m = float(max(abs(Fraction(x)) for x in mags)) * REL
    e = math.floor(math.log2(m)) - 7
    return Fraction(math.ceil(m / 2.0 ** e)) * Fraction(2) ** e

EXACT_SCALES = [Fraction(1, 4), Fraction(1, 2), Fraction(1), Fraction(2), Fraction(4), Fraction(3, 2), Fraction(3),
                Fraction(3, 4), Fraction(5, 4)]
# power-of-two magnitudes: 2^-22 ~ 2.4e-7 (pixel scales in radians), 2^20 ~ 1e6, 2^-40 ~ 9e-13, 2^31 ~ 2e9.  Scaling every input by a
# power of two scales every double operation exactly: the decisions are those of the unit-magnitude case, only absolute epsilons show
MAGS = [0] * 13 + [-22] * 3 + [20] * 2 + [-40, 31]
NONROUND = [1 / 3, 0.0123457, math.pi / 10, 2 / 7, 0.7 / 3]
RADIAN = [2.4e-7, 1.1e-7, 4.85e-6]

def rand_geom(rng, exact, dims=2):
    """shape, scales, origin (as Fractions); exact: o/s and every later operation is exact in doubles"""
    shape = [rng.randint(1, 9) for _ in range(dims)]
    if rng.random() < 0.15: shape[rng.randrange(dims)] = 1
    r2 = lambda a, b: float(round(rng.uniform(a, b), 2))
    if exact:
        f = Fraction(2) ** rng.choice(MAGS)
        s = [rng.choice(EXACT_SCALES) * f for _ in range(dims)]
        if dims == 2 and rng.random() < 0.2: s[1] = s[0]
        o = [si * Fraction(rng.randint(-12, 12), 4) if rng.random() < 0.85 else Fraction(0) for si in s]
        if rng.random() < 0.12: o = [Fraction(0)] * dims
        return shape, s, o
    fam = rng.random()
    if fam < 0.5:            # two-decimal doubles, scaled by a power of two
        f = 2.0 ** rng.choice(MAGS)
        s = [Fraction((rng.choice([0.05, 0.1, 0.3, 0.7, 1.0, 1.3, 2.5]) if rng.random() < 0.6 else r2(0.02, 3.0)) * f) for _ in range(dims)]
        o = [Fraction(r2(-3.0, 3.0) * f) if rng.random() < 0.85 else Fraction(0) for _ in range(dims)]
    elif fam < 0.7:          # scales / origins with a full mantissa (1/3-like): nothing is representable in a few decimals
        s = [Fraction(rng.choice(NONROUND)) for _ in range(dims)]
        o = [Fraction(rng.choice([rng.uniform(-3.0, 3.0), 1 / 3, -2 / 3, 0.0])) for _ in range(dims)]
    elif fam < 0.82:         # radian-sized pixel scales (interferometer real-space masks)
        s = [Fraction(rng.choice(RADIAN)) for _ in range(dims)]
        o = [Fraction(rng.choice([3e-6, -1e-6, 0.0, rng.uniform(-10, 10) * float(si)])) for si in s]
    elif fam < 0.92:         # origin thousands of pixels away from zero
        s = [Fraction(rng.choice([0.05, 0.1, 0.3, 1.0, 2.5])) for _ in range(dims)]
        o = [Fraction(round(rng.uniform(-2e4, 2e4)) * float(si) + r2(-1, 1)) for si in s]
    else:                    # huge pixel scales
        s = [Fraction(rng.choice([1e6, 3.7e8, 2.5e3])) for _ in range(dims)]
        o = [Fraction(rng.uniform(-5, 5) * float(si)) for si in s]
    if dims == 2 and rng.random() < 0.2: s[1] = s[0]
    if rng.random() < 0.12: o = [Fraction(0)] * dims          # the default origin: the harness then does not pass `origin` at all
    return shape, s, o

def pixel_pos(n, s, o, v, flip):
    """exact continuous pixel coordinate (the argument of int()) of scaled value v on an axis"""
    cp = Fraction(n - 1, 2)
    return ((o - v) if flip else (v - o)) / s + cp + Fraction(1, 2)

def in_margin(p):
    """continuous pixel coordinate within MARGIN of an integer (a pixel boundary)"""
    d = abs(p - round(p))
    return d < MARGIN

def rand_coord(rng, n, s, o, exact, flip):
    """a scaled coordinate: mostly inside the extent, sometimes on a pixel boundary (exact stream), sometimes outside"""
    if exact:
        k = rng.randint(-16, 16 * n + 16) if rng.random() < 0.85 else rng.choice([0, 16 * n, 8, 16 * n - 8])
        if rng.random() < 0.25: k = 16 * rng.randint(0, n)            # a pixel boundary / the border of the extent
        p = Fraction(k, 16)                                             # continuous pixel coordinate in [-1, n+1]
        cp = Fraction(n - 1, 2)
        t = p - cp - Fraction(1, 2)
        return (o - t * s) if flip else (o + t * s)
    lo, hi = float(o - n * s / 2), float(o + n * s / 2)
    if rng.random() < 0.12: lo, hi = lo - float(s), hi + float(s)
    for _ in range(50):
        u = rng.random()
        v = Fraction(lo + u * (hi - lo))
        if u < 0.06: v = Fraction(float(o))                             # the origin itself
        elif u < 0.10 and lo < 0 < hi: v = Fraction(0)                  # an exact zero
        if in_margin(pixel_pos(n, s, o, v, flip)):
            SKIPPED["redrawn"] += 1; continue
        return v
    return Fraction(lo + 0.3712 * (hi - lo))

def rand_mask(rng, H, W):
    st = rng.random()
    if st < 0.25: return [[False] * W for _ in range(H)]
    p = rng.choice([0.2, 0.5, 0.8])
    m = [[rng.random() < p for _ in range(W)] for _ in range(H)]
    if all(all(r) for r in m): m[rng.randrange(H)][rng.randrange(W)] = False
    return m

# ----------------------------------------------------------------------------- INPUT KINDS
# The same VALUES in the representations a caller may use.  The model sees only the values; the implementation must return the same thing
# whatever the representation, and must leave every mutable argument as it was.
SEQ_KINDS = ["tuple", "list", "nd", "npf", "int", "ndint", "npint", "f32", "npf32"]
def is_integral(vals): return all(Fraction(x).denominator == 1 for x in vals)
def f32_exact(vals): return all(float(np.float32(fl(x))) == fl(x) for x in vals)
def kind_ok(vals, kind, exact):
    if kind in ("int", "ndint", "npint"): return is_integral(vals)
    if kind in ("f32", "npf32"): return bool(exact) and f32_exact(vals)     # float32 arithmetic is exact on the (dyadic) exact stream only
    return True
def as_kind(vals, kind, exact=False):
    """the rationals `vals` as a tuple / list / float64 ndarray / tuple of np.float64 / tuple of Python ints / int64 ndarray / tuple of
    np.int64 / float32 ndarray / tuple of np.float32; an infeasible kind (non-integral values, not float32-exact) falls back to the tuple"""
    if not kind_ok(vals, kind, exact): kind = "tuple"
    v = [fl(x) for x in vals]
    if kind == "list": return list(v)
    if kind == "nd": return np.array(v, dtype=np.float64)
    if kind == "npf": return tuple(np.float64(x) for x in v)
    if kind == "int": return tuple(int(Fraction(x)) for x in vals)
    if kind == "ndint": return np.array([int(Fraction(x)) for x in vals], dtype=np.int64)
    if kind == "npint": return tuple(np.int64(int(Fraction(x))) for x in vals)
    if kind == "f32": return np.array(v, dtype=np.float32)
    if kind == "npf32": return tuple(np.float32(x) for x in v)
    return tuple(v)
def scalar_kind(x, kind, exact=False):
    r = as_kind([x], kind if kind in ("int", "npf", "npint", "npf32") else "tuple", exact)
    return r[0]

class Prints:
    """fingerprints of the (mutable) objects handed to the implementation: compared after the calls"""
    def __init__(self): self.items = []
    def add(self, obj):
        if isinstance(obj, np.ndarray): self.items.append((obj, obj.copy()))
        elif isinstance(obj, list): self.items.append((obj, [list(r) if isinstance(r, list) else r for r in obj]))
        return obj
    def ok(self):
        for obj, cp in self.items:
            if isinstance(obj, np.ndarray):
                if not same_arr(obj, cp): return False
            elif obj != cp or any(type(a) is not type(b) for a, b in zip(obj, cp)): return False
        return True

def factor_pairs(n):
    return [[a, n // a] for a in range(1, n + 1) if n % a == 0]

# ----------------------------------------------------------------------------- generators
GEOM_OPS = ["central2", "extent2", "extentgrid", "pix2", "scaled2", "gridpixels", "gridcentres", "gridindexes", "gridscaled", "gridmask"]
GEOM1_OPS = ["central1", "extent1", "pix1", "scaled1", "grid1mask"]

def rand_points(rng, H, W, sy, sx, oy, ox, exact, k):
    pts = [[rand_coord(rng, H, sy, oy, exact, True), rand_coord(rng, W, sx, ox, exact, False)] for _ in range(k)]
    y, x = pts[0]
    pts.append([2 * oy - y, x] if exact else [Fraction(float(2 * oy - y)), x])     # mirror image about the origin row (symmetric inputs)
    for _ in range(2):    # pixel centres themselves (index -> centre -> index round trip is then visible in the outputs)
        i, j = rng.randrange(H), rng.randrange(W)
        c = [oy + (Fraction(H - 1, 2) - i) * sy, ox + (j - Fraction(W - 1, 2)) * sx]
        pts.append(c if exact else [Fraction(float(c[0])), Fraction(float(c[1]))])
    return [[S(p[0]), S(p[1])] for p in pts]

def rand_pix(rng, H, W, exact, k):
    if exact:
        pix = [[S(Fraction(rng.randint(-16, 16 * H + 16), 16)), S(Fraction(rng.randint(-16, 16 * W + 16), 16))] for _ in range(k)]
    else:
        pix = [[S(Fraction(float(round(rng.uniform(-1, H + 1), 3)))), S(Fraction(float(round(rng.uniform(-1, W + 1), 3))))] for _ in range(k)]
    return pix + [[S(rng.randrange(H)), S(rng.randrange(W))] for _ in range(2)]

def gen_geometry_cases(rng, exact):
    (H, W), (sy, sx), (oy, ox) = rand_geom(rng, exact)
    base = {"exact": exact, "shape": [H, W], "s": [S(sy), S(sx)], "o": [S(oy), S(ox)]}
    pts = rand_points(rng, H, W, sy, sx, oy, ox, exact, rng.randint(3, 7))
    pix = rand_pix(rng, H, W, exact, 4)
    cont = lambda g: rng.choice(factor_pairs(len(g)))      # native shape of the Grid2D that carries the query points
    yield dict(base, op="central2")
    yield dict(base, op="extent2")
    yield dict(base, op="extentgrid")
    for p in pts[:4]: yield dict(base, op="pix2", c=p)
    for p in pix[:3] + pix[-1:]: yield dict(base, op="scaled2", p=p)
    yield dict(base, op="gridpixels", g=pts, cont=cont(pts))
    yield dict(base, op="gridcentres", g=pts, cont=cont(pts))
    yield dict(base, op="gridindexes", g=pts, cont=cont(pts))
    yield dict(base, op="gridscaled", g=pix, cont=cont(pix))
    yield dict(base, op="gridmask", m=rand_mask(rng, H, W))

def gen_geometry1_cases(rng, exact):
    (n,), (s,), (o,) = rand_geom(rng, exact, dims=1)
    base = {"exact": exact, "n": n, "s": S(s), "o": S(o)}
    yield dict(base, op="central1")
    yield dict(base, op="extent1")
    for _ in range(3): yield dict(base, op="pix1", x=S(rand_coord(rng, n, s, o, exact, False)))
    c = o + (rng.randrange(n) - Fraction(n - 1, 2)) * s
    yield dict(base, op="pix1", x=S(c if exact else Fraction(float(c))))
    for _ in range(2):
        p = Fraction(rng.randint(-16, 16 * n + 16), 16) if exact else Fraction(float(round(rng.uniform(-1, n + 1), 3)))
        yield dict(base, op="scaled1", p=S(p))
    yield dict(base, op="scaled1", p=S(rng.randrange(n)))
    m = [rng.random() < 0.4 for _ in range(n)]
    if all(m): m[rng.randrange(n)] = False
    yield dict(base, op="grid1mask", m=m)

def gen_kinds(rng, exact):
    """INPUT KINDS: one geometry, its arguments handed over as tuples / lists / ndarrays / Python ints / numpy scalars / float32, the mask as
    a list of lists / integer / float ndarray, the query grids integer-typed / float32 / lists; half of the geometries are INTEGRAL (integer
    scales, origins and query coordinates) so that the integer kinds apply; fully masked masks and 1 x 1 shapes are included"""
    mode = rng.random()
    integral = mode < 0.25                   # everything integral
    intpts = mode < 0.7                      # integer query coordinates (in a geometry with non-integral origin / scales when not `integral`)
    (H, W), (sy, sx), (oy, ox) = rand_geom(rng, exact)
    if rng.random() < 0.08: H = W = 1
    if intpts and not integral and exact:
        # power-of-two scales, origin a quarter-pixel multiple: (integer - origin) / scale is exact
        sy, sx = Fraction(rng.choice([1, 1, 2, 2, 4, 8, 16]), 4), Fraction(rng.choice([1, 1, 2, 2, 4, 8, 16]), 4)     # mostly <= 1: an integer coordinate shifted by a fraction changes pixel
        oy, ox = sy * Fraction(rng.randint(-12, 12), 4), sx * Fraction(rng.randint(-12, 12), 4)
    if integral:
        sy, sx = (Fraction(rng.choice([1, 2, 4])), Fraction(rng.choice([1, 2, 4]))) if exact else (Fraction(rng.choice([1, 2, 3, 5])), Fraction(rng.choice([1, 2, 3, 7])))
        oy, ox = Fraction(rng.randint(-3, 3)), Fraction(rng.randint(-3, 3))
        if exact: oy, ox = oy * sy, ox * sx
    def ipts(k):
        out = []
        for _ in range(k):
            for _ in range(20):
                c = [Fraction(rng.randint(math.floor(oy - H * sy / 2) - 1, math.ceil(oy + H * sy / 2) + 1)),
                     Fraction(rng.randint(math.floor(ox - W * sx / 2) - 1, math.ceil(ox + W * sx / 2) + 1))]
                if exact or not (in_margin(pixel_pos(H, sy, oy, c[0], True)) or in_margin(pixel_pos(W, sx, ox, c[1], False))): break
            out.append([S(c[0]), S(c[1])])
        return out
    pts = ipts(4) if intpts else rand_points(rng, H, W, sy, sx, oy, ox, exact, 3)
    pix = [[S(rng.randint(-1, H + 1)), S(rng.randint(-1, W + 1))] for _ in range(3)] if intpts else rand_pix(rng, H, W, exact, 2)
    seq = ["list", "nd", "npf", "int", "ndint", "npint"] + (["f32", "npf32"] if exact else [])
    m = rand_mask(rng, H, W)
    u = rng.random()
    if u < 0.12: m = [[True] * W for _ in range(H)]                                   # empty selection: nothing unmasked
    elif u < 0.24:                                                                      # a single unmasked pixel
        m = [[True] * W for _ in range(H)]; m[rng.randrange(H)][rng.randrange(W)] = False
    kinds = {"sh": rng.choice(["int", "list", "npint"]), "ps": rng.choice(seq), "org": rng.choice(seq), "c": rng.choice(seq), "p": rng.choice(seq),
             "mask": rng.choice(["list", "listint", "i64", "u8", "f64", "bool"])}
    yield {"op": "kinds", "exact": exact, "shape": [H, W], "s": [S(sy), S(sx)], "o": [S(oy), S(ox)], "m": m, "kinds": kinds,
           "pts": pts, "pix": pix, "gk": [rng.choice(GRID_KINDS) for _ in range(4)],
           # every query coordinate in its own representation, an integer one among them
           "ck": [rng.choice(["int", "ndint", "npint"]), rng.choice(["int", "ndint", "npint"]), rng.choice(["int", "ndint", "npint", "list", "nd"]), rng.choice(seq)], "pk": [rng.choice(["int", "ndint", "npint"])] + [rng.choice(seq) for _ in range(3)],
           "cont": [rng.choice(factor_pairs(len(pts))), rng.choice(factor_pairs(len(pix)))]}

def gen_kinds1(rng, exact):
    (n,), (s,), (o,) = rand_geom(rng, exact, dims=1)
    if rng.random() < 0.5:
        s = Fraction(rng.choice([1, 2, 4])) if exact else Fraction(rng.choice([1, 2, 3, 5]))
        o = Fraction(rng.randint(-3, 3)) * (s if exact else 1)
    m = [rng.random() < 0.4 for _ in range(n)]
    u = rng.random()
    if u < 0.15: m = [True] * n
    elif u < 0.3: m = [True] * n; m[rng.randrange(n)] = False
    seq = ["list", "nd", "npf", "int", "ndint", "npint"] + (["f32", "npf32"] if exact else [])
    kinds = {"sh": rng.choice(["int", "list", "npint"]), "ps": rng.choice(seq), "org": rng.choice(seq), "mask": rng.choice(["list", "listint", "i64", "u8", "f64", "bool"])}
    yield {"op": "kinds1", "exact": exact, "n": n, "s": S(s), "o": S(o), "m": m, "kinds": kinds}

def sibling_geoms(rng, exact, H, W, sy, sx, oy, ox):
    """geometries that differ from (H, W, s, o) in ONE attribute each: origin, pixel scales, shape"""
    if exact:
        o2 = [oy + sy * Fraction(rng.choice([-5, -2, 1, 3, 6]), 4), ox + sx * Fraction(rng.choice([-6, -1, 2, 5]), 4)]
        s2 = [sy * rng.choice([Fraction(1, 2), 2]), sx * rng.choice([Fraction(1, 2), 2, 1])]
    else:
        o2 = [Fraction(float(oy + sy * Fraction(rng.randint(-40, 40), 7))), Fraction(float(ox - sx * Fraction(rng.randint(1, 40), 9)))]
        s2 = [Fraction(float(sy) * rng.choice([0.5, 1.1, 3.0])), Fraction(float(sx) * rng.choice([0.9, 2.0, 1.0]))]
    sh2 = [W, H] if H != W else [H, W + 1]
    return [([H, W], [sy, sx], o2), ([H, W], s2, [oy, ox]), (sh2, [sy, sx], [oy, ox])]

def gen_session(rng, exact):
    """HISTORIES: a pool of live Mask2D objects (siblings differing in one attribute) queried in an interleaved order, the same
    query repeated through the same object, through the Geometry2D held from the start and through a freshly fetched one, with
    in-place edits `mask[i, j] = value` between reads of the pixel-centre grid"""
    (H, W), (sy, sx), (oy, ox) = rand_geom(rng, exact)
    geoms = [([H, W], [sy, sx], [oy, ox])] + sibling_geoms(rng, exact, H, W, sy, sx, oy, ox)
    objs = [{"shape": sh, "s": [S(s[0]), S(s[1])], "o": [S(o[0]), S(o[1])], "m": rand_mask(rng, sh[0], sh[1])} for sh, s, o in geoms]
    steps = []
    for _ in range(rng.randint(9, 14)):
        k = rng.randrange(len(objs))
        (h, w), (a, b), (c, d) = geoms[k]
        do = rng.choice(["extent", "extent", "central", "pix", "scaled", "gc", "gi", "gp", "gs", "grid", "grid", "edit", "edit", "extentgrid", "regrid"])
        st = {"k": k, "do": do, "held": rng.random() < 0.5}
        if do == "pix": st["c"] = rand_points(rng, h, w, a, b, c, d, exact, 1)[0]
        elif do == "scaled": st["p"] = rand_pix(rng, h, w, exact, 1)[0]
        elif do in ("gc", "gi", "gp"):
            st["g"] = rand_points(rng, h, w, a, b, c, d, exact, 2); st["cont"] = rng.choice(factor_pairs(len(st["g"])))
        elif do == "gs":
            st["g"] = rand_pix(rng, h, w, exact, 2); st["cont"] = rng.choice(factor_pairs(len(st["g"])))
        elif do == "edit":
            st["at"] = [rng.randrange(h), rng.randrange(w)]; st["val"] = rng.random() < 0.5
        elif do == "regrid":
            # the SAME Grid2D object: queried, its entries overwritten in place by the user, queried again through the same geometry
            st["g"] = rand_points(rng, h, w, a, b, c, d, exact, 2); st["cont"] = rng.choice(factor_pairs(len(st["g"])))
            st["g2"] = rand_points(rng, h, w, a, b, c, d, exact, 2); st["which"] = rng.choice(["gc", "gi", "gp"])
        steps.append(st)
        u = rng.random()
        if do != "edit":
            if u < 0.3: steps.append(dict(st, held=not st["held"]))                         # the same query again, same object
            elif u < 0.6: steps.append(dict(st, k=rng.randrange(len(objs))))                # the same query through a sibling object
        else:
            steps.append({"k": k, "do": "grid", "held": True})                              # re-read after the edit
    yield {"op": "session", "exact": exact, "objs": objs, "steps": steps}

def gen_session1(rng, exact):
    (n,), (s,), (o,) = rand_geom(rng, exact, dims=1)
    o2 = o + s * Fraction(rng.choice([-5, -2, 1, 3]), 4) if exact else Fraction(float(o + s * Fraction(rng.randint(1, 30), 7)))
    s2 = s * 2 if exact else Fraction(float(s) * 1.7)
    geoms = [(n, s, o), (n, s, o2), (n, s2, o), (n + 1, s, o)]
    objs = []
    for nn, a, b in geoms:
        m = [rng.random() < 0.4 for _ in range(nn)]
        if all(m): m[rng.randrange(nn)] = False
        objs.append({"n": nn, "s": S(a), "o": S(b), "m": m})
    steps = []
    for _ in range(rng.randint(7, 11)):
        k = rng.randrange(4)
        do = rng.choice(["extent", "grid", "grid", "edit", "edit", "uniform"])
        st = {"k": k, "do": do}
        if do == "edit": st["at"] = rng.randrange(geoms[k][0]); st["val"] = rng.random() < 0.5
        steps.append(st)
        if do == "edit": steps.append({"k": k, "do": "grid"})
        elif rng.random() < 0.4: steps.append(dict(st, k=rng.randrange(4)))
    yield {"op": "session1", "exact": exact, "objs": objs, "steps": steps}

def gen_derived(rng, exact):
    """DERIVED structures: geometry of arithmetic results / .native / .slim / derived and resized masks, and query grids that are
    themselves derived objects (arithmetic results, native -> slim, built from a natively shaped array, the pixel-centre grid of ANOTHER mask)"""
    (H, W), (sy, sx), (oy, ox) = rand_geom(rng, exact)
    base = {"exact": exact, "shape": [H, W], "s": [S(sy), S(sx)], "o": [S(oy), S(ox)], "op": "derived"}
    yield dict(base, how="array", c=rand_points(rng, H, W, sy, sx, oy, ox, exact, 1)[0])
    yield dict(base, how="mask", m=rand_mask(rng, H, W), resized=[max(1, H + rng.choice([-2, -1, 1, 2, 3])), max(1, W + rng.choice([-2, -1, 1, 2]))])
    # another mask whose pixel centres are exact in this geometry's pixel units (same scales up to a factor 2, origin a quarter-pixel multiple away)
    h2, w2 = rng.randint(1, 5), rng.randint(1, 5)
    f = rng.choice([Fraction(1, 2), Fraction(1), Fraction(2)])
    oth = {"shape": [h2, w2], "s": [S(sy * f), S(sx * f)],
           "o": [S(oy + sy * Fraction(rng.randint(-6, 6), 4)), S(ox + sx * Fraction(rng.randint(-6, 6), 4))] if exact else
                [S(Fraction(float(oy + sy * Fraction(rng.randint(-20, 20), 7)))), S(Fraction(float(ox + sx * Fraction(rng.randint(-20, 20), 7))))],
           "m": rand_mask(rng, h2, w2)}
    if not exact: oth["s"] = [S(Fraction(float(sy) * rng.choice([0.5, 0.8, 1.3]))), S(Fraction(float(sx) * rng.choice([0.6, 1.0, 1.9])))]
    pts = rand_points(rng, H, W, sy, sx, oy, ox, exact, 3)
    yield dict(base, how="container", g=pts, cont=rng.choice(factor_pairs(len(pts))), other=oth)

def gen_derived1(rng, exact):
    (n,), (s,), (o,) = rand_geom(rng, exact, dims=1)
    m = [rng.random() < 0.4 for _ in range(n)]
    if all(m): m[rng.randrange(n)] = False
    yield {"op": "derived1", "exact": exact, "n": n, "s": S(s), "o": S(o), "m": m}
    yield {"op": "derive1allfalse", "exact": exact, "n": n, "s": S(s), "o": S(o), "m": m}
    yield {"op": "derive1allfalse", "exact": exact, "n": n, "s": S(s), "o": S(o), "m": [False] * n}

def offsets2(H, W, sy, sx, cy, cx):
    """exact squared-distance ingredients (dy, dx) of every pixel centre (mask origin (0,0)) from the centre (cy, cx)"""
    out = []
    for i in range(H):
        for j in range(W):
            out.append(((Fraction(H - 1, 2) - i) * sy - cy, (j - Fraction(W - 1, 2)) * sx - cx))
    return out

def exact_sqrt(q):
    """the rational square root of a non-negative Fraction, or None"""
    n, d = q.numerator, q.denominator
    rn, rd = math.isqrt(n), math.isqrt(d)
    return Fraction(rn, rd) if rn * rn == n and rd * rd == d else None

def tie_radii(H, W, sy, sx, cy, cx):
    """the rational distances of pixel centres from the requested centre: radii that produce exact ties"""
    out = set()
    for dy, dx in offsets2(H, W, sy, sx, cy, cx):
        r = exact_sqrt(dy * dy + dx * dx)
        if r is not None: out.add(r)
    return sorted(out)

def radius_in_band(a2, r, margin):
    """is sqrt(a2) within margin of r (exact arithmetic; an exact tie a2 == r^2 is reported separately)"""
    if r < 0: r = -r
    lo = max(r - margin, 0); hi = r + margin
    return lo * lo < a2 < hi * hi

def ell2(dy, dx, c, s, q):
    xr = dx * c + dy * s
    yr = dy * c - dx * s
    return xr * xr + (yr / q) ** 2

PYTH = [(3, 4, 5), (4, 3, 5), (5, 12, 13), (12, 5, 13), (8, 15, 17), (15, 8, 17), (7, 24, 25), (24, 7, 25), (20, 21, 29), (21, 20, 29),
        (1, 0, 1), (0, 1, 1)]

def snap(x, bits):
    """a `short double`: the nearest multiple of 2^-bits"""
    return Fraction(round(Fraction(x) * 2 ** bits), 2 ** bits)

def rand_angle(rng, arbitrary):
    """-> (angle in degrees as the Fraction of a double, cos, sin) with |cos - cos(radians(angle))| <= 2^-31"""
    if arbitrary:
        ang = Fraction(float(rng.choice([30, 45, 60, 120, 135, 225, -45, 400]) if rng.random() < 0.5 else round(rng.uniform(-180, 360), 1)))
        a = math.radians(float(ang))
        return ang, snap(math.cos(a), 32), snap(math.sin(a), 32)
    c, s, h = rng.choice(PYTH)
    c, s = rng.choice([1, -1]) * c, rng.choice([1, -1]) * s
    ang = Fraction(math.degrees(math.atan2(s, c)) + rng.choice([0, 0, 360, -360]))
    return ang, Fraction(c, h), Fraction(s, h)

def mask_case_inband(inp):
    """any pixel whose (elliptical) radius is within the margin of a radius parameter -> skip; on the exact stream of the
    circular family an exact tie is allowed (the doubles compute it exactly).  The margin is MARGIN * 2^mag: relative to the scale."""
    H, W = inp["shape"]; sy, sx = F(inp["s"][0]), F(inp["s"][1]); cy, cx = F(inp["c"][0]), F(inp["c"][1])
    margin = MARGIN * Fraction(2) ** inp.get("mag", 0)
    offs = offsets2(H, W, sy, sx, cy, cx)
    op = inp["op"]
    if op in ("circ", "ann", "anti"):
        radii = [F(r) for r in inp["r"]]
        for dy, dx in offs:
            a2 = dy * dy + dx * dx
            for r in radii:
                if inp["exact"] and a2 == r * r: continue
                if radius_in_band(a2, r, margin): return True
        return False
    for dy, dx in offs:
        for R, q, ang, c, s in inp["ell"]:
            if F(R) <= margin or radius_in_band(ell2(dy, dx, F(c), F(s), F(q)), F(R), margin): return True
    return False

TOL_SCALES = [0.05, 0.1, 0.3, 0.7, 1.0, 1.3]

def gen_mask_cases(rng, exact, kinds):
    H, W = rng.randint(1, 9), rng.randint(1, 9)
    mag = rng.choice(MAGS)                   # every length below is multiplied by 2^mag
    f = Fraction(2) ** mag
    def dyadic_geom():
        sy, sx = rng.choice(EXACT_SCALES), rng.choice(EXACT_SCALES)
        if rng.random() < 0.4: sx = sy
        cy = sy * Fraction(rng.randint(-6, 6), 4) if rng.random() < 0.7 else Fraction(0)
        cx = sx * Fraction(rng.randint(-6, 6), 4) if rng.random() < 0.7 else Fraction(0)
        return sy * f, sx * f, cy * f, cx * f, (lambda: f * Fraction(rng.randint(0, 24), 4) * rng.choice([sy, sx, Fraction(1)]))
    def short_geom():
        # `short doubles` (multiples of 2^-12): not dyadic-friendly (o/s, sqrt are inexact) yet cheap for the exact-rational model
        sy = snap(rng.choice(TOL_SCALES), 12)
        sx = sy if rng.random() < 0.5 else snap(rng.choice(TOL_SCALES), 12)
        cy = snap(rng.uniform(-2, 2) * float(sy), 12) if rng.random() < 0.7 else Fraction(0)
        cx = snap(rng.uniform(-2, 2) * float(sx), 12) if rng.random() < 0.7 else Fraction(0)
        return sy * f, sx * f, cy * f, cx * f, (lambda: f * snap(rng.uniform(0, 5) * float(max(sy, sx)), 12))
    ok4 = [Fraction(rng.randint(-8, 8), 4), Fraction(rng.randint(-8, 8), 4)] if rng.random() < 0.6 else [Fraction(0), Fraction(0)]
    geoms = {True: dyadic_geom(), False: short_geom()}
    for kind in kinds:
        ell = kind in ("ell", "ellann")
        arbitrary = ell and rng.random() < 0.12
        sy, sx, cy, cx, rad = geoms[exact or (ell and not arbitrary)]
        h, w = (min(H, 5), min(W, 5)) if arbitrary else (H, W)
        # the mask origin: a quarter-pixel multiple on the exact stream (origin / scale is then exact)
        origin = [S(sy * ok4[0]), S(sx * ok4[1])] if (exact and not ell) else [S(f * ok4[0]), S(f * ok4[1])]
        base = {"exact": exact and not ell, "shape": [h, w], "s": [S(sy), S(sx)], "c": [S(cy), S(cx)], "origin": origin, "mag": mag,
                "invert": rng.random() < 0.25}
        ties = tie_radii(h, w, sy, sx, cy, cx) if (exact and not ell) else []
        if ties and rng.random() < 0.5:
            rad0 = rad
            rad = lambda: rng.choice(ties) if rng.random() < 0.6 else rad0()      # a radius that passes exactly through pixel centres
        if rng.random() < 0.3:
            # INPUT KINDS of the constructor arguments (lists / ndarrays / Python ints / numpy scalars / float32); infeasible kinds fall back
            # (float32 only where the value is stored or compared, not where it would make the radial arithmetic single precision)
            seq = ["list", "nd", "npf", "int", "ndint", "npint"]
            base["kinds"] = {"sh": rng.choice(["list", "npint", "int"]), "ps": rng.choice(seq), "c": rng.choice(seq), "origin": rng.choice(seq + ["f32", "npf32"]),
                             "r": rng.choice(["int", "npf", "npint", "npf32"])}
        for _ in range(20):
            # RARE STATES are constructed deliberately: a negative radius (nothing unmasked), inner = outer on a radius that passes exactly
            # through pixel centres (a one-pixel-wide ring), inner > outer, the three anti-annular radii in any order, axis ratios > 1 and < 0
            if kind == "circ":
                inp = dict(base, op="circ", r=[S(rad() if rng.random() < 0.94 else -rad() - f)])
            elif kind == "ann":
                a, b = sorted([rad(), rad()]); inp = dict(base, op="ann", r=[S(a), S(b)])
                u = rng.random()
                if u < 0.1: inp["r"] = [S(b), S(a)]          # inner > outer: empty annulus
                elif u < 0.2: inp["r"] = [S(b), S(b)]        # inner = outer
            elif kind == "anti":
                a, b, c = sorted([rad(), rad(), rad()]); inp = dict(base, op="anti", r=[S(a), S(b), S(c)])
                if rng.random() < 0.15:
                    rr = [a, b, c]; rng.shuffle(rr); inp["r"] = [S(v) for v in rr]
            else:
                def one():
                    q = Fraction(rng.choice([1, 2, 3, 4]), 4) if rng.random() < 0.85 else Fraction(rng.choice([5, 8, -2, -4]), 4)
                    ang, c, s = rand_angle(rng, arbitrary)
                    R = rad()
                    return [S(R), S(q), S(ang), S(c), S(s)]
                inp = dict(base, op=kind, ell=[one()] if kind == "ell" else [one(), one()])
            if not mask_case_inband(inp):
                yield inp
                if kind == "circ":
                    # SIBLINGS in the same process: same shape and pixel scales with another centre, same centre with other pixel scales
                    # (a result remembered per (shape, pixel scales) or per centre would be reused wrongly)
                    dc = [sy * Fraction(rng.choice([-3, -1, 2, 5]), 4), sx * Fraction(rng.choice([-5, -2, 1, 3]), 4)]
                    sib1 = dict(inp, c=[S(cy + dc[0]), S(cx + dc[1])])
                    sib2 = dict(inp, s=[S(sy * 2), S(sx / 2)])
                    for sib in (sib1, sib2):
                        if not mask_case_inband(sib): yield sib
                break
            SKIPPED["redrawn"] += 1

def gen_all_shapes(rng, nmax):
    """every shape up to nmax x nmax, every pixel: centre grid, and each centre back to its index / flat index"""
    for H in range(1, nmax + 1):
        for W in range(1, nmax + 1):
            sy, sx = rng.choice(EXACT_SCALES), rng.choice(EXACT_SCALES)
            oy, ox = sy * Fraction(rng.choice([-7, -3, -1, 1, 2, 5]), 4), sx * Fraction(rng.choice([-6, -2, 1, 3, 9]), 4)
            base = {"exact": True, "shape": [H, W], "s": [S(sy), S(sx)], "o": [S(oy), S(ox)]}
            centres = [[S(oy + (Fraction(H - 1, 2) - i) * sy), S(ox + (j - Fraction(W - 1, 2)) * sx)] for i in range(H) for j in range(W)]
            yield dict(base, op="gridmask", m=[[False] * W for _ in range(H)])
            yield dict(base, op="gridcentres", g=centres, cont=[H, W])
            yield dict(base, op="gridindexes", g=centres, cont=[W, H])

def gen_inputs(tier, rng):
    big = tier == "thorough"
    yield from gen_all_shapes(rng, 9 if big else 6)
    for i in range(300 if big else 30):
        yield from gen_geometry_cases(rng, exact=(i % 3 != 2))
    for i in range(150 if big else 21):
        yield from gen_geometry1_cases(rng, exact=(i % 3 != 2))
    for i in range(150 if big else 15):
        yield from gen_session(rng, exact=(i % 3 != 2))
    for i in range(60 if big else 9):
        yield from gen_session1(rng, exact=(i % 3 != 2))
    for i in range(120 if big else 12):
        yield from gen_derived(rng, exact=(i % 3 != 2))
    for i in range(40 if big else 6):
        yield from gen_derived1(rng, exact=(i % 3 != 2))
    for i in range(200 if big else 24):
        yield from gen_kinds(rng, exact=(i % 3 != 2))
    for i in range(60 if big else 9):
        yield from gen_kinds1(rng, exact=(i % 3 != 2))
    for i in range(500 if big else 45):
        yield from gen_mask_cases(rng, exact=(i % 3 != 2), kinds=["circ", "ann", "anti", "ell", "ellann"])

# ----------------------------------------------------------------------------- running one case
def nontrivial(inp):
    if "objs" in inp: return True
    if inp["op"] == "derive1allfalse": return any(inp["m"])
    if "shape" in inp:
        H, W = inp["shape"]
        return H != W or inp["s"][0] != inp["s"][1] or any(F(v) != 0 for v in inp.get("o", inp.get("c", ["0", "0"])))
    return F(inp["o"]) != 0 or inp["n"] > 1

def check_cs(ang, c, s):
    """the (cos, sin) pair handed to the model is that of the angle handed to the implementation"""
    a = math.radians(float(ang))
    if abs(math.cos(a) - float(c)) > 1e-9 or abs(math.sin(a) - float(s)) > 1e-9:
        raise ValueError("harness input inconsistent: (cos, sin) does not belong to the angle")

GRID_KINDS = ["list", "f64", "listint", "i64", "i32", "f32"]
def grid_obj(aa, pts, cont=None, kind=None, exact=False):
    """the points as a Grid2D (the geometry methods want an object with a mask); its OWN native shape `cont`, pixel scales and origin are
    unrelated to the geometry that is queried.  kind: how the values are handed over (list of lists / float64 / integer-typed / float32
    ndarray); integer kinds need integral values, float32 needs float32-exact values on the exact stream, else float64 is used"""
    cont = tuple(cont) if cont else (len(pts), 1)
    flat = [x for p in pts for x in p]
    vals = [[fl(p[0]), fl(p[1])] for p in pts]
    if kind in ("listint", "i64", "i32") and is_integral(flat):
        ints = [[int(F(p[0])), int(F(p[1]))] for p in pts]
        small = all(abs(v) < 2 ** 31 for r in ints for v in r)
        vals = ints if kind == "listint" else np.array(ints, dtype=np.int32 if (kind == "i32" and small) else np.int64)
    elif kind == "f32" and exact and f32_exact(flat): vals = np.array(vals, dtype=np.float32)
    elif kind in ("f64", "i64", "i32", "f32"): vals = np.array(vals, dtype=np.float64)
    if kind is None: return aa.Grid2D.no_mask(values=vals, shape_native=cont, pixel_scales=1.0)
    return aa.Grid2D.no_mask(values=vals, shape_native=cont, pixel_scales=(0.5 * cont[0], 1.0 + 0.25 * cont[1]), origin=(float(cont[1]), -float(cont[0])))

class Acc:
    """Coq terms + Python-only verdicts of one run_case"""
    def __init__(self): self.terms = []; self.ok = []; self.out = None; self.skipped = 0
    def add(self, terms, out=None, ok=None):
        self.terms += terms
        if out is not None and self.out is None: self.out = out
        if ok is not None: self.ok.append(bool(ok))
    def py_ok(self): return all(self.ok) if self.ok else None

def same_arr(a, b):
    a, b = np.asarray(a), np.asarray(b)
    return a.shape == b.shape and a.dtype == b.dtype and bool(np.array_equal(a, b))

class G2:
    """one 2-D geometry under test: the expected parameters (exact rationals, mask content) and the LIVE objects (a Mask2D and
    the Geometry2D fetched from it once) that a history keeps using"""
    def __init__(self, aa, shape, s, o, exact, m=None, kinds=None):
        self.aa = aa; self.exact = exact
        self.H, self.W = H, W = int(shape[0]), int(shape[1]); self.HW = (H, W)
        self.sy, self.sx = sy, sx = F(s[0]), F(s[1]); self.oy, self.ox = oy, ox = F(o[0]), F(o[1])
        self.sh, self.ps, self.org = (H, W), (fl(sy), fl(sx)), (fl(oy), fl(ox))
        # INPUT KINDS: the same values handed over as lists / ndarrays / ints / numpy scalars / float32; every mutable one is fingerprinted
        self.kinds = kinds = dict(kinds or {}); self.prints = Prints()
        if kinds:
            self.sh = self.prints.add([H, W] if kinds.get("sh") == "list" else as_kind((H, W), kinds.get("sh", "int")))
            self.ps = self.prints.add(as_kind((sy, sx), kinds.get("ps", "tuple"), exact))
            self.org = self.prints.add(as_kind((oy, ox), kinds.get("org", "tuple"), exact))
        self.ps_pub = self.ps[0] if (sy == sx and (H + W) % 2 and type(self.ps[0]) is float) else self.ps       # a bare float is widened by convert_pixel_scales_2d
        # an origin equal to the documented default (0.0, 0.0) is NOT passed: the default arguments are exercised
        self.ko = {} if (oy == 0 and ox == 0) else {"origin": self.org}
        self.kos = {} if (oy == 0 and ox == 0) else {"origins": self.org}
        self.m = [list(map(bool, r)) for r in m] if m is not None else [[False] * W for _ in range(H)]
        if m is None: self.mask = aa.Mask2D.all_false(shape_native=self.sh, pixel_scales=self.ps_pub, **self.ko)
        else: self.mask = aa.Mask2D(mask=self.prints.add(self.mask_arg()), pixel_scales=self.ps_pub, **self.ko)
        self.geo = self.mask.geometry
        # the Geometry2D constructed DIRECTLY from the arguments (not through a mask): every scalar query is also put to it
        from autoarray.geometry.geometry_2d import Geometry2D
        self.direct = Geometry2D(shape_native=self.sh, pixel_scales=self.ps_pub, **self.ko)
        self.hdr = f"{z2(self.HW)} {q2((sy, sx))} {q2((oy, ox))}"
        self.kw = dict(shape_native=self.sh, pixel_scales=self.ps, **self.ko)
    def g(self, held): return self.geo if held else self.mask.geometry
    def mask_arg(self):
        """the current mask content in the representation kinds['mask']: bool ndarray (default) / list of lists of bool / of 0-1 ints /
        int64 / uint8 / float64 ndarray of 0-1"""
        k = self.kinds.get("mask", "bool")
        if k == "list": return [list(r) for r in self.m]
        if k == "listint": return [[int(b) for b in r] for r in self.m]
        return np.array(self.m, dtype={"bool": bool, "i64": np.int64, "u8": np.uint8, "f64": np.float64}[k])
    def coord(self, c, which="c"):
        """a query coordinate pair in the representation kinds[which], fingerprinted"""
        return self.prints.add(as_kind((F(c[0]), F(c[1])), self.kinds.get(which, "tuple"), self.exact))
    def mobj(self):
        """the EXPECTED mask object (current content, pixel scales, origin), from the inputs"""
        return f"({cmask(self.m)}, {q2((self.sy, self.sx))}, {q2((self.oy, self.ox))})"
    def geo_of(self, held=False):
        geo = self.g(held)
        out = f"({z2(geo.shape_native)}, {q2f(geo.pixel_scales)}, {q2f(geo.origin)})"
        return [f"(KGeoOf {self.mobj()} {out})"], str((geo.shape_native, geo.pixel_scales, geo.origin)), None
    def tol_s(self, *extra):     # scaled units
        return tol_of(self.exact, max(abs(self.oy), abs(self.ox)) + max(self.H, self.W) * max(self.sy, self.sx) + max([abs(F(e)) for e in extra] + [0]))
    def tol_p(self, *extra):     # pixel units
        return tol_of(self.exact, max(self.H, self.W) + 1 + max(abs(self.oy / self.sy), abs(self.ox / self.sx)) + max([abs(F(e)) for e in extra] + [0]))
    def margin_bad(self, pts):
        return (not self.exact) and any(in_margin(pixel_pos(self.H, self.sy, self.oy, F(p[0]), True)) or
                                        in_margin(pixel_pos(self.W, self.sx, self.ox, F(p[1]), False)) for p in pts)
    # ---- operations: each returns None (inside the decision band: skipped) or (terms, out, py_ok)
    def central(self, held=True):
        from autoarray.geometry import geometry_util as gu
        geo = self.g(held)
        outs = []
        for (a, b) in ((geo.central_pixel_coordinates, geo.central_scaled_coordinates),
                       (self.direct.central_pixel_coordinates, self.direct.central_scaled_coordinates),
                       (gu.central_pixel_coordinates_2d_from(shape_native=self.sh),
                        gu.central_scaled_coordinate_2d_from(shape_native=self.sh, pixel_scales=self.ps, **self.ko))):
            outs.append(([frac(a[0]), frac(a[1])], [frac(b[0]), frac(b[1])]))
        d = self.direct
        gd = f"(KGeoOf {self.mobj()} ({z2(d.shape_native)}, {q2f(d.pixel_scales)}, {q2f(d.origin)}))"
        return [f"(KCentral2 {self.hdr} {cq(self.tol_p())} {q2(a)} {q2(b)})" for a, b in outs] + self.geo_of(held)[0] + [gd], str(outs[0]), self.prints.ok()
    def extent(self, held=True, fresh_array=True):
        outs = [self.g(held).extent, self.direct.extent]
        if fresh_array: outs.append(self.aa.Array2D.no_mask(values=np.zeros(self.sh), pixel_scales=self.ps, **self.ko).geometry.extent)
        return [f"(KExtent2 {self.hdr} {cq(self.tol_s())} {q4(e)})" for e in outs], str(outs[0]), self.prints.ok()
    def extentgrid(self, held=True):
        ext = self.g(held).extent
        objs = [self.aa.Grid2D.uniform(shape_native=self.sh, pixel_scales=self.ps_pub, **self.ko), self.mask.derive_grid.all_false]
        terms = [f"(KExtentGrid {self.hdr} {cq(self.tol_s())} {q4(ext)} {q2list(fr2(np.array(g)))})" for g in objs]
        terms.append(f"(KUniformC {self.hdr} {cq(self.tol_s())} {cgobj(objs[0])})")
        terms.append(f"(KDeriveAllFalseC {self.mobj()} {cq(self.tol_s())} {cgobj(objs[1])})")
        return terms, str(ext), self.prints.ok()
    def pix(self, c, held=True):
        from autoarray.geometry import geometry_util as gu
        if self.margin_bad([c]): return None
        geo = self.g(held)
        pt = self.coord(c)
        outs = [geo.pixel_coordinates_2d_from(scaled_coordinates_2d=pt),
                gu.pixel_coordinates_2d_from(scaled_coordinates_2d=pt, shape_native=self.sh, pixel_scales=self.ps, **self.kos),
                self.direct.pixel_coordinates_2d_from(scaled_coordinates_2d=pt)]
        # snapping a coordinate to its pixel centre = index -> centre
        snapped = geo.scaled_coordinate_2d_to_scaled_at_pixel_centre_from(scaled_coordinate_2d=pt)
        back = geo.scaled_coordinates_2d_from(pixel_coordinates_2d=outs[0])
        ok = bool(tuple(snapped) == tuple(back)) and self.prints.ok()
        terms = [f"(KPix2 {self.hdr} {q2((F(c[0]), F(c[1])))} {z2((int(o[0]), int(o[1])))})" for o in outs]
        pi = (int(outs[0][0]), int(outs[0][1]))
        tsn = cq(self.tol_s(pi[0] * self.sy, pi[1] * self.sx))
        terms.append(f"(KScaled2 {self.hdr} {q2(pi)} {tsn} {q2((frac(snapped[0]), frac(snapped[1])))})")
        terms.append(f"(KSnap {self.hdr} {q2((F(c[0]), F(c[1])))} {tsn} {q2((frac(snapped[0]), frac(snapped[1])))})")
        return terms, str(outs[0]), ok
    def scaled(self, p, held=True):
        from autoarray.geometry import geometry_util as gu
        pp = self.coord(p, "p")
        outs = [self.g(held).scaled_coordinates_2d_from(pixel_coordinates_2d=pp),
                gu.scaled_coordinates_2d_from(pixel_coordinates_2d=pp, shape_native=self.sh, pixel_scales=self.ps, **self.kos),
                self.direct.scaled_coordinates_2d_from(pixel_coordinates_2d=pp)]
        # sibling entry point: Grid2DIrregular.from_pixels_and_mask converts pixel coordinates through mask.geometry
        irr = np.array(self.aa.Grid2DIrregular.from_pixels_and_mask(pixels=[pp, pp], mask=self.mask))
        outs += [irr[0], irr[1]]
        tol = cq(self.tol_s(F(p[0]) * self.sy, F(p[1]) * self.sx))
        return [f"(KScaled2 {self.hdr} {q2((F(p[0]), F(p[1])))} {tol} {q2((frac(o[0]), frac(o[1])))})" for o in outs], str(outs[0]), self.prints.ok()
    def grid(self, kind, G, held=True):
        """kind in gridpixels / gridcentres / gridindexes / gridscaled; G: the Grid2D object that carries the query points (whatever
        its own shape / pixel scales / history); the points are read from it"""
        from autoarray.geometry import geometry_util as gu
        arr = np.array(G).copy()
        if arr.ndim != 2: raise ValueError("harness: query container is not slim")
        g = fr2(arr)
        if kind in ("gridcentres", "gridindexes") and self.margin_bad(g): return None
        geo = self.g(held)
        gq = q2list(g)
        arr_in = arr.copy()
        Gobj = cgobj(G)               # the Grid2D handed in: its values and its OWN mask object
        if kind == "gridpixels":
            R = geo.grid_pixels_2d_from(grid_scaled_2d=G)
            outs = [np.array(R), gu.grid_pixels_2d_slim_from(grid_scaled_2d_slim=arr_in, **self.kw)]
            tol = cq(self.tol_p(*[p[0] / self.sy for p in g], *[p[1] / self.sx for p in g]))
            terms = [f"(KGeoGrid 0 {self.hdr} {Gobj} {tol} {cgobj(R)})"]
            terms += [f"(KGridPixels {self.hdr} {gq} {tol} {q2list(fr2(o))})" for o in outs[1:] if not same_arr(o, outs[0])]
        elif kind == "gridscaled":
            R = geo.grid_scaled_2d_from(grid_pixels_2d=G)
            outs = [np.array(R), gu.grid_scaled_2d_slim_from(grid_pixels_2d_slim=arr_in, **self.kw)]
            tol = cq(self.tol_s(*[p[0] * self.sy for p in g], *[p[1] * self.sx for p in g]))
            terms = [f"(KGeoGrid 2 {self.hdr} {Gobj} {tol} {cgobj(R)})"]
            terms += [f"(KGridScaled {self.hdr} {gq} {tol} {q2list(fr2(o))})" for o in outs[1:] if not same_arr(o, outs[0])]
        elif kind == "gridcentres":
            R = geo.grid_pixel_centres_2d_from(grid_scaled_2d=G)
            outs = [np.array(R), gu.grid_pixel_centres_2d_slim_from(grid_scaled_2d_slim=arr_in, **self.kw)]
            terms = [f"(KGeoGrid 1 {self.hdr} {Gobj} {cq(0)} {cgobj(R)})"]
            terms += [f"(KGridCentres {self.hdr} {gq} {q2list(fr2(o))})" for o in outs[1:] if not same_arr(o.astype(float), outs[0].astype(float))]
            # the native (3-D) routine on the same points, laid out in the container's own native shape (all-false containers only)
            if not np.array(G.mask).any():
                h, w = G.mask.shape_native
                nat_in = arr.reshape(h, w, 2).copy()
                nat = gu.grid_pixel_centres_2d_from(grid_scaled_2d=nat_in, **self.kw)
                rows_q = clist([q2list(fr2(nat_in[i])) for i in range(h)])
                terms.append(f"(KNative3 {self.hdr} {rows_q} {clist([q2list(fr2(nat[i])) for i in range(h)])})")
                if not same_arr(nat_in, arr.reshape(h, w, 2)): arr_in = None
        else:
            R = geo.grid_pixel_indexes_2d_from(grid_scaled_2d=G)
            outs = [np.array(R), gu.grid_pixel_indexes_2d_slim_from(grid_scaled_2d_slim=arr_in, **self.kw)]
            terms = [f"(KGeoIndexes {self.hdr} {Gobj} ({qlist([frac(v) for v in np.array(R)])}, {cmobj(R.mask)}))"]
            terms += [f"(KGridIndexes {self.hdr} {gq} {qlist([frac(v) for v in o])})" for o in outs[1:] if not same_arr(o.astype(float), outs[0].astype(float))]
        # the caller's objects are left as they were: the Grid2D handed to the method, the array handed to the util function
        ok = arr_in is not None and same_arr(np.array(G), arr) and same_arr(arr_in, arr) and self.prints.ok()
        return terms, str(outs[0].tolist()), ok
    def gridmask(self, siblings=True):
        """the pixel-centre grid of the CURRENT content of the live mask"""
        from autoarray.structures.grids import grid_2d_util as g2u
        aa, H, W, m = self.aa, self.H, self.W, self.m
        marr = self.mask_arg() if isinstance(self.mask_arg(), np.ndarray) else np.array(m, dtype=bool)     # the util routine gets an ndarray of the mask's input dtype
        marr_in = marr.copy()
        objs = [aa.Grid2D.from_mask(mask=self.mask), self.mask.derive_grid.unmasked]
        outs = [np.array(objs[0]), np.array(objs[1]),
                g2u.grid_2d_slim_via_mask_from(mask_2d=marr_in, pixel_scales=self.ps, **self.ko)]
        tol = cq(self.tol_s())
        s, o = q2((self.sy, self.sx)), q2((self.oy, self.ox))
        # identical outputs are judged once: the OBJECT returned by Grid2D.from_mask always; derive_grid.unmasked and the util routine only
        # where what they returned differs from it
        terms = [f"(KFromMaskC {self.mobj()} {tol} {cgobj(objs[0])})"]
        if cgobj(objs[1]) != cgobj(objs[0]): terms.append(f"(KDeriveUnmaskedC {self.mobj()} {tol} {cgobj(objs[1])})")
        terms += [f"(KGridMask {cmask(m)} {s} {o} {tol} {q2list(fr2(ou))})" for ou in outs[2:] if not same_arr(ou, outs[0])]
        ok = same_arr(marr_in, marr) and same_arr(np.array(self.mask), marr.astype(bool)) and self.prints.ok()
        if siblings:
            # the all-false grids of the same geometry: Grid2D.uniform, derive_grid.all_false, the native form of from_mask
            full = [[False] * W for _ in range(H)]
            outs2 = [np.array(aa.Grid2D.uniform(shape_native=self.sh, pixel_scales=self.ps, **self.ko)), np.array(self.mask.derive_grid.all_false)]
            terms += [f"(KGridMask {cmask(full)} {s} {o} {tol} {q2list(fr2(ou))})" for ou in outs2]
            nat = np.array(aa.Grid2D.from_mask(mask=self.mask).native)
            un = [(i, j) for i in range(H) for j in range(W) if not m[i][j]]
            ok = ok and bool(nat.shape == (H, W, 2) and all((nat[i, j] == outs[0][k]).all() for k, (i, j) in enumerate(un))
                             and all((nat[i, j] == 0).all() for i in range(H) for j in range(W) if m[i][j]))
            # the NATIVE util variants: grid_2d_via_mask_from (the slim grid scattered to the mask's pixels) and grid_2d_via_shape_native_from
            nat2 = g2u.grid_2d_via_mask_from(mask_2d=marr_in, pixel_scales=self.ps, **self.ko)
            nat3 = g2u.grid_2d_via_shape_native_from(shape_native=self.sh, pixel_scales=self.ps, **self.ko)
            ok = ok and same_arr(nat2, nat) and same_arr(nat3.reshape(H * W, 2) if nat3.shape == (H, W, 2) else nat3, outs2[0]) and same_arr(marr_in, marr)
        return terms, str(outs[0].tolist()), ok
    def edit(self, at, val):
        """the user's in-place edit of the mask"""
        i, j = at
        if val and sum(1 for r in self.m for b in r if not b) == 1 and not self.m[i][j]: return    # keep one unmasked pixel
        self.mask[i, j] = bool(val); self.m[i][j] = bool(val)

class G1:
    def __init__(self, aa, n, s, o, exact, m=None, kinds=None):
        self.aa = aa; self.exact = exact; self.n = n = int(n); self.s = s = F(s); self.o = o = F(o)
        self.sh, self.ps, self.org = (n,), (fl(s),), (fl(o),)
        self.kinds = kinds = dict(kinds or {}); self.prints = Prints()
        if kinds:
            self.sh = self.prints.add([n] if kinds.get("sh") == "list" else as_kind((n,), kinds.get("sh", "int")))
            self.ps = self.prints.add(as_kind((s,), kinds.get("ps", "tuple"), exact))
            self.org = self.prints.add(as_kind((o,), kinds.get("org", "tuple"), exact))
        self.ko = {} if o == 0 else {"origin": self.org}
        self.kos = {} if o == 0 else {"origins": self.org}
        self.m = list(map(bool, m)) if m is not None else [False] * n
        self.ps_pub = self.ps[0] if (n % 2 and type(self.ps[0]) is float and not kinds) else self.ps      # a bare float is widened by convert_pixel_scales_1d
        self.mask = aa.Mask1D(mask=self.prints.add(self.mask_arg()), pixel_scales=self.ps_pub, **self.ko)
        from autoarray.geometry.geometry_1d import Geometry1D
        self.direct = Geometry1D(shape_native=self.sh, pixel_scales=self.ps, **self.ko)
        self.hdr = f"{cz(n)} {cq(s)} {cq(o)}"
    def tol_s(self, *extra): return tol_of(self.exact, abs(self.o) + self.n * self.s + max([abs(F(e)) for e in extra] + [0]))
    def tol_p(self, *extra): return tol_of(self.exact, self.n + 1 + abs(self.o / self.s) + max([abs(F(e)) for e in extra] + [0]))
    def mask_arg(self):
        k = self.kinds.get("mask", "bool")
        if k == "list": return list(self.m)
        if k == "listint": return [int(b) for b in self.m]
        return np.array(self.m, dtype={"bool": bool, "i64": np.int64, "u8": np.uint8, "f64": np.float64}[k])
    def extent_term(self, e): return f"(KExtent1 {self.hdr} {cq(self.tol_s())} {q2((frac(e[0]), frac(e[1])))})"
    def grid_term(self, m, v): return f"(KGrid1Mask {clist([cbool(b) for b in m])} {cq(self.s)} {cq(self.o)} {cq(self.tol_s())} {qlist([frac(x) for x in v])})"
    def mobj(self): return f"({clist([cbool(b) for b in self.m])}, {cq(self.s)}, {cq(self.o)})"
    def extent(self):
        geo = self.mask.geometry
        e = geo.extent
        gt = f"(KGeoOf1 {self.mobj()} ({cz(geo.shape_native[0])}, {cq(frac(geo.pixel_scales[0]))}, {cq(frac(geo.origin[0]))}))"
        return [self.extent_term(e), self.extent_term(self.direct.extent), gt], str(e), self.prints.ok()
    def gridmask(self):
        from autoarray.structures.grids import grid_1d_util as g1u
        marr = self.mask_arg() if isinstance(self.mask_arg(), np.ndarray) else np.array(self.m, dtype=bool)
        marr_in = marr.copy()
        G = self.aa.Grid1D.from_mask(mask=self.mask)
        outs = [np.array(G), g1u.grid_1d_slim_via_mask_from(mask_1d=marr_in, pixel_scales=self.ps, **self.ko)]
        terms = [self.grid_term(self.m, ou) for ou in outs]
        terms.append(f"(KFromMask1C {self.mobj()} {cq(self.tol_s())} {cg1obj(G)})")
        return terms, str(outs[0].tolist()), same_arr(marr_in, marr) and same_arr(np.array(self.mask), marr.astype(bool)) and self.prints.ok()
    def uniform(self):
        from autoarray.structures.grids import grid_1d_util as g1u
        U = self.aa.Grid1D.uniform(shape_native=self.sh, pixel_scales=self.ps_pub, **self.ko)
        u = np.array(U)
        u2 = g1u.grid_1d_slim_via_shape_slim_from(shape_slim=self.sh, pixel_scales=self.ps, **self.ko)
        terms = [self.grid_term([False] * self.n, u), self.grid_term([False] * self.n, u2), f"(KUniform1C {self.hdr} {cq(self.tol_s())} {cg1obj(U)})"]
        for inv in (False, True):
            A = self.aa.Mask1D.all_false(shape_slim=self.sh, pixel_scales=self.ps_pub, **self.ko, invert=inv)
            terms.append(f"(KAllFalse1C {self.hdr} {cbool(inv)} {cm1obj(A)})")
        # sibling constructor Grid1D.uniform_from_zero: the pixel centres of the origin-0 geometry shifted so that the first is 0, i.e. k * s
        Z0 = self.aa.Grid1D.uniform_from_zero(shape_native=self.sh, pixel_scales=self.ps_pub)
        terms.append(f"(KUniformFromZero1 {cz(self.n)} {cq(self.s)} {cq(tol_of(self.exact, self.n * self.s))} {cg1obj(Z0)})")
        return terms, str(u.tolist()), self.prints.ok()
    def edit(self, at, val):
        if val and sum(1 for b in self.m if not b) == 1 and not self.m[at]: return
        self.mask[at] = bool(val); self.m[at] = bool(val)

def run_case(inp):
    aa = import_aa()
    from autoarray.geometry import geometry_util as gu
    from autoarray.mask import mask_2d_util as mu
    op = inp["op"]
    exact = inp["exact"]
    base = {"kind": op + (":exact" if exact else ":tol"), "nontrivial": nontrivial(inp), "py_ok": None}
    def done(terms, out, ok=None):
        terms = list(dict.fromkeys(terms))      # public entry point and util function normally return the same thing: one Coq case
        if ok is not None: base["py_ok"] = bool(ok) if base["py_ok"] is None else (base["py_ok"] and bool(ok))
        return dict(base, coq=terms[0], extra_coq=terms[1:], out=out)
    def skip():
        SKIPPED["inband"] += 1
        return dict(base, coq=None, out="skipped: inside the decision band", kind="skipped-inband", nontrivial=False)
    def finish(r):
        return skip() if r is None else done(*r)

    if op in GEOM_OPS:
        g2 = G2(aa, inp["shape"], inp["s"], inp["o"], exact, m=inp.get("m"))
        if op == "central2": return finish(g2.central())
        if op == "extent2": return finish(g2.extent())
        if op == "extentgrid": return finish(g2.extentgrid())
        if op == "pix2": return finish(g2.pix(inp["c"]))
        if op == "scaled2": return finish(g2.scaled(inp["p"]))
        if op == "gridmask": return finish(g2.gridmask())
        return finish(g2.grid(op, grid_obj(aa, inp["g"], inp.get("cont"))))

    if op == "kinds":
        # the SAME argument objects serve every call of the case (a second call sees whatever a first call did to them)
        g2 = G2(aa, inp["shape"], inp["s"], inp["o"], exact, m=inp["m"], kinds=inp["kinds"])
        acc = Acc()
        steps = [lambda: g2.central(True), lambda: g2.extent(False), lambda: g2.extentgrid(True), lambda: g2.gridmask()]
        def with_kind(which, k, f):
            g2.kinds[which] = k
            return f()
        steps += [(lambda c=c, i=i: with_kind("c", inp["ck"][i % len(inp["ck"])], lambda: g2.pix(c, bool(i % 2)))) for i, c in enumerate(inp["pts"][:4])]
        steps += [(lambda p=p, i=i: with_kind("p", inp["pk"][i % len(inp["pk"])], lambda: g2.scaled(p, bool(i % 2)))) for i, p in enumerate(inp["pix"])]
        gk = inp["gk"]; c0, c1 = inp["cont"]
        steps += [lambda: g2.grid("gridpixels", grid_obj(aa, inp["pts"], c0, gk[0], exact)), lambda: g2.grid("gridcentres", grid_obj(aa, inp["pts"], c0, gk[1], exact), False),
                  lambda: g2.grid("gridindexes", grid_obj(aa, inp["pts"], c0, gk[2], exact)), lambda: g2.grid("gridscaled", grid_obj(aa, inp["pix"], c1, gk[3], exact), False),
                  lambda: g2.extent(True), lambda: g2.gridmask(siblings=False)]
        for st in steps:
            r = st()
            if r is None: acc.skipped += 1; continue
            acc.add(*r)
        return done(acc.terms, acc.out, acc.py_ok())

    if op == "kinds1":
        g1 = G1(aa, inp["n"], inp["s"], inp["o"], exact, m=inp["m"], kinds=inp["kinds"])
        acc = Acc()
        for st in (g1.extent, g1.gridmask, g1.uniform, g1.gridmask, g1.extent): acc.add(*st())
        return done(acc.terms, acc.out, acc.py_ok())

    if op == "session":
        pool = [G2(aa, o["shape"], o["s"], o["o"], exact, m=o["m"]) for o in inp["objs"]]
        acc = Acc()
        for st in inp["steps"]:
            g2 = pool[st["k"]]; do = st["do"]; held = st.get("held", True)
            if do == "edit": g2.edit(st["at"], st["val"]); continue
            if do == "extent": r = g2.extent(held, fresh_array=False)
            elif do == "central": r = g2.central(held)
            elif do == "extentgrid": r = g2.extentgrid(held)
            elif do == "pix": r = g2.pix(st["c"], held)
            elif do == "scaled": r = g2.scaled(st["p"], held)
            elif do == "grid": r = g2.gridmask(siblings=False)
            elif do == "regrid":
                kind = {"gc": "gridcentres", "gi": "gridindexes", "gp": "gridpixels"}[st["which"]]
                G = grid_obj(aa, st["g"], st["cont"])
                r = g2.grid(kind, G, held)
                if r is None: acc.skipped += 1
                else: acc.add(*r)
                for k, pnt in enumerate(st["g2"]): G[k] = (fl(pnt[0]), fl(pnt[1]))
                r = g2.grid(kind, G, held)
            else: r = g2.grid({"gc": "gridcentres", "gi": "gridindexes", "gp": "gridpixels", "gs": "gridscaled"}[do], grid_obj(aa, st["g"], st["cont"]), held)
            if r is None: acc.skipped += 1; continue
            acc.add(*r)
        if not acc.terms: return skip()
        return done(acc.terms, acc.out, acc.py_ok())

    if op == "session1":
        pool = [G1(aa, o["n"], o["s"], o["o"], exact, m=o["m"]) for o in inp["objs"]]
        acc = Acc()
        for st in inp["steps"]:
            g1 = pool[st["k"]]; do = st["do"]
            if do == "edit": g1.edit(st["at"], st["val"]); continue
            acc.add(*(g1.extent() if do == "extent" else g1.gridmask() if do == "grid" else g1.uniform()))
        if not acc.terms: return skip()
        return done(acc.terms, acc.out, acc.py_ok())

    if op == "derived":
        g2 = G2(aa, inp["shape"], inp["s"], inp["o"], exact, m=inp.get("m"))
        H, W = g2.sh
        acc = Acc()
        how = inp["how"]
        if how == "array":
            # structures DERIVED from a constructed Array2D / Grid2D carry the geometry of the original
            arr = aa.Array2D.no_mask(values=np.arange(1.0, H * W + 1.0).reshape(H, W), pixel_scales=g2.ps_pub, **g2.ko)
            grd = aa.Grid2D.uniform(shape_native=g2.sh, pixel_scales=g2.ps_pub, **g2.ko)
            ders = [arr * 2.0, arr + arr, arr.native, arr.slim, arr.native.slim, (arr - 1.0).native, grd.native, grd * 1.0, grd.native.slim,
                    aa.Grid2D.from_mask(mask=g2.mask), g2.mask.derive_grid.all_false, g2.mask.derive_mask.all_false]
            c = inp["c"]
            for d in ders:
                e = d.geometry.extent
                acc.add([f"(KExtent2 {g2.hdr} {cq(g2.tol_s())} {q4(e)})"], str(e))
                if not g2.margin_bad([c]):
                    p = d.geometry.pixel_coordinates_2d_from(scaled_coordinates_2d=(fl(c[0]), fl(c[1])))
                    acc.add([f"(KPix2 {g2.hdr} {q2((F(c[0]), F(c[1])))} {z2((int(p[0]), int(p[1])))})"])
            # the values of a derived uniform grid are still the pixel centres
            full = cmask([[False] * W for _ in range(H)])
            for d in (grd * 1.0, grd.native.slim, grd.slim):
                acc.add([f"(KGridMask {full} {q2((g2.sy, g2.sx))} {q2((g2.oy, g2.ox))} {cq(g2.tol_s())} {q2list(fr2(np.array(d)))})"])
        elif how == "mask":
            # masks derived from the live mask: same pixel scales and origin, their own shape / content (read from the object)
            ders = [g2.mask.derive_mask.all_false, g2.mask.resized_from(new_shape=tuple(inp["resized"])),
                    aa.Mask2D(mask=g2.mask, pixel_scales=g2.ps, **g2.ko)]
            for d in ders:
                content = np.array(d).astype(bool).tolist()
                dg = G2(aa, (len(content), len(content[0])), (g2.sy, g2.sx), (g2.oy, g2.ox), exact, m=content)
                dg.mask = d; dg.geo = d.geometry
                acc.add(*dg.extent(True, fresh_array=False)); acc.add(*dg.gridmask(siblings=False)); acc.add(*dg.central(False))
            # a COPY with a history: read the original (anything remembered on the object is now there), copy it, edit the copy in place,
            # read both again -- the copy reports its own content, the original is untouched
            import copy
            acc.add(*g2.gridmask(siblings=False))
            for cp in (g2.mask.copy(), copy.deepcopy(g2.mask)):
                cg = G2(aa, g2.sh, (g2.sy, g2.sx), (g2.oy, g2.ox), exact, m=g2.m)
                cg.mask = cp; cg.geo = cp.geometry
                i, j = (H * 7 + W) % H, (H + W * 5) % W
                cg.edit((i, j), not g2.m[i][j])
                acc.add(*cg.gridmask(siblings=False)); acc.add(*cg.extent(False, fresh_array=False))
            acc.add(*g2.gridmask(siblings=False))
        else:
            oth = inp["other"]
            og = G2(aa, oth["shape"], oth["s"], oth["o"], exact, m=oth["m"])
            G0 = grid_obj(aa, inp["g"], inp["cont"])
            conts = [G0 * 1.0, G0 + 0.0, G0.native.slim, aa.Grid2D(values=np.array(G0.native), mask=G0.mask), G0.slim,
                     aa.Grid2D.from_mask(mask=og.mask), og.mask.derive_grid.all_false, aa.Grid2D.from_mask(mask=og.mask) * 1.0]
            for ci, G in enumerate(conts):
                for kind in (("gridcentres", "gridindexes", "gridpixels") if ci % 2 == 0 else ("gridindexes", "gridcentres")):
                    r = g2.grid(kind, G, held=bool(ci % 2))
                    if r is None: acc.skipped += 1
                    else: acc.add(*r)
        if not acc.terms: return skip()
        return done(acc.terms, acc.out, acc.py_ok())

    if op == "derived1":
        g1 = G1(aa, inp["n"], inp["s"], inp["o"], exact, m=inp["m"])
        acc = Acc()
        arr = aa.Array1D.no_mask(values=np.arange(1.0, g1.n + 1.0), pixel_scales=g1.ps, **g1.ko)
        grd = aa.Grid1D.from_mask(mask=g1.mask)
        for d in (arr * 2.0, arr + arr, arr.native, arr.slim, grd, grd * 1.0, grd.native, grd.native.slim):
            acc.add([g1.extent_term(d.geometry.extent)], str(d.geometry.extent))
        for d in (grd * 1.0, grd.native.slim, grd.slim):
            acc.add([g1.grid_term(g1.m, np.array(d))])
        nat = np.array(grd.native); sl = np.array(grd)
        un = [j for j in range(g1.n) if not g1.m[j]]
        acc.add([], ok=bool(nat.shape == (g1.n,) and all(nat[j] == sl[k] for k, j in enumerate(un)) and all(nat[j] == 0 for j in range(g1.n) if g1.m[j])))
        return done(acc.terms, acc.out, acc.py_ok())

    if op == "derive1allfalse":
        # Mask1D.derive_grid.all_false: every pixel's centre with the all-false mask.  KNOWN FINDING on masks with a masked pixel
        # (fixes/C02_derive_grid_1d_all_false.diff): the key is computed from the input alone
        g1 = G1(aa, inp["n"], inp["s"], inp["o"], exact, m=inp["m"])
        r = done([f"(KDeriveAllFalse1 {g1.mobj()} {cq(g1.tol_s())} {cg1obj(g1.mask.derive_grid.all_false)})"], "see coq case")
        if any(inp["m"]): r["finding"] = "derive_grid_1d_all_false_masked"
        return r

    if op in GEOM1_OPS:
        g1 = G1(aa, inp["n"], inp["s"], inp["o"], exact, m=inp.get("m"))
        n, s, o, hdr, sh, ps, org = g1.n, g1.s, g1.o, g1.hdr, g1.sh, g1.ps, g1.org
        if op == "central1":
            a = gu.central_pixel_coordinates_1d_from(shape_slim=sh)
            b = gu.central_scaled_coordinate_1d_from(shape_slim=sh, pixel_scales=ps, **g1.ko)
            return done([f"(KCentral1 {hdr} {cq(g1.tol_p())} {cq(frac(a[0]))} {cq(frac(b[0]))})"], str((a, b)))
        if op == "extent1":
            mk = aa.Mask1D.all_false(shape_slim=sh, pixel_scales=ps, **g1.ko)
            return done([g1.extent_term(mk.geometry.extent)], str(mk.geometry.extent))
        if op == "pix1":
            x = F(inp["x"])
            if (not exact) and in_margin(pixel_pos(n, s, o, x, False)): return skip()
            r = gu.pixel_coordinates_1d_from(scaled_coordinates_1d=(fl(x),), shape_slim=sh, pixel_scales=ps, **g1.kos)
            return done([f"(KPix1 {hdr} {cq(x)} {cz(int(r[0]))})"], str(r))
        if op == "scaled1":
            p = F(inp["p"])
            r = gu.scaled_coordinates_1d_from(pixel_coordinates_1d=(fl(p),), shape_slim=sh, pixel_scales=ps, **g1.kos)
            return done([f"(KScaled1 {hdr} {cq(p)} {cq(g1.tol_s(p * s))} {cq(frac(r[0]))})"], str(r))
        if op == "grid1mask":
            t1, out, ok = g1.gridmask()
            t2, _, _ = g1.uniform()
            t3, _, _ = g1.extent()
            return done(t1 + t2 + t3, out, ok)

    if op in ("circ", "ann", "anti", "ell", "ellann"):
        if mask_case_inband(inp): return skip()
        H, W = inp["shape"]; sy, sx = F(inp["s"][0]), F(inp["s"][1]); cy, cx = F(inp["c"][0]), F(inp["c"][1])
        sh, ps, ctr = (H, W), (fl(sy), fl(sx)), (fl(cy), fl(cx))
        org = (fl(inp["origin"][0]), fl(inp["origin"][1]))
        inv = bool(inp.get("invert", False))
        hdr = f"{z2(sh)} {q2((sy, sx))}"
        cc = q2((cy, cx))
        kd = inp.get("kinds") or {}
        prints = Prints()
        a_sh, a_ps, a_ctr, a_org = sh, ps, ctr, org
        if kd:
            ex = exact and inp.get("mag", 0) == 0
            a_sh = prints.add([H, W] if kd["sh"] == "list" else as_kind((H, W), kd["sh"]))
            a_ps = prints.add(as_kind((sy, sx), kd["ps"], ex)); a_ctr = prints.add(as_kind((cy, cx), kd["c"], ex))
            a_org = prints.add(as_kind((F(inp["origin"][0]), F(inp["origin"][1])), kd["origin"], ex))
            fl_r = lambda x: scalar_kind(x, kd["r"], ex)
        else: fl_r = fl
        kw = dict(shape_native=a_sh, pixel_scales=a_ps, **({} if (cy == 0 and cx == 0) else {"centre": a_ctr}))     # defaults are not passed
        korg = {} if org == (0.0, 0.0) else {"origin": a_org}
        kwp = dict(kw, pixel_scales=ps[0]) if (sy == sx and (H + W) % 2 and not kd) else dict(kw)      # public entry point: bare float scale
        kwp.update(**korg, **({"invert": True} if inv else {}))
        ctail = f"{q2((sy, sx))} {q2((F(inp['origin'][0]), F(inp['origin'][1])))} {cc} {cbool(inv)}"      # pixel_scales origin centre invert
        if op == "circ":
            r = F(inp["r"][0])
            outs = [aa.Mask2D.circular(radius=fl_r(r), **kwp), mu.mask_2d_circular_from(radius=fl_r(r), **kw)]
            mk = lambda o: f"(KCirc {hdr} {cq(r)} {cc} {cmask(o)})"
            mkc = lambda M: f"(KCircC {z2(sh)} {cq(r)} {ctail} {cmobj(M)})"
        elif op == "ann":
            a, b = F(inp["r"][0]), F(inp["r"][1])
            outs = [aa.Mask2D.circular_annular(inner_radius=fl_r(a), outer_radius=fl_r(b), **kwp),
                    mu.mask_2d_circular_annular_from(inner_radius=fl_r(a), outer_radius=fl_r(b), **kw)]
            mk = lambda o: f"(KAnn {hdr} {cq(a)} {cq(b)} {cc} {cmask(o)})"
            mkc = lambda M: f"(KAnnC {z2(sh)} {cq(a)} {cq(b)} {ctail} {cmobj(M)})"
        elif op == "anti":
            a, b, c3 = (F(v) for v in inp["r"])
            outs = [aa.Mask2D.circular_anti_annular(inner_radius=fl_r(a), outer_radius=fl_r(b), outer_radius_2=fl_r(c3), **kwp),
                    mu.mask_2d_circular_anti_annular_from(inner_radius=fl_r(a), outer_radius=fl_r(b), outer_radius_2_scaled=fl_r(c3), **kw)]
            mk = lambda o: f"(KAnti {hdr} {cq(a)} {cq(b)} {cq(c3)} {cc} {cmask(o)})"
            mkc = lambda M: f"(KAntiC {z2(sh)} {cq(a)} {cq(b)} {cq(c3)} {ctail} {cmobj(M)})"
        elif op == "ell":
            R, q, ang, co, si = (F(v) for v in inp["ell"][0])
            check_cs(ang, co, si)
            outs = [aa.Mask2D.elliptical(major_axis_radius=fl_r(R), axis_ratio=fl_r(q), angle=fl_r(ang), **kwp),
                    mu.mask_2d_elliptical_from(major_axis_radius=fl_r(R), axis_ratio=fl_r(q), angle=fl_r(ang), **kw)]
            mk = lambda o: f"(KEll {hdr} {cq(R)} {cq(q)} {q2((co, si))} {cc} {cmask(o)})"
            mkc = lambda M: f"(KEllC {z2(sh)} {cq(R)} {cq(q)} {q2((co, si))} {ctail} {cmobj(M)})"
        else:
            (Ri, qi, ai, ci, si_), (Ro, qo, ao, co, so) = [[F(v) for v in e] for e in inp["ell"]]
            check_cs(ai, ci, si_); check_cs(ao, co, so)
            k2 = dict(inner_major_axis_radius=fl_r(Ri), inner_axis_ratio=fl_r(qi), inner_phi=fl_r(ai),
                      outer_major_axis_radius=fl_r(Ro), outer_axis_ratio=fl_r(qo), outer_phi=fl_r(ao))
            outs = [aa.Mask2D.elliptical_annular(**k2, **kwp), mu.mask_2d_elliptical_annular_from(**k2, **kw)]
            mk = lambda o: f"(KEllAnn {hdr} {cq(Ri)} {cq(qi)} {q2((ci, si_))} {cq(Ro)} {cq(qo)} {q2((co, so))} {cc} {cmask(o)})"
            mkc = lambda M: f"(KEllAnnC {z2(sh)} {cq(Ri)} {cq(qi)} {q2((ci, si_))} {cq(Ro)} {cq(qo)} {q2((co, so))} {ctail} {cmobj(M)})"
        pub = outs[0]
        ok = bool(tuple(pub.origin) == org and tuple(pub.pixel_scales) == ps and tuple(pub.shape_native) == sh) and prints.ok()
        pubm = np.array(pub).astype(bool)
        # the util routine's array, and the OBJECT the public constructor returned (content -- complemented when invert=True --, pixel scales, origin)
        utilm = np.array(outs[1]).astype(bool)
        terms = [mkc(pub)] + ([] if same_arr(utilm, ~pubm if inv else pubm) else [mk(utilm)])      # the util array is judged separately only where it differs
        af = aa.Mask2D.all_false(shape_native=a_sh, pixel_scales=kwp["pixel_scales"], **korg, invert=inv)
        terms.append(f"(KAllFalseC {z2(sh)} {q2((sy, sx))} {q2((F(inp['origin'][0]), F(inp['origin'][1])))} {cbool(inv)} {cmobj(af)})")
        # the pixel-centre grid of the constructed mask is placed with the mask's origin
        gt = G2(aa, sh, (sy, sx), (F(inp["origin"][0]), F(inp["origin"][1])), exact, m=pubm.tolist())
        gt.mask = pub; gt.geo = pub.geometry
        if pubm.sum() < pubm.size and (H + W + len(inp["r"] if "r" in inp else inp["ell"])) % 2 == 0:
            t2, _, ok2 = gt.gridmask(siblings=False); terms += t2; ok = ok and ok2
        terms += gt.extent(False, fresh_array=False)[0]
        # mask_2d_centres_from: the pixel position of the requested centre
        mc = mu.mask_2d_centres_from(shape_native=a_sh, pixel_scales=a_ps, centre=a_ctr)
        ok = ok and prints.ok()
        tolp = tol_of(exact, max(H, W) + 1 + max(abs(cy / sy), abs(cx / sx)))
        terms.append(f"(KMaskCentres {hdr} {cc} {cq(tolp)} {q2((frac(mc[0]), frac(mc[1])))})")
        return done(terms, str(pubm.astype(int).tolist()), ok)
    raise ValueError(op)
