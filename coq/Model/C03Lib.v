(* C03 -- auxiliary executable definitions used in the theorem statements (kernel-type independent
   versions of the spec helpers of Model/C03.v).  No proofs here. *)
From Coq Require Import ZArith List Bool.
From PAV Require Import Base.Res Base.NumOps Base.Sum Model.C03.
Import ListNotations.
Local Open Scope Z_scope.

(* every kernel footprint of an unmasked pixel stays inside the frame (the condition under which
   blurring_mask_2d_from does not raise) *)
Definition footprints_in (m : mask) (kh kw : Z) : bool :=
  forallb (fun p => forallb (inframe m) (footprint kh kw p)) (unmasked m).
Definition oddb (k : Z) : bool := negb (k mod 2 =? 0).
(* the blurring region as a set: masked pixels of the frame within (hy, hx) of some unmasked pixel *)
Definition blur_region (m : mask) (hy hx : Z) : mask :=
  map (fun y => map (fun x =>
      negb (mz m (y, x) && existsb (fun p => (Z.abs (fst p - y) <=? hy) && (Z.abs (snd p - x) <=? hx)) (unmasked m)))
    (seqZ 0 (cols m))) (seqZ 0 (rows m)).
(* same shape: a native image on the mask's frame *)
Definition same_shape {A B} (g : list (list A)) (m : list (list B)) : bool :=
  Nat.eqb (length g) (length m) && forallb (fun r => Nat.eqb (length r) (length (hd [] m))) g.

Section Lib.
  Context {O : NumOps}.
  (* slim values of a native image on a pixel list *)
  Definition slim_of (g : list (list (T O))) (ps : list px) : list (T O) := map (img_fun g) ps.
  (* a*u + b*v entrywise *)
  Definition lincomb (a : T O) (u : list (T O)) (b : T O) (v : list (T O)) : list (T O) :=
    map (fun uv => add O (mul O a (fst uv)) (mul O b (snd uv))) (combine u v).
  (* the pixel whose value reaches the target pixel t through kernel cell ab (flipped, centred kernel) *)
  Definition shift_src (K : list (list (T O))) (t : px) (ab : Z * Z) : px :=
    (fst t + rows K / 2 - fst ab, snd t + cols K / 2 - snd ab).
  (* a one-hot kernel (unit shift / basis kernel): entry c at cell ab, zero at every other cell (statement helper, a Prop) *)
  Definition one_hot (K : list (list (T O))) (ab : Z * Z) (c : T O) : Prop :=
    (0 <= fst ab < rows K /\ 0 <= snd ab < cols K) /\ getZ zero K ab = c /\
    forall ij, (0 <= fst ij < rows K /\ 0 <= snd ij < cols K) -> ij <> ab -> getZ zero K ij = zero.
End Lib.
