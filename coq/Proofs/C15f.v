(* C15f -- the factory's choice between the two formalisms is value-free FOR THE CONCRETE C04 KERNELS:
   Model/C15.v's structural code (block-assignment programs, np.hstack, mirror, diagonal term) executed with the kernels
   [c04k] computes, for the translated list of linear objects, exactly what the C04 model (Model/C04.v: D_wt / D_mapping /
   F_wt / F_mapping / mapped_wt / mapped_mapping) computes; C04's theorems (Proofs/C04.v, C04b.v) then give
   D_wtilde = D_mapping, F_wtilde = F_mapping and the mapped data, as equal lists, for every well-formed input. *)
From Coq Require Import ZArith Reals Lra Lia List Bool Arith.
From PAV Require Import Base.Res Base.Check Base.NumOps Base.Sum Model.C03 Model.C03Lib Model.C04 Model.C04Lib Proofs.C04 Proofs.C04b.
From PAV Require Import Model.C15 Model.C15k Proofs.C15 Proofs.C15k.
Import ListNotations.
Local Open Scope R_scope.

(* ================================================================================================ *)
(* Part A: index-mapped lists                                                                        *)
Lemma imap_length {A} (f : nat -> A -> A) l : forall k, length (imap f k l) = length l.
Proof. induction l as [|a l IH]; intro k; simpl; [reflexivity|now rewrite IH]. Qed.
Lemma nth_imap {A} (f : nat -> A -> A) d l : forall k i, (i < length l)%nat -> nth i (imap f k l) d = f (k + i)%nat (nth i l d).
Proof.
  induction l as [|a l IH]; intros k i Hi; simpl in *; [lia|]. destruct i as [|i].
  - now rewrite Nat.add_0_r.
  - rewrite IH by lia. f_equal. lia.
Qed.

Lemma skipn_add {A} (l : list A) : forall a b, skipn a (skipn b l) = skipn (b + a) l.
Proof.
  induction l as [|x l IH]; intros a b; [now rewrite !skipn_nil|]. destruct b as [|b]; [reflexivity|]. simpl. apply IH.
Qed.

Section Structure.
  Variable K : kernels R.
  Hypothesis Kz : t0 K = 0.

  (* ---- v[lo:hi] = b  is C04's set_slice ---- *)
  Lemma apply_vw_set_slice (v b : Rvec) lo : (lo + length b <= length v)%nat ->
    apply_vw K v {| vw_lo := lo; vw_hi := lo + length b; vw_b := b |} = @set_slice ROps v lo b.
  Proof.
    intro H. unfold set_slice. rfix.
    set (pre := firstn lo v). set (mid := firstn (length b) (skipn lo v)). set (suf := skipn (lo + length b) v).
    assert (Hv : v = pre ++ mid ++ suf).
    { unfold pre, mid, suf. rewrite <- (firstn_skipn lo v) at 1. f_equal.
      rewrite <- (firstn_skipn (length b) (skipn lo v)) at 1. f_equal. now rewrite skipn_add. }
    assert (Hp : length pre = lo) by (unfold pre; rewrite firstn_length; lia).
    assert (Hm : length mid = length b) by (unfold mid; rewrite firstn_length, skipn_length; lia).
    rewrite Hv at 1. rewrite <- Hp at 1 2. apply (apply_vw_block R K pre mid suf b Hm).
  Qed.

  (* ---- m[r0:r1, c0:c1] = b, entry by entry ---- *)
  Lemma shape_apply_mw N (M : Rmat) w : shape N N M -> shape N N (apply_mw K M w).
  Proof.
    intros [H1 H2]. split; [|intros a Ha]; unfold C04.mat in *; rfix; unfold apply_mw; [now rewrite imap_length|].
    rewrite (nth_imap _ []) by lia. cbn [plus]. destruct (in_rng (mw_r0 w) (mw_r1 w) a); [rewrite imap_length|]; now apply H2.
  Qed.
  Lemma mget_apply_mw N (M : Rmat) w a b : shape N N M -> (a < N)%nat -> (b < N)%nat ->
    mgetR (apply_mw K M w) a b =
    if in_rng (mw_r0 w) (mw_r1 w) a && in_rng (mw_c0 w) (mw_c1 w) b
    then nth (b - mw_c0 w) (nth (a - mw_r0 w) (mw_b w) []) 0 else mgetR M a b.
  Proof.
    intros [H1 H2] Ha Hb. rewrite !mget_R. fixR. unfold apply_mw.
    rewrite (nth_imap _ []) by lia. cbn [plus]. destruct (in_rng (mw_r0 w) (mw_r1 w) a); cbn [andb]; [|reflexivity].
    rewrite (nth_imap _ 0) by (rewrite H2; lia). cbn [plus]. rewrite Kz. destruct (in_rng (mw_c0 w) (mw_c1 w) b); reflexivity.
  Qed.
  Lemma shape_apply_mws N ws : forall (M : Rmat), shape N N M -> shape N N (apply_mws K M ws).
  Proof. induction ws as [|w ws IH]; intros M H; [exact H|]. unfold apply_mws in *. simpl. apply IH. now apply shape_apply_mw. Qed.

  (* a C04 block assignment and the corresponding C15 block assignment keep two square matrices entry-wise equal *)
  Definition eqN (N : nat) (A B : Rmat) : Prop := forall a b, (a < N)%nat -> (b < N)%nat -> mgetR A a b = mgetR B a b.
  Lemma block_step N (A B Bk : Rmat) r0 c0 h w : shape N N A -> shape N N B -> eqN N A B -> shape h w Bk ->
    (r0 + h <= N)%nat -> (c0 + w <= N)%nat ->
    eqN N (apply_mw K A {| mw_r0 := r0; mw_r1 := r0 + h; mw_c0 := c0; mw_c1 := c0 + w; mw_b := Bk |}) (@set_block ROps B r0 c0 Bk).
  Proof.
    intros HA HB He Hk Hr Hc a b Ha Hb. rewrite (mget_apply_mw N) by assumption. cbn [mw_r0 mw_r1 mw_c0 mw_c1 mw_b].
    destruct (set_block_spec N B Bk r0 c0 h w HB Hk Hr Hc) as [_ S]. rewrite S. unfold in_rng.
    destruct (Nat.leb r0 a && Nat.ltb a (r0 + h) && (Nat.leb c0 b && Nat.ltb b (c0 + w))); [|now apply He].
    now rewrite mget_R.
  Qed.
End Structure.

(* ================================================================================================ *)
(* Part B: the list of linear objects of Model/C15.v as a list of C04 linear objects                  *)
Lemma pairs_lt_same {A} (l : list A) : C15.pairs_lt l = C04.pairs_lt l.
Proof. induction l as [|x l IH]; simpl; [reflexivity|]. now rewrite IH. Qed.
Lemma flat_map_list_prod {A B C} (f : A -> B -> C) (l1 : list A) (l2 : list B) :
  flat_map (fun x => map (fun y => f x y) l2) l1 = map (fun p => f (fst p) (snd p)) (list_prod l1 l2).
Proof. induction l1 as [|a l1 IH]; simpl; [reflexivity|]. rewrite map_app, map_map, IH. reflexivity. Qed.
Lemma map_snd_enum {A} (l : list A) : map snd (enum l) = l.
Proof.
  unfold enum. generalize 0%nat. induction l as [|a l IH]; intro k; simpl; [reflexivity|]. now rewrite IH.
Qed.
Lemma list_prod_map' {A B C D} (f : A -> B) (g : C -> D) l l' :
  list_prod (map f l) (map g l') = map (fun p => (f (fst p), g (snd p))) (list_prod l l').
Proof. apply list_prod_map. Qed.
Lemma in_list_prod {A B} (l : list A) (l' : list B) p : In p (list_prod l l') -> In (fst p) l /\ In (snd p) l'.
Proof. destruct p as [a b]. intro H. apply in_prod_iff in H. exact H. Qed.

Lemma fold_list_prod_enum {X Y Z} (f : Z -> X * Y -> Z) (l1 : list X) (l2 : list Y) z :
  fold_left f (list_prod l1 l2) z = fold_left (fun a p => f a (snd (fst p), snd (snd p))) (list_prod (enum l1) (enum l2)) z.
Proof.
  rewrite <- (map_snd_enum l1) at 1. rewrite <- (map_snd_enum l2) at 1. rewrite list_prod_map'. now rewrite fold_left_map.
Qed.

Section Bridge.
  Variable c : @convolver ROps.
  Variable m : mask.
  Variable Kp : @kernel ROps.
  Variable encf : Rmat -> @C04.enc ROps.
  Variable dec : Rmat -> Rvec * list nat * list nat.
  Variable slv : Rmat -> Rvec -> res Rvec.
  Variable ldc ldr : Rmat -> res R.
  Notation KR := (KR c m Kp encf dec slv ldc ldr).
  Notation opm := (opm c).
  Variable inp : input R.
  Variable np : nat.
  Hypothesis WF : wf_input c encf np inp.

  Definition to04 (x : lobj R) : @C04.lobj ROps :=
    if lo_mapper x then @LMapper ROps (encf (lo_mm x)) (lo_mm x) (lo_p x) (is_some (lo_reg x))
    else @LFunc ROps (lo_mm x) (lo_ovr x) (lo_p x) (is_some (lo_reg x)).
  Definition objs4 : list (@C04.lobj ROps) := map to04 (objs inp).
  Lemma params_to04 x : params (to04 x) = lo_p x.
  Proof. unfold to04. destruct (lo_mapper x); reflexivity. Qed.
  Lemma is_mapper_to04 x : is_mapper (to04 x) = lo_mapper x.
  Proof. unfold to04. destruct (lo_mapper x); reflexivity. Qed.
  Lemma is_func_to04 x : is_func (to04 x) = negb (lo_mapper x).
  Proof. unfold is_func. now rewrite is_mapper_to04. Qed.
  Lemma has_reg_to04 x : C04.has_reg (to04 x) = is_some (lo_reg x).
  Proof. unfold to04. destruct (lo_mapper x); reflexivity. Qed.
  Lemma enc_of_to04 x : lo_mapper x = true -> enc_of (to04 x) = encf (lo_mm x).
  Proof. unfold to04. intros ->. reflexivity. Qed.
  Lemma obj_wf x : In x (objs inp) -> if lo_mapper x then wf_mapper encf np x else wf_func c np x.
  Proof. destruct WF as (_ & _ & W). apply W. Qed.
  Lemma opmat_to04 x : In x (objs inp) -> opmat c (to04 x) = opm x.
  Proof.
    intro Hx. pose proof (obj_wf x Hx) as W. unfold to04, C15k.opm. destruct (lo_mapper x).
    - destruct W as (_ & Hov & _). rewrite Hov. reflexivity.
    - cbn [opmat]. destruct (lo_ovr x); reflexivity.
  Qed.
  Lemma opm_shape x : In x (objs inp) -> shape np (lo_p x) (opm x) /\ (0 < lo_p x)%nat.
  Proof.
    intro Hx. pose proof (obj_wf x Hx) as W. destruct (lo_mapper x).
    - destruct W as (Hp & Hov & HM & HP & _). split; [|exact Hp]. unfold C15k.opm. rewrite Hov.
      pose proof (shape_convolve_matrix c (lo_mm x)) as Hcs. fixR. now rewrite HM, HP in Hcs.
    - destruct W as [Hp Hs]. now split.
  Qed.
  Lemma wf04 o : In o objs4 -> wf_obj c np o.
  Proof.
    unfold objs4. intro H. apply in_map_iff in H. destruct H as [x [<- Hx]].
    destruct (opm_shape x Hx) as [Hs Hp]. split; [now rewrite params_to04|]. split; [now rewrite params_to04, (opmat_to04 x Hx)|].
    pose proof (obj_wf x Hx) as W. unfold to04. destruct (lo_mapper x); [|exact I].
    destruct W as (_ & _ & HM & HP & He & Hrep & Hdw & Hdu). repeat split; assumption.
  Qed.

  (* ---- parameter ranges ---- *)
  Lemma tp04_from l : forall a, fold_left (fun a (o : lobj R) => (a + lo_p o)%nat) l a = (a + tp (map to04 l))%nat.
  Proof.
    induction l as [|o l IH]; intro a; simpl; [unfold tp; simpl; lia|]. rewrite IH, tp_cons, params_to04. lia.
  Qed.
  Lemma tp04 : tp objs4 = total inp.
  Proof. unfold total, objs4. now rewrite tp04_from. Qed.
  Lemma ranges_filter (cls15 : lobj R -> bool) (cls4 : @C04.lobj ROps -> bool) :
    (forall x, cls4 (to04 x) = cls15 x) -> forall l k,
    combine (filter cls4 (map to04 l)) (@C04.ranges_from ROps cls4 (map to04 l) k)
    = map (fun x => (to04 (fst x), snd x)) (filter (fun x => cls15 (fst x)) (combine l (C15.ranges_from k l))).
  Proof.
    intros Hc. induction l as [|o l IH]; intro k; [reflexivity|].
    cbn [map filter C04.ranges_from C15.ranges_from combine fst]. rewrite (Hc o), params_to04.
    destruct (cls15 o); cbn [app combine map fst snd]; now rewrite IH.
  Qed.
  Definition T2 (x : lobj R * (nat * nat)) : @C04.lobj ROps * (nat * nat) := (to04 (fst x), snd x).
  Lemma ms04 : combine (filter is_mapper objs4) (@C04.ranges_from ROps is_mapper objs4 0) = map T2 (mappers inp).
  Proof. unfold objs4, mappers, orng. apply (ranges_filter (fun x => lo_mapper x) is_mapper). apply is_mapper_to04. Qed.
  Lemma fs04 : combine (filter is_func objs4) (@C04.ranges_from ROps is_func objs4 0) = map T2 (funcs inp).
  Proof. unfold objs4, funcs, orng. apply (ranges_filter (fun x => negb (lo_mapper x)) is_func). apply is_func_to04. Qed.
  Lemma all04 : combine objs4 (@C04.ranges_from ROps (fun _ => true) objs4 0) = map T2 (orng inp).
  Proof.
    unfold objs4, orng. rewrite <- (filter_true (map to04 (objs inp))) at 1.
    rewrite (ranges_filter (fun _ => true) (fun _ => true)) by reflexivity. f_equal. apply filter_true.
  Qed.
  (* every entry of orng: the object, its range [lo, lo + p) inside [0, total) *)
  Lemma orng_ranges l : forall k x, In x (combine l (C15.ranges_from k l)) ->
    In (fst x) l /\ snd (snd x) = (fst (snd x) + lo_p (fst x))%nat /\ (k <= fst (snd x))%nat /\
    (snd (snd x) <= fold_left (fun a (o : lobj R) => (a + lo_p o)%nat) l k)%nat.
  Proof.
    induction l as [|o l IH]; intros k x H; [contradiction|]. simpl in H. destruct H as [<-|H].
    - simpl. split; [now left|]. split; [reflexivity|]. split; [lia|]. rewrite tp04_from. lia.
    - destruct (IH _ _ H) as (a & b & c0 & d0). simpl. split; [now right|]. split; [exact b|]. split; [lia|exact d0].
  Qed.
  Lemma orng_in x : In x (orng inp) ->
    In (fst x) (objs inp) /\ snd (snd x) = (fst (snd x) + lo_p (fst x))%nat /\ (snd (snd x) <= total inp)%nat.
  Proof. intro H. destruct (orng_ranges _ _ _ H) as (a & b & _ & d0). auto. Qed.
  Lemma mapper_in15 x : In x (mappers inp) -> In x (orng inp) /\ lo_mapper (fst x) = true.
  Proof. unfold mappers. intro H. apply filter_In in H. exact H. Qed.
  Lemma func_in15 x : In x (funcs inp) -> In x (orng inp) /\ lo_mapper (fst x) = false.
  Proof. unfold funcs. intro H. apply filter_In in H. destruct H as [H1 H2]. split; [exact H1|]. now destruct (lo_mapper (fst x)). Qed.

  (* ---- the operated matrices of the function objects ---- *)
  Lemma lf_fresh_opm : lf_fresh KR inp = map (fun x => opm (fst x)) (funcs inp).
  Proof. unfold lf_fresh. apply map_ext. intro x. unfold C15k.opm. destruct (lo_ovr (fst x)); reflexivity. Qed.
  Lemma enum_nth {A} (l : list A) f y d : In (f, y) (enum l) -> nth f l d = y.
  Proof. intro H. now destruct (enum_in l f y d H). Qed.
  Lemma lf_nth f y : In (f, y) (enum (funcs inp)) -> nth f (lf_fresh KR inp) [] = opm (fst y).
  Proof.
    intro H. destruct (enum_in _ _ _ y H) as [Hlt Hn]. rewrite lf_fresh_opm. fixR.
    rewrite (nth_map_lt (fun x => opm (fst x)) (funcs inp) f y []) by exact Hlt. now rewrite Hn.
  Qed.

  (* ============================================================================================== *)
  (* Part C: np.hstack, the no-regularization index list, the diagonal term, the mirror                *)
  Lemma map_nth_seq {A} (l : list A) d : map (fun i => nth i l d) (seq 0 (length l)) = l.
  Proof.
    apply (nth_ext _ _ d d); [now rewrite map_length, seq_length|]. intros i Hi. rewrite map_length, seq_length in Hi.
    now rewrite (nth_map_seq (fun i => nth i l d)) by exact Hi.
  Qed.
  Lemma hstack_rows n (t : list Rmat) : (forall B, In B t -> length B = n) -> forall acc : Rmat, length acc = n ->
    fold_left (fun a B => map2 (@app R) a B) t acc = map (fun i => nth i acc [] ++ concat (map (fun B : Rmat => nth i B []) t)) (seq 0 n).
  Proof.
    induction t as [|B t IH]; intros Ht acc Ha; simpl.
    - rewrite <- Ha. rewrite <- (map_nth_seq acc []) at 1. apply map_ext. intro i. now rewrite app_nil_r.
    - assert (HB : length B = n) by (apply Ht; now left).
      assert (Hl2 : length (map2 (@app R) acc B) = n) by (rewrite map2_length; congruence).
      rewrite (IH (fun B' HB' => Ht B' (or_intror HB')) _ Hl2).
      apply map_ext_in. intros i Hi. apply in_seq in Hi.
      rewrite (nth_map2 (@app R) [] [] []) by (try congruence; lia). now rewrite <- app_assoc.
  Qed.
  Lemma map_fst_filter_combine {A B} (f : A -> bool) (l : list A) : forall (r : list B), length r = length l ->
    map fst (filter (fun x => f (fst x)) (combine l r)) = filter f l.
  Proof.
    induction l as [|a l IH]; intros [|b r] H; simpl in *; try discriminate; [reflexivity|].
    destruct (f a); simpl; rewrite IH by lia; reflexivity.
  Qed.
  Definition fl (l : list (lobj R)) : list (lobj R) := filter (fun o => negb (lo_mapper o)) l.
  Lemma lf_fresh_fl : lf_fresh KR inp = map opm (fl (objs inp)).
  Proof.
    rewrite lf_fresh_opm. unfold funcs, orng, fl.
    rewrite <- (map_fst_filter_combine (fun o => negb (lo_mapper o)) (objs inp) (C15.ranges_from 0 (objs inp)))
      by (now rewrite ranges_from_length).
    now rewrite map_map.
  Qed.
  Lemma omm_list_gen (lf : list Rmat) : forall l pre, lf = pre ++ map opm (fl l) ->
    (forall o, In o l -> lo_mapper o = true -> lo_ovr o = None) ->
    map2 (fun (o : lobj R) k => match lo_ovr o with None => conv_mm KR (lo_mm o) | Some _ => nth k lf [] end) l (func_index_from (length pre) l)
    = map opm l.
  Proof.
    induction l as [|o l IH]; intros pre Hlf Hm; [reflexivity|]. cbn [func_index_from map2 map]. f_equal.
    - unfold C15k.opm. destruct (lo_ovr o) as [B|] eqn:Eo; [|reflexivity].
      assert (Ef : lo_mapper o = false).
      { destruct (lo_mapper o) eqn:E; [|reflexivity]. rewrite (Hm o (or_introl eq_refl) E) in Eo. discriminate. }
      rewrite Hlf. unfold fl. cbn [filter]. rewrite Ef. cbn [negb map]. rewrite nth_app_len. unfold C15k.opm. now rewrite Eo.
    - destruct (lo_mapper o) eqn:E.
      + apply IH; [|intros o' Ho'; apply Hm; now right]. rewrite Hlf. unfold fl. cbn [filter]. now rewrite E.
      + replace (S (length pre)) with (length (pre ++ [opm o])) by (rewrite app_length; simpl; lia).
        apply IH; [|intros o' Ho'; apply Hm; now right]. rewrite Hlf. unfold fl. cbn [filter]. rewrite E. cbn [negb map].
        now rewrite <- app_assoc.
  Qed.
  Lemma omm_list_all : omm_list_of KR inp (lf_fresh KR inp) = map opm (objs inp).
  Proof.
    unfold omm_list_of. apply (omm_list_gen (lf_fresh KR inp) (objs inp) []); [apply lf_fresh_fl|].
    intros o Ho Hm. pose proof (obj_wf o Ho) as W. rewrite Hm in W. now destruct W as (_ & Hov & _).
  Qed.
  Hypothesis Hne : objs inp <> [].
  Lemma np_pos : (0 < np)%nat.
  Proof. now destruct WF. Qed.
  Lemma hstack_bridge (l : list (lobj R)) : l <> [] -> (forall o, In o l -> length (opm o) = np) ->
    (forall o, In o l -> opmat c (to04 o) = opm o) ->
    C15.hstack (map opm l) = map (fun i => concat (map (fun M : Rmat => nth i M []) (map (opmat c) (map to04 l)))) (seq 0 np).
  Proof.
    intros Hn Hl Hop. destruct l as [|o0 t]; [now elim Hn|]. cbn [map C15.hstack].
    rewrite (hstack_rows np (map opm t)).
    - apply map_ext_in. intros i Hi. cbn [concat map]. rewrite (Hop o0) by (now left). f_equal.
      f_equal. rewrite !map_map. apply map_ext_in. intros o Ho. now rewrite (Hop o) by (now right).
    - intros B HB. apply in_map_iff in HB. destruct HB as [o [<- Ho]]. apply Hl. now right.
    - apply Hl. now left.
  Qed.
  Theorem p_omm_is_op_matrix : p_omm KR inp = @op_matrix ROps c objs4 np.
  Proof.
    unfold p_omm. rewrite omm_list_all. unfold op_matrix, C04.hstack, objs4. apply hstack_bridge; [exact Hne| |apply opmat_to04].
    intros o Ho. destruct (opm_shape o Ho) as [[L _] _]. fixR. exact L.
  Qed.
  Lemma p_omm_shape : shape np (total inp) (p_omm KR inp).
  Proof.
    rewrite p_omm_is_op_matrix, <- tp04. apply shape_op_matrix. intros o Ho. now destruct (wf04 o Ho) as (_ & H & _).
  Qed.

  Theorem noreg_same : noreg_idx inp = @noreg_index_list ROps objs4.
  Proof.
    unfold noreg_idx, noreg_index_list. rewrite all04. rewrite !flat_map_concat_map, map_map. f_equal.
    apply map_ext. intros [o [lo hi]]. unfold T2. cbn [fst snd]. rewrite has_reg_to04. destruct (lo_reg o); reflexivity.
  Qed.

  (* two square matrices that agree entry-wise, with their shapes *)
  Definition Rel (N : nat) (A B : Rmat) : Prop := shape N N A /\ shape N N B /\ eqN N A B.
  Lemma add_diag_step N (A B : Rmat) eps k : Rel N A B -> (k < N)%nat ->
    Rel N (imap (fun i (row : Rvec) => if Nat.eqb i k then imap (fun j x => if Nat.eqb j k then x + eps else x) 0 row else row) 0 A)
          (@mat_add ROps B k k eps).
  Proof.
    intros (HA & HB & He) Hk. split; [|split; [now apply shape_mat_add|]].
    - destruct HA as [A1 A2]. split; [|intros a Ha]; fixR; [now rewrite imap_length|].
      rewrite (nth_imap _ []) by lia. cbn [plus]. destruct (Nat.eqb a k); [rewrite imap_length|]; now apply A2.
    - intros a b Ha Hb. rewrite (mget_mat_add N N) by assumption. rewrite <- (He a b Ha Hb).
      destruct HA as [A1 A2]. rewrite !mget_R. fixR. rewrite (nth_imap _ []) by lia. cbn [plus].
      rewrite (Nat.eqb_sym k a). destruct (Nat.eqb a k); cbn [andb]; [|lra].
      rewrite (nth_imap _ 0) by (rewrite A2; lia). cbn [plus]. rewrite (Nat.eqb_sym k b). destruct (Nat.eqb b k); lra.
  Qed.
  Lemma add_diag_rel N eps idx : Forall (fun k => (k < N)%nat) idx -> forall A B, Rel N A B ->
    Rel N (add_diag KR eps idx A) (@add_to_diag ROps B eps idx).
  Proof.
    unfold add_diag, add_to_diag. induction idx as [|k idx IH]; intros Hf A B HR; [exact HR|].
    inversion Hf as [|? ? Hk Hf']; subst. cbn [fold_left]. apply IH; [exact Hf'|]. now apply add_diag_step.
  Qed.
  Lemma mirror_rel N (A B : Rmat) : Rel N A B -> Rel N (mirror KR A) (@mirrored ROps B).
  Proof.
    intros (HA & HB & He). split; [|split; [now apply shape_mirrored|]].
    - destruct HA as [A1 A2]. split; [|intros a Ha]; fixR; unfold mirror; [now rewrite imap_length|].
      rewrite (nth_imap _ []) by lia. rewrite imap_length. now apply A2.
    - intros a b Ha Hb. rewrite (mirrored_spec N) by assumption. unfold mir.
      destruct HA as [A1 A2]. rewrite mget_R. fixR. unfold mirror. rewrite (nth_imap _ []) by lia. cbn [plus].
      rewrite (nth_imap _ 0) by (rewrite A2; lia). cbn [plus].
      assert (Hlo : (Nat.min a b < N)%nat) by lia. assert (Hhi : (Nat.max a b < N)%nat) by lia.
      pose proof (He _ _ Hlo Hhi) as E1. pose proof (He _ _ Hhi Hlo) as E2. rewrite <- E1, <- E2. rewrite !mget_R.
      cbn [KR c04k tnz t0]. unfold C15.mget. cbn [KR c04k t0]. unfold zero. ropen. change (IZR 0) with 0. fixR.
      destruct (Reqb (nth (Nat.max a b) (nth (Nat.min a b) A []) 0) 0) eqn:X; cbn [negb]; [|reflexivity].
      destruct (Reqb (nth (Nat.min a b) (nth (Nat.max a b) A []) 0) 0) eqn:Y; cbn [negb]; [|reflexivity].
      apply Reqb_true in Y. now rewrite Y.
  Qed.

  (* ============================================================================================== *)
  (* Part D: the w-tilde curvature matrix before the mirror: the same sequence of block assignments    *)
  Lemma KR_zero : t0 KR = 0.
  Proof. reflexivity. Qed.
  Lemma block_rel N (A B Bk : Rmat) r0 c0 h wd : Rel N A B -> shape h wd Bk -> (r0 + h <= N)%nat -> (c0 + wd <= N)%nat ->
    Rel N (apply_mw KR A {| mw_r0 := r0; mw_r1 := r0 + h; mw_c0 := c0; mw_c1 := c0 + wd; mw_b := Bk |}) (@set_block ROps B r0 c0 Bk).
  Proof.
    intros (HA & HB & He) Hk Hr Hc0. split; [now apply shape_apply_mw|]. split.
    - now destruct (set_block_spec N B Bk r0 c0 h wd HB Hk Hr Hc0).
    - now apply (block_step KR KR_zero N A B Bk r0 c0 h wd).
  Qed.
  Lemma fold_rel {X} N (L : list X) (wr : X -> mwrite R) (st : Rmat -> X -> Rmat) :
    (forall x A B, In x L -> Rel N A B -> Rel N (apply_mw KR A (wr x)) (st B x)) ->
    forall A B, Rel N A B -> Rel N (apply_mws KR A (map wr L)) (fold_left st L B).
  Proof.
    induction L as [|x L IH]; intros H A B HR; [exact HR|]. unfold apply_mws in *. cbn [map fold_left].
    apply IH; [intros x' A' B' Hx'; apply H; now right|]. apply H; [now left|exact HR].
  Qed.
  Lemma in_pairs_lt {A} (l : list A) p : In p (C04.pairs_lt l) -> In (fst p) l /\ In (snd p) l.
  Proof.
    induction l as [|x l IH]; simpl; [contradiction|]. intro H. apply in_app_or in H. destruct H as [H|H].
    - apply in_map_iff in H. destruct H as [y [<- Hy]]. simpl. auto.
    - destruct (IH H). auto.
  Qed.

  Variable w : wtilde R.
  Variables (pre : Rvec) (idx lens : list nat).
  Hypothesis Hdec : dec (wt_w w) = (pre, idx, lens).
  Notation s := (C15.n inp).
  Notation N := (total inp).

  Lemma has_func_04 : existsb is_func objs4 = has_func inp.
  Proof.
    unfold has_func. pose proof fs04 as H. apply (f_equal (@length _)) in H.
    rewrite combine_length, map_length in H.
    assert (Hr : forall cls l k, length (@C04.ranges_from ROps cls l k) = length (filter cls l)).
    { intros cls l. induction l as [|o l IH]; intro k; simpl; [reflexivity|]. destruct (cls o); simpl; now rewrite IH. }
    rewrite Hr, Nat.min_id in H. rewrite <- H.
    generalize objs4. intro l. induction l as [|o l IH]; [reflexivity|]. simpl. destruct (is_func o); [reflexivity|exact IH].
  Qed.
  Lemma mappers_len_04 : length (filter is_mapper objs4) = length (mappers inp).
  Proof.
    pose proof ms04 as H. apply (f_equal (@length _)) in H. rewrite combine_length, map_length in H.
    assert (Hr : forall cls l k, length (@C04.ranges_from ROps cls l k) = length (filter cls l)).
    { intros cls l. induction l as [|o l IH]; intro k; simpl; [reflexivity|]. destruct (cls o); simpl; now rewrite IH. }
    now rewrite Hr, Nat.min_id in H.
  Qed.
  Lemma mapper_facts x : In x (mappers inp) ->
    In (fst x) (objs inp) /\ lo_mapper (fst x) = true /\ snd (snd x) = (fst (snd x) + lo_p (fst x))%nat /\ (snd (snd x) <= N)%nat /\ (0 < lo_p (fst x))%nat.
  Proof.
    intro H. destruct (mapper_in15 x H) as [Ho Hm]. destruct (orng_in x Ho) as (a & b & c0).
    destruct (opm_shape (fst x) a) as [_ Hp]. auto.
  Qed.
  Lemma func_facts x : In x (funcs inp) ->
    In (fst x) (objs inp) /\ lo_mapper (fst x) = false /\ snd (snd x) = (fst (snd x) + lo_p (fst x))%nat /\ (snd (snd x) <= N)%nat /\
    shape np (lo_p (fst x)) (opm (fst x)) /\ (0 < lo_p (fst x))%nat.
  Proof.
    intro H. destruct (func_in15 x H) as [Ho Hm]. destruct (orng_in x Ho) as (a & b & c0).
    destruct (opm_shape (fst x) a) as [Hs Hp]. auto 7.
  Qed.

  Lemma p_pre_unfold : p_pre KR inp w =
    apply_mws KR (apply_mws KR (p_cmd KR inp w) (map (fun xy : (lobj R * (nat * nat)) * (lobj R * (nat * nat)) =>
        let x := fst xy in let y := snd xy in
        {| mw_r0 := fst (snd x); mw_r1 := snd (snd x); mw_c0 := fst (snd y); mw_c1 := snd (snd y);
           mw_b := k_off_wt KR (wt_w w) (lo_mm (fst x)) (lo_p (fst x)) (lo_mm (fst y)) (lo_p (fst y)) |}) (C15.pairs_lt (mappers inp))))
      (if has_func inp then flm_writes KR inp (OffFresh R) (lf_fresh KR inp) else []).
  Proof.
    unfold p_pre, multi_writes. destruct (Nat.eqb (length (mappers inp)) 1) eqn:E1.
    - apply Nat.eqb_eq in E1. destruct (mappers inp) as [|x [|y l]]; try discriminate. cbn [C15.pairs_lt map app].
      destruct (has_func inp); reflexivity.
    - destruct (has_func inp); reflexivity.
  Qed.

  Theorem p_pre_rel : Rel N (p_pre KR inp w) (@F_wt_pre ROps c pre idx lens objs4 s).
  Proof.
    rewrite p_pre_unfold. unfold F_wt_pre. rewrite total_params_tp, tp04, ms04, fs04, has_func_04.
    rewrite pairs_lt_map, !list_prod_map'. rewrite !fold_left_map.
    (* stage 1: _curvature_matrix_mapper_diag *)
    assert (S1 : Rel N (p_cmd KR inp w)
                   (fold_left (fun C x => @set_block ROps C (fst (snd (T2 x))) (fst (snd (T2 x)))
                                 (@curv_preload ROps pre idx lens (enc_of (fst (T2 x))) (params (fst (T2 x))))) (mappers inp) (@zmat ROps N N))).
    { unfold p_cmd, cmd_writes. apply fold_rel.
      - intros x A B Hx HR. destruct (mapper_facts x Hx) as (Ho & Hm & Hhi & Hle & Hp). unfold T2. cbn [fst snd].
        rewrite params_to04, (enc_of_to04 _ Hm). cbn [KR c04k k_curv_wt]. rewrite Hdec. rewrite Hhi.
        apply block_rel; [exact HR | apply shape_curv_preload | lia | lia].
      - split; [|split]; [apply shape_zmat | apply shape_zmat | intros a b _ _; reflexivity]. }
    (* stage 2: _curvature_matrix_multi_mapper *)
    rewrite pairs_lt_same.
    match goal with |- Rel N (apply_mws KR (apply_mws KR _ (map ?W2 _)) _) (if _ then fold_left ?f4 _ (fold_left ?f3 _ (fold_left ?f2 _ ?C1)) else _) =>
      assert (S2 : Rel N (apply_mws KR (p_cmd KR inp w) (map W2 (C04.pairs_lt (mappers inp)))) (fold_left f2 (C04.pairs_lt (mappers inp)) C1)) end.
    { apply fold_rel; [|exact S1]. intros xy A B Hxy HR. destruct (in_pairs_lt _ _ Hxy) as [Hx Hy].
      destruct (mapper_facts _ Hx) as (Ho & Hm & Hhi & Hle & Hp). destruct (mapper_facts _ Hy) as (Ho' & Hm' & Hhi' & Hle' & Hp').
      unfold T2. cbn [fst snd]. rewrite !params_to04, (enc_of_to04 _ Hm), (enc_of_to04 _ Hm'). cbn [KR c04k k_off_wt]. rewrite Hdec.
      rewrite Hhi, Hhi'. apply block_rel; [exact HR | now apply shape_off_diag | lia | lia]. }
    destruct (has_func inp); [|unfold apply_mws at 1; exact S2].
    (* stages 3 and 4: _curvature_matrix_func_list_and_mapper *)
    unfold flm_writes. rewrite !flat_map_list_prod. rewrite (apply_mws_app R KR).
    rewrite (fold_list_prod_enum _ (funcs inp) (funcs inp)), (fold_list_prod_enum _ (mappers inp) (funcs inp)).
    apply fold_rel.
    - intros p A B Hp HR. destruct (in_list_prod _ _ _ Hp) as [H0 H1].
      destruct (fst p) as [f0 y0] eqn:E0. destruct (snd p) as [f1 y1] eqn:E1. cbn [fst snd] in *.
      assert (Hy0 : In y0 (funcs inp)) by (rewrite <- (map_snd_enum (funcs inp)); apply in_map_iff; exists (f0, y0); auto).
      assert (Hy1 : In y1 (funcs inp)) by (rewrite <- (map_snd_enum (funcs inp)); apply in_map_iff; exists (f1, y1); auto).
      destruct (func_facts _ Hy0) as (Ho & Hm & Hhi & Hle & Hs & Hpp). destruct (func_facts _ Hy1) as (Ho' & Hm' & Hhi' & Hle' & Hs' & Hpp').
      unfold T2. cbn [fst snd]. rewrite (lf_nth f0 y0 H0), (lf_nth f1 y1 H1). rewrite !(opmat_to04 _ Ho), !(opmat_to04 _ Ho').
      cbn [KR c04k k_dotT k_wv]. rewrite Hhi, Hhi'.
      apply block_rel; [exact HR | | lia | lia].
      rewrite <- (ncols_shape _ _ _ Hs np_pos) at 1. rewrite <- (ncols_shape _ _ _ Hs' np_pos) at 1.
      rewrite <- (ncols_div_rows (opm (fst y0)) s), <- (ncols_div_rows (opm (fst y1)) s). apply shape_dotTN.
    - apply fold_rel; [|exact S2]. intros p A B Hp HR. destruct (in_list_prod _ _ _ Hp) as [H0 H1].
      destruct (fst p) as [i x] eqn:E0. destruct (snd p) as [f y] eqn:E1. cbn [fst snd] in *.
      assert (Hx : In x (mappers inp)) by (rewrite <- (map_snd_enum (mappers inp)); apply in_map_iff; exists (i, x); auto).
      assert (Hy : In y (funcs inp)) by (rewrite <- (map_snd_enum (funcs inp)); apply in_map_iff; exists (f, y); auto).
      destruct (mapper_facts _ Hx) as (Ho & Hm & Hhi & Hle & Hpp). destruct (func_facts _ Hy) as (Ho' & Hm' & Hhi' & Hle' & Hs' & Hpp').
      unfold T2, off_block. cbn [fst snd]. rewrite (lf_nth f y H1). rewrite params_to04, (enc_of_to04 _ Hm), (opmat_to04 _ Ho').
      cbn [KR c04k k_off_mf k_cw]. rewrite Hhi, Hhi'.
      apply block_rel; [exact HR | | lia | lia].
      rewrite <- (ncols_shape _ _ _ Hs' np_pos). rewrite <- (ncols_div_rows_sq (opm (fst y)) s). apply shape_off_mapper_func.
  Qed.

  (* ============================================================================================== *)
  (* Part E: F_wtilde = F_mapping for the concrete kernels, as equal lists                              *)
  Hypothesis Hrect : rectb m = true.
  Hypothesis Hc : @convolver_init ROps m Kp = Ok c.
  Hypothesis Hnp : np = length (unmasked m).
  Hypothesis Hs : length s = np.
  Hypothesis Hpos : forall i, (i < np)%nat -> 0 < nth i s 0.
  (* the WTildeImaging token holds the preload triple computed from the dataset's noise map and PSF *)
  Hypothesis Hpre : @preload ROps (@native ROps m s) Kp (unmasked m) = (pre, idx, lens).

  Lemma rel_refl n0 (A : Rmat) : shape n0 n0 A -> Rel n0 A A.
  Proof. intro H. split; [exact H|]. split; [exact H|]. intros a b _ _. reflexivity. Qed.
  Lemma noreg_forall : Forall (fun k => (k < N)%nat) (@noreg_index_list ROps objs4).
  Proof. rewrite <- tp04. apply noreg_bound. Qed.

  Lemma p_curv_wt_rel : Rel N (p_curv KR inp (Some w)) (@F_wt ROps c m Kp objs4 s (in_eps inp)).
  Proof.
    unfold p_curv, curv_finish, with_diag, F_wt. rewrite Hpre. rewrite noreg_same.
    pose proof (mirror_rel N _ _ p_pre_rel) as HM.
    destruct (Nat.eqb (length (@noreg_index_list ROps objs4)) 0); cbn [negb]; [exact HM|].
    apply add_diag_rel; [apply noreg_forall | exact HM].
  Qed.
  Lemma p_curv_map_rel : Rel N (p_curv KR inp None) (@F_mapping ROps c objs4 np s (in_eps inp)).
  Proof.
    unfold p_curv, curv_via_mm, with_diag, F_mapping, curv_mapping. cbn [KR c04k k_curv_mm]. rewrite p_omm_is_op_matrix, noreg_same.
    cbn [andb].
    assert (HF : Rel N (@dotTN ROps (@div_rows ROps (@op_matrix ROps c objs4 np) s) (@div_rows ROps (@op_matrix ROps c objs4 np) s))
                       (@dotTN ROps (@div_rows ROps (@op_matrix ROps c objs4 np) s) (@div_rows ROps (@op_matrix ROps c objs4 np) s))).
    { apply rel_refl. pose proof (shape_dotTN (@div_rows ROps (@op_matrix ROps c objs4 np) s) (@div_rows ROps (@op_matrix ROps c objs4 np) s)) as H.
      rewrite ncols_div_rows in H. pose proof p_omm_shape as Hsh. rewrite p_omm_is_op_matrix in Hsh.
      now rewrite (ncols_shape _ _ _ Hsh np_pos) in H. }
    destruct (Nat.eqb (length (@noreg_index_list ROps objs4)) 0); cbn [negb]; [exact HF|].
    apply add_diag_rel; [apply noreg_forall | exact HF].
  Qed.
  Theorem p_curv_same : p_curv KR inp (Some w) = p_curv KR inp None.
  Proof.
    destruct p_curv_wt_rel as (S1 & S1' & E1). destruct p_curv_map_rel as (S2 & S2' & E2).
    apply (mat_ext N N); [exact S1 | exact S2 |]. intros a b Ha Hb. rewrite (E1 a b Ha Hb), (E2 a b Ha Hb).
    pose proof (F_wt_eq_F_mapping_full m Kp c Hrect Hc objs4 s (in_eps inp) a b) as H. rewrite <- Hnp in H.
    apply H; [apply np_pos | exact Hs | exact Hpos | apply wf04 | now rewrite tp04 | now rewrite tp04].
  Qed.

  (* ============================================================================================== *)
  (* Part F: D_wtilde = D_mapping for the concrete kernels, as equal lists                              *)
  Notation d := (C15.d inp).
  Hypothesis Hd : length d = np.

  Lemma map2_map_r {A B C} (f : A -> B -> C) (g : A -> B) (l : list A) : map2 f l (map g l) = map (fun x => f x (g x)) l.
  Proof. induction l as [|a l IH]; simpl; [reflexivity|]. now rewrite IH. Qed.
  Lemma fold_vec {X} (L : list X) (wr : X -> vwrite R) (st : Rvec -> X -> Rvec) :
    (forall x v, In x L -> length v = N -> apply_vw KR v (wr x) = st v x /\ length (st v x) = N) ->
    forall v, length v = N -> apply_vws KR v (map wr L) = fold_left st L v /\ length (fold_left st L v) = N.
  Proof.
    induction L as [|x L IH]; intros H v Hv; [split; [reflexivity|exact Hv]|]. unfold apply_vws in *. cbn [map fold_left].
    destruct (H x v (or_introl eq_refl) Hv) as [E1 E2]. rewrite E1. apply IH; [|exact E2]. intros x' v' Hx'. apply H. now right.
  Qed.
  Lemma slice_step (v b : Rvec) lo hi : length v = N -> hi = (lo + length b)%nat -> (hi <= N)%nat ->
    apply_vw KR v {| vw_lo := lo; vw_hi := hi; vw_b := b |} = @set_slice ROps v lo b /\ length (@set_slice ROps v lo b) = N.
  Proof.
    intros Hv -> Hle. split; [apply (apply_vw_set_slice KR); lia|]. rewrite set_slice_length; [exact Hv|lia].
  Qed.

  Theorem p_dv_map_is_D_mapping : p_dv KR inp None = @D_mapping ROps c objs4 d s.
  Proof. unfold p_dv, D_mapping. cbn [KR c04k k_dv_bmm]. rewrite p_omm_is_op_matrix. fixR. now rewrite Hd. Qed.
  Theorem p_dv_wt_is_D_wt : p_dv KR inp (Some w) = @D_wt ROps c m Kp objs4 d s.
  Proof.
    unfold p_dv, D_wt. rewrite has_func_04, ms04, fs04, mappers_len_04, total_params_tp, tp04. rewrite !fold_left_map.
    change (p_wtd KR inp) with (@wt_data ROps (@native ROps m d) (@native ROps m s) Kp (unmasked m)).
    set (wd := @wt_data ROps (@native ROps m d) (@native ROps m s) Kp (unmasked m)).
    destruct (has_func inp) eqn:Ef.
    - unfold p_dvm. change (p_wtd KR inp) with wd. unfold dvm_writes_wt, dv_func_writes. rewrite lf_fresh_opm, map2_map_r.
      assert (Z : length (zeros_v KR N) = N) by (unfold zeros_v; apply repeat_length).
      destruct (fold_vec (mappers inp)
                  (fun x => {| vw_lo := fst (snd x); vw_hi := snd (snd x); vw_b := k_dv_wt KR wd (lo_mm (fst x)) (lo_p (fst x)) |})
                  (fun dv x => @set_slice ROps dv (fst (snd (T2 x))) (@dv_wtd ROps wd (enc_of (fst (T2 x))) (params (fst (T2 x)))))) with (v := zeros_v KR N) as [E1 L1]; [|exact Z|].
      { intros x v Hx Hv. destruct (mapper_facts x Hx) as (Ho & Hm & Hhi & Hle & Hp). unfold T2. cbn [fst snd].
        rewrite params_to04, (enc_of_to04 _ Hm). cbn [KR c04k k_dv_wt]. apply slice_step; [exact Hv | now rewrite dv_wtd_length | exact Hle]. }
      rewrite E1.
      destruct (fold_vec (funcs inp)
                  (fun x => {| vw_lo := fst (snd x); vw_hi := snd (snd x); vw_b := k_dv_bmm KR (opm (fst x)) d s |})
                  (fun dv x => @set_slice ROps dv (fst (snd (T2 x))) (@dv_blurred ROps (opmat c (fst (T2 x))) d s))) with
        (v := fold_left (fun dv x => @set_slice ROps dv (fst (snd (T2 x))) (@dv_wtd ROps wd (enc_of (fst (T2 x))) (params (fst (T2 x))))) (mappers inp) (zeros_v KR N))
        as [E2 L2]; [|exact L1|].
      { intros x v Hx Hv. destruct (func_facts x Hx) as (Ho & Hm & Hhi & Hle & Hsh & Hp). unfold T2. cbn [fst snd].
        rewrite (opmat_to04 _ Ho). cbn [KR c04k k_dv_bmm]. apply slice_step; [exact Hv | | exact Hle].
        now rewrite dv_blurred_length, (ncols_shape _ _ _ Hsh np_pos). }
      exact E2.
    - pose proof (C15k.no_func_all_mappers inp Ef) as Hall. unfold objs4.
      destruct (Nat.eqb (length (mappers inp)) 1).
      + destruct (objs inp) as [|o l] eqn:Eo; [reflexivity|]. cbn [map]. rewrite params_to04.
        rewrite (enc_of_to04 o) by (apply Hall; try rewrite Eo; now left). reflexivity.
      + rewrite map_map. apply f_equal. apply map_ext_in. intros o Ho. rewrite params_to04, (enc_of_to04 o (Hall o Ho)). reflexivity.
  Qed.
  Theorem p_dv_same : p_dv KR inp (Some w) = p_dv KR inp None.
  Proof.
    rewrite p_dv_wt_is_D_wt, p_dv_map_is_D_mapping.
    assert (L2 : length (@D_mapping ROps c objs4 d s) = N).
    { unfold D_mapping. rewrite dv_blurred_length. fixR. rewrite Hd. pose proof p_omm_shape as Hsh. rewrite p_omm_is_op_matrix in Hsh.
      exact (ncols_shape _ _ _ Hsh np_pos). }
    assert (L1 : length (@D_wt ROps c m Kp objs4 d s) = N).
    { rewrite <- p_dv_wt_is_D_wt. unfold p_dv. destruct (has_func inp) eqn:Ef.
      - unfold p_dvm.
        assert (G : forall ws (v : Rvec), length (apply_vws KR v ws) = length v).
        { intros ws. induction ws as [|w0 ws IH]; intro v; [reflexivity|]. unfold apply_vws in *. cbn [fold_left]. rewrite IH.
          unfold apply_vw. apply imap_length. }
        rewrite !G. unfold zeros_v. apply repeat_length.
      - pose proof (C15k.no_func_all_mappers inp Ef) as Hall.
        pose proof (assembled_is_concat R KR inp (fun o => k_dv_wt KR (p_wtd KR inp) (lo_mm o) (lo_p o))) as HA.
        assert (Hlen : length (concat (map (fun o : lobj R => k_dv_wt KR (p_wtd KR inp) (lo_mm o) (lo_p o)) (objs inp))) = N).
        { rewrite <- HA; [|intros o _; cbn [KR c04k k_dv_wt]; apply dv_wtd_length | exact Ef].
          assert (G : forall ws (v : Rvec), length (apply_vws KR v ws) = length v).
          { intros ws. induction ws as [|w0 ws IH]; intro v; [reflexivity|]. unfold apply_vws in *. cbn [fold_left]. rewrite IH.
            unfold apply_vw. apply imap_length. }
          rewrite G. unfold zeros_v. apply repeat_length. }
        destruct (Nat.eqb (length (mappers inp)) 1) eqn:E1; [|exact Hlen].
        apply Nat.eqb_eq in E1. rewrite (no_func_mappers R inp Ef) in E1. unfold orng in E1.
        rewrite combine_length, ranges_from_length, Nat.min_id in E1.
        revert Hlen. unfold objs in *. destruct (in_objs inp) as [|o [|o2 l]]; try discriminate. cbn [map concat]. now rewrite app_nil_r. }
    apply vec_ext; [fixR; rewrite L1, L2; reflexivity|]. intros a Ha. fixR. rewrite L1 in Ha.
    pose proof (D_wt_eq_D_mapping_full m Kp c Hrect Hc objs4 d s a) as H. rewrite <- Hnp in H.
    apply H; [apply np_pos | exact Hd | exact Hs | intros i Hi; specialize (Hpos i Hi); lra | apply wf04 | now rewrite tp04].
  Qed.

  (* ============================================================================================== *)
  (* Part G: the mapped reconstructed data of the two classes, for every reconstruction of the right length *)
  Lemma slice_length (v : Rvec) lo p : (lo + p <= length v)%nat -> length (slice lo (lo + p) v) = p.
  Proof. intro H. unfold slice. rewrite firstn_length, skipn_length. lia. Qed.
  Lemma mapped_terms_eq (lf : list Rmat) (r : Rvec) : forall l pfx k, lf = pfx ++ map opm (fl l) ->
    (forall o, In o l -> In o (objs inp)) ->
    (fold_left (fun a (o : lobj R) => (a + lo_p o)%nat) l k <= length r)%nat ->
    map2 (fun (ok : lobj R * nat) (rg : nat * nat) =>
            let o := fst ok in
            if lo_mapper o then conv_img KR (k_mapped_um KR (lo_mm o) (slice (fst rg) (snd rg) r))
            else k_rowsum KR (slice (fst rg) (snd rg) r) (nth (snd ok) lf []))
         (combine l (func_index_from (length pfx) l)) (C15.ranges_from k l)
    = map2 (fun (B : Rmat) (rg : nat * nat) => k_mapped_mm KR B (slice (fst rg) (snd rg) r)) (map opm l) (C15.ranges_from k l).
  Proof.
    induction l as [|o l IH]; intros pfx k Hlf Hin Hlen; [reflexivity|].
    cbn [func_index_from combine C15.ranges_from map2 map fst snd]. cbn [fold_left] in Hlen.
    assert (Hle : (k + lo_p o <= length r)%nat).
    { assert (G : forall l0 a, (a <= fold_left (fun a (o : lobj R) => (a + lo_p o)%nat) l0 a)%nat).
      { induction l0 as [|o0 l0 IH0]; intro a; simpl; [lia|]. specialize (IH0 (a + lo_p o0)%nat). lia. }
      specialize (G l (k + lo_p o)%nat). lia. }
    pose proof (slice_length r k (lo_p o) Hle) as Hsl.
    assert (Ho : In o (objs inp)) by (apply Hin; now left).
    destruct (opm_shape o Ho) as [Hsh Hp]. pose proof (obj_wf o Ho) as W.
    f_equal.
    - destruct (lo_mapper o) eqn:Em.
      + destruct W as (_ & Hov & HM & HP & He & Hrep & Hdw & Hdu). cbn [KR c04k conv_img k_mapped_um k_mapped_mm].
        unfold C15k.opm. rewrite Hov.
        apply (mapped_mapper_term c np (encf (lo_mm o)) (lo_mm o) (lo_p o) true); [|now destruct WF as (_ & Hfr & _) | exact Hsl].
        split; [exact Hp|]. split; [|repeat split; assumption].
        cbn [params opmat]. pose proof (shape_convolve_matrix c (lo_mm o)) as Hcs. fixR. now rewrite HM, HP in Hcs.
      + cbn [KR c04k k_rowsum k_mapped_mm].
        assert (Hn : nth (length pfx) lf [] = opm o).
        { rewrite Hlf. unfold fl. cbn [filter]. rewrite Em. cbn [negb map]. apply nth_app_len. }
        rewrite Hn. unfold dotv. apply (mapped_func_term (opm o) np (lo_p o)); [exact Hsh | exact Hsl].
    - destruct (lo_mapper o) eqn:Em.
      + apply IH; [|intros o' Ho'; apply Hin; now right | exact Hlen]. rewrite Hlf. unfold fl. cbn [filter]. now rewrite Em.
      + replace (S (length pfx)) with (length (pfx ++ [opm o])) by (rewrite app_length; simpl; lia).
        apply IH; [|intros o' Ho'; apply Hin; now right | exact Hlen]. rewrite Hlf. unfold fl. cbn [filter]. rewrite Em. cbn [negb map].
        now rewrite <- app_assoc.
  Qed.
  Theorem mapped_same (r : Rvec) : length r = N ->
    mapped_wt KR inp (lf_fresh KR inp) r = mapped_map KR inp (omm_list_of KR inp (lf_fresh KR inp)) r.
  Proof.
    intro Hr. unfold mapped_wt, mapped_map. rewrite omm_list_all. unfold ranges. f_equal.
    apply (mapped_terms_eq (lf_fresh KR inp) r (objs inp) [] 0%nat); [apply lf_fresh_fl | auto |].
    unfold total in Hr. rewrite Hr. apply Nat.le_refl.
  Qed.

  (* ============================================================================================== *)
  (* Part H: the factory's choice is value-free for the concrete kernels                                *)
  (* shape law of the solver (C05): the reconstruction has one entry per parameter *)
  Hypothesis Hslv : forall A b sv, slv A b = Ok sv -> length sv = length b.

  Lemma p_dv_length : length (p_dv KR inp None) = N.
  Proof.
    rewrite p_dv_map_is_D_mapping. unfold D_mapping. rewrite dv_blurred_length. fixR. rewrite Hd.
    pose proof p_omm_shape as Hsh. rewrite p_omm_is_op_matrix in Hsh. exact (ncols_shape _ _ _ Hsh np_pos).
  Qed.
  Theorem c04_formalism_choice_value_free : forall q, pure KR inp (Some w) q = pure KR inp None q.
  Proof.
    apply formalism_choice_value_free; [exact p_dv_same | exact p_curv_same |].
    intros sv Hsv. apply mapped_same. unfold p_rec in Hsv. cbn [KR c04k k_solve] in Hsv.
    rewrite (Hslv _ _ _ Hsv). apply p_dv_length.
  Qed.
End Bridge.

(* ================================================================================================ *)
(* Part I: the two settings of use_w_tilde give the same outputs, through the factory                  *)
Section Choice.
  Variable c : @convolver ROps.
  Variable m : mask.
  Variable Kp : @kernel ROps.
  Variable encf : Rmat -> @C04.enc ROps.
  Variable dec : Rmat -> Rvec * list nat * list nat.
  Variable slv : Rmat -> Rvec -> res Rvec.
  Variable ldc ldr : Rmat -> res R.
  Notation KR := (KR c m Kp encf dec slv ldc ldr).
  Definition with_wt (b : bool) (inp : input R) : input R :=
    {| in_ds := in_ds inp; in_objs := in_objs inp; in_use_wt := b; in_eps := in_eps inp |}.
  (* everything an inversion computes ignores the flag (only the factory reads it) *)
  Lemma pure_ignores_flag b inp mode q : pure KR (with_wt b inp) mode q = pure KR inp mode q.
  Proof. destruct q; reflexivity. Qed.

  Variable inp : input R.
  Hypothesis Hrect : rectb m = true.
  Hypothesis Hc : @convolver_init ROps m Kp = Ok c.
  Hypothesis WF : wf_input c encf (length (unmasked m)) inp.
  Hypothesis Hne : in_objs inp <> [].
  Hypothesis Hd : length (ds_d (in_ds inp)) = length (unmasked m).
  Hypothesis Hs : length (ds_n (in_ds inp)) = length (unmasked m).
  Hypothesis Hpos : forall i, (i < length (unmasked m))%nat -> 0 < nth i (ds_n (in_ds inp)) 0.
  Hypothesis Hslv : forall A b sv, slv A b = Ok sv -> length sv = length b.
  (* dataset.w_tilde holds the preload computed from the noise map and the PSF, and passes check_noise_map *)
  Hypothesis Hwt : dec (wt_w (ds_wt (in_ds inp))) = @preload ROps (@native ROps m (ds_n (in_ds inp))) Kp (unmasked m).
  Hypothesis Hnv : wt_nv (ds_wt (in_ds inp)) = hd 0 (ds_n (in_ds inp)).

  Theorem c04_factory_choice_value_free qs :
    fst (run_inversion KR (with_wt true inp) code empty_store qs) = fst (run_inversion KR (with_wt false inp) code empty_store qs).
  Proof.
    set (w := ds_wt (in_ds inp)).
    assert (HF : make_inversion KR (with_wt false inp) empty_store = Ok None) by reflexivity.
    rewrite (proj1 (run_inversion_ok R KR (with_wt false inp) None empty_store qs HF (empty_consistent R KR _ None))).
    destruct (all_func (with_wt true inp)) eqn:Ea.
    - assert (HT : make_inversion KR (with_wt true inp) empty_store = Ok None).
      { unfold make_inversion, choose_wt. now rewrite Ea. }
      rewrite (proj1 (run_inversion_ok R KR (with_wt true inp) None empty_store qs HT (empty_consistent R KR _ None))).
      apply f_equal. apply map_ext. intro q. now rewrite !pure_ignores_flag.
    - assert (HT : make_inversion KR (with_wt true inp) empty_store = Ok (Some w)).
      { unfold make_inversion, choose_wt. rewrite Ea. cbn [with_wt in_use_wt negb s_use_wt s_wt empty_store in_ds].
        unfold check_noise_map. cbn [with_wt in_ds KR c04k teqb t0]. fold w. unfold w. rewrite Hnv. unfold zero. ropen. change (IZR 0) with 0.
        assert (E : Reqb (hd 0 (ds_n (in_ds inp))) (hd 0 (ds_n (in_ds inp))) = true) by now apply Reqb_true.
        now rewrite E. }
      rewrite (proj1 (run_inversion_ok R KR (with_wt true inp) (Some w) empty_store qs HT (empty_consistent R KR _ (Some w)))).
      apply f_equal. apply map_ext. intro q. rewrite !pure_ignores_flag.
      destruct (@preload ROps (@native ROps m (ds_n (in_ds inp))) Kp (unmasked m)) as [[pre idx] lens] eqn:Ep.
      apply (c04_formalism_choice_value_free c m Kp encf dec slv ldc ldr inp (length (unmasked m)) WF Hne w pre idx lens);
        try assumption; try reflexivity.
  Qed.
End Choice.

(* ================================================================================================ *)
(* Part J: non-vacuity.  (1) EVERY mapping matrix has an encoding that stands for it (the dense one), so the hypothesis
   on [encf] can always be met; (2) a concrete dataset / object list meeting every hypothesis of Part I.              *)
Lemma hits_combine_seq (row : Rvec) : forall k p, (k <= p < k + length row)%nat ->
  sumR (hits p (combine (seq k (length row)) row)) = nth (p - k) row 0.
Proof.
  induction row as [|x row IH]; intros k p Hp; simpl in Hp; [lia|]. cbn [length seq combine]. unfold hits. cbn [filter fst].
  destruct (Nat.eqb k p) eqn:E.
  - apply Nat.eqb_eq in E. subst p. rewrite Nat.sub_diag. cbn [map snd sumR nth].
    assert (Z : sumR (hits k (combine (seq (S k) (length row)) row)) = 0).
    { rewrite hits_as_map. apply sumR_map_zero. intros [i y] Hin. apply in_combine_l in Hin. apply in_seq in Hin.
      cbn [fst]. assert (Nat.eqb i k = false) as -> by (apply Nat.eqb_neq; lia). reflexivity. }
    unfold hits in Z. rewrite Z. lra.
  - apply Nat.eqb_neq in E. fold (hits p (combine (seq (S k) (length row)) row)). rewrite IH by lia.
    replace (p - k)%nat with (S (p - S k)) by lia. reflexivity.
Qed.
Lemma dense_enc_row (M : Rmat) dd : @enc_row ROps (@dense_enc ROps M) dd = combine (seq 0 (length (nth dd M []))) (nth dd M []).
Proof.
  unfold enc_row, dense_enc. cbn [e_pl e_du e_dw]. fixR.
  destruct (lt_dec dd (length M)) as [L|L].
  - rewrite (nth_map_lt (fun row : Rvec => length row) M dd [] 0%nat) by exact L.
    rewrite (nth_map_lt (fun row : Rvec => map Z.of_nat (seq 0 (length row))) M dd [] []) by exact L.
    rewrite map_map. rewrite (map_ext (fun x => Z.to_nat (Z.of_nat x)) (fun x => x)) by (intro; apply Nat2Z.id). rewrite map_id.
    apply firstn_all2. rewrite combine_length, seq_length. lia.
  - rewrite !nth_overflow by (rewrite ?map_length; lia). reflexivity.
Qed.
Theorem dense_enc_wf (M : Rmat) n P : shape n P M -> (0 < n)%nat ->
  enc_ok (@dense_enc ROps M) P /\ represents (@dense_enc ROps M) M n P /\
  length (e_dw (@dense_enc ROps M)) = n /\ length (e_du (@dense_enc ROps M)) = n /\ length M = n /\ ncolsR M = P.
Proof.
  intros Hsh Hn. pose proof (ncols_shape _ _ _ Hsh Hn) as Nc. destruct Hsh as [H1 H2]. fixR.
  split; [|split; [|cbn [dense_enc e_dw e_du]; rewrite map_length; auto]].
  - intros dd [i y] Hin. rewrite dense_enc_row in Hin. apply in_combine_l in Hin. apply in_seq in Hin. cbn [fst].
    destruct (lt_dec dd n) as [L|L]; [rewrite H2 in Hin by exact L; lia|].
    rewrite nth_overflow in Hin by lia. simpl in Hin. lia.
  - intros dd p Hd Hp. unfold E. rewrite dense_enc_row. rewrite hits_combine_seq by (rewrite H2 by exact Hd; lia).
    rewrite Nat.sub_0_r. now rewrite mget_R.
Qed.

Section Example.
  Definition exM : mask := [[true; true; true; true]; [true; false; false; true]; [true; true; true; true]].
  Definition exK : @kernel ROps := [[1; 2; 3]; [4; 5; 6]; [7; 8; -9]].
  Definition exC : @convolver ROps :=
    Eval vm_compute in match @convolver_init ROps exM exK with Ok c => c | Raise _ => @Build_convolver ROps 0 [] [] [] end.
  Definition exInp : input R :=
    {| in_ds := {| ds_d := [1; 2]; ds_n := [1; 2]; ds_wt := {| wt_w := []; wt_nv := 1 |} |};
       in_objs := [ {| lo_mapper := false; lo_mm := [[3]; [4]]; lo_ovr := Some [[5]; [-6]]; lo_p := 1%nat; lo_reg := None |};
                    {| lo_mapper := true; lo_mm := [[1]; [1]]; lo_ovr := None; lo_p := 1%nat; lo_reg := Some [[1]] |} ];
       in_use_wt := true; in_eps := 1 |}.
  Definition exDec (W : Rmat) : Rvec * list nat * list nat := @preload ROps (@native ROps exM [1; 2]) exK (unmasked exM).
  Definition exSlv (A : Rmat) (b : Rvec) : res Rvec := Ok b.
  Lemma ex_choice_hyps :
    rectb exM = true /\ @convolver_init ROps exM exK = Ok exC /\
    wf_input exC (@dense_enc ROps) (length (unmasked exM)) exInp /\ in_objs exInp <> [] /\
    length (ds_d (in_ds exInp)) = length (unmasked exM) /\ length (ds_n (in_ds exInp)) = length (unmasked exM) /\
    (forall i, (i < length (unmasked exM))%nat -> 0 < nth i (ds_n (in_ds exInp)) 0) /\
    (forall A b sv, exSlv A b = Ok sv -> length sv = length b) /\
    exDec (wt_w (ds_wt (in_ds exInp))) = @preload ROps (@native ROps exM (ds_n (in_ds exInp))) exK (unmasked exM) /\
    wt_nv (ds_wt (in_ds exInp)) = hd 0 (ds_n (in_ds exInp)).
  Proof.
    assert (Hr : rectb exM = true) by reflexivity.
    assert (Hc : @convolver_init ROps exM exK = Ok exC) by (vm_compute; reflexivity).
    split; [exact Hr|]. split; [exact Hc|]. change (length (unmasked exM)) with 2%nat.
    split; [|split; [discriminate|]]; [|repeat split; try reflexivity].
    - split; [lia|]. split; [exact (init_frames_ok exM exK exC Hr Hc)|].
      intros x [<-|[<-|[]]]; cbn [lo_mapper].
      + split; [cbn; lia|]. unfold C15k.opm. cbn [lo_ovr lo_p]. split; [reflexivity|]. intros [|[|a]] Ha; try reflexivity; lia.
      + assert (Hsh : shape 2 1 ([[1]; [1]] : Rmat)) by (split; [reflexivity|]; intros [|[|a]] Ha; try reflexivity; lia).
        destruct (dense_enc_wf [[1]; [1]] 2 1 Hsh ltac:(lia)) as (a1 & a2 & a3 & a4 & a5 & a6).
        cbn [lo_p lo_ovr lo_mm]. repeat split; auto; lia.
    - intros [|[|i]] Hi; cbn; try lra; lia.
    - intros A b sv H. injection H as <-. reflexivity.
  Qed.
End Example.

(* ================================================================================================ *)
(* Part K: Preloads.set_* with the concrete kernels: no kernel hypothesis left                        *)
From PAV Require Import Proofs.C15s.
Lemma c04_set_laws (c : @convolver ROps) (m : mask) (Kp : @kernel ROps) encf dec slv ldc ldr (inp : input R) (np : nat) mode :
  wf_input c encf np inp -> set_laws (KR c m Kp encf dec slv ldc ldr) inp mode.
Proof.
  intro WF. split; [now apply (c04_law_dlf c m Kp encf dec slv ldc ldr inp np)|].
  split; [now apply (c04_law_momm c m Kp encf dec slv ldc ldr inp np)|].
  intro Ef. destruct mode as [w|]; [apply dvm_law_wt; [apply c04_shape_dv_wt | exact Ef] | now apply (c04_dvm_law_map c m Kp encf dec slv ldc ldr inp np)].
Qed.
Theorem c04_set_preloads_fresh (c : @convolver ROps) (m : mask) (Kp : @kernel ROps) encf dec slv ldc ldr (Cm : cmpk R)
  (inp0 : input R) (np : nat) own0 f0 f1 reads0 ss P :
  wf_input c encf np inp0 ->
  make_fit (KR c m Kp encf dec slv ldc ldr) inp0 own0 = Ok f0 ->
  consistent (KR c m Kp encf dec slv ldc ldr) inp0 (f_mode f0) own0 ->
  consistent (KR c m Kp encf dec slv ldc ldr) inp0 (f_mode f0) P ->
  let K := KR c m Kp encf dec slv ldc ldr in
  let r := run_setters K code Cm ss P (snd (freads K code f0 reads0)) f1 in
  let P' := snd (fst (fst r)) in
  consistent K inp0 (f_mode f0) P' /\
  (forall reads1, fst (freads K code (snd (fst r)) reads1) = map (pure K inp0 (f_mode f0)) reads1) /\
  (forall h, make_inversion K inp0 P' = Ok (f_mode f0) ->
             fst (run_history K inp0 code P' h) = map (fun qs => Ok (map (pure K inp0 (f_mode f0)) qs)) h).
Proof.
  intros WF Hmk Hown HP. apply (set_preloads_fresh R (KR c m Kp encf dec slv ldc ldr) Cm inp0 own0 f0 f1 reads0 ss P); try assumption.
  now apply (c04_set_laws c m Kp encf dec slv ldc ldr inp0 np).
Qed.
