(* C14 -- part 4: extracted_array_2d_from, Mask2D.zoom_region, Array2D.zoomed_around_mask. *)
From Coq Require Import ZArith List Bool Lia.
From PAV Require Import Base.Res Base.Check Model.C14 Proofs.C14 Proofs.C14b Proofs.C14c.
Import ListNotations.
Local Open Scope Z_scope.

(* ------------------------------------------------------------------ the loop only reads w inside its ranges *)
Lemma fold_left_ext_in {S X} (f g : S -> X -> S) (l : list X) : forall a,
  (forall s x, In x l -> f s x = g s x) -> fold_left f l a = fold_left g l a.
Proof.
  induction l as [|h t IH]; intros a HX; cbn; [reflexivity|]. rewrite HX by (left; reflexivity).
  apply IH. intros s x Hx. apply HX. right. exact Hx.
Qed.
Lemma loop2_ext {B} n0 n1 (w w' : nat -> nat -> option B) o :
  (forall yr xr, (yr < n0)%nat -> (xr < n1)%nat -> w yr xr = w' yr xr) -> loop2 n0 n1 w o = loop2 n0 n1 w' o.
Proof.
  intros HX. unfold loop2. apply fold_left_ext_in. intros s yr Hy. apply in_seq in Hy.
  apply fold_left_ext_in. intros s' xr Hx. apply in_seq in Hx. rewrite HX by lia. reflexivity.
Qed.

(* array_2d_util.extracted_array_2d_from: the window [y0, y1) x [x0, x1) of the zero-extended array *)
Definition window_fun {B} (zero : B) (H W y0 x0 : Z) (f : Z -> Z -> B) : Z -> Z -> B :=
  fun i j => if inr (y0 + i) H && inr (x0 + j) W then f (y0 + i) (x0 + j) else zero.

Lemma extracted_entries {B} (zero : B) (a : list (list B)) H W f y0 y1 x0 x1 :
  Entries a H W f -> 0 < H -> y0 <= y1 -> x0 <= x1 ->
  exists e, extracted_array_2d_from zero a y0 y1 x0 x1 = Ok e /\ Entries e (y1 - y0) (x1 - x0) (window_fun zero H W y0 x0 f).
Proof.
  intros HE HP Hy Hx. destruct (Entries_shape _ _ _ _ HE HP) as [HnR HnC].
  destruct HE as (HH & HW & HR & HE).
  unfold extracted_array_2d_from. rewrite HnR, HnC.
  assert (E0 : (y1 - y0 <? 0) || (x1 - x0 <? 0) = false) by (apply orb_false_iff; split; apply Z.ltb_ge; lia).
  rewrite E0. eexists. split; [reflexivity|].
  set (n0 := Z.to_nat (y1 - y0)). set (n1 := Z.to_nat (x1 - x0)).
  match goal with |- Entries (loop2 _ _ ?w ?o) _ _ _ => set (w0 := w) end.
  set (w' := fun yr xr => if (Nat.ltb yr n0 && Nat.ltb xr n1)%bool then w0 yr xr else None).
  rewrite (loop2_ext n0 n1 w0 w').
  2:{ intros yr xr Hyr Hxr. unfold w'. apply Nat.ltb_lt in Hyr, Hxr. rewrite Hyr, Hxr. reflexivity. }
  assert (G : forall yr xr v, w' yr xr = Some v -> (yr < n0)%nat /\ (xr < n1)%nat).
  { intros yr xr v. unfold w'. destruct (Nat.ltb_spec yr n0), (Nat.ltb_spec xr n1); cbn [andb]; try discriminate. intros _. lia. }
  destruct (loop2_spec n0 n1 w' G n0 n1 _ (Rect_zeros zero n0 n1)) as [LR LG].
  split; [lia|]. split; [lia|]. split; [exact LR|].
  intros i j d Hi Hj. unfold zget2. rewrite LG.
  assert (X1 : Nat.ltb (Z.to_nat i) n0 = true) by (apply Nat.ltb_lt; lia).
  assert (X2 : Nat.ltb (Z.to_nat j) n1 = true) by (apply Nat.ltb_lt; lia).
  rewrite X1, X2. cbn [andb]. unfold w'. rewrite X1, X2. cbn [andb]. unfold w0. rewrite !Z2Nat.id by lia.
  unfold window_fun, inr. set (y := y0 + i). set (x := x0 + j).
  rewrite get2_zeros by lia.
  destruct (Z.leb_spec 0 y), (Z.leb_spec 0 x), (Z.leb_spec y (H - 1)), (Z.leb_spec x (W - 1)),
           (Z.ltb_spec y H), (Z.ltb_spec x W); cbn [andb]; try lia; try reflexivity.
  apply HE; lia.
Qed.

Lemma Entries_tab2 {B} R0 R1 (F : nat -> nat -> B) : 0 <= R0 -> 0 <= R1 ->
  Entries (tab2 (Z.to_nat R0) (Z.to_nat R1) F) R0 R1 (fun i j => F (Z.to_nat i) (Z.to_nat j)).
Proof.
  intros H0 H1. split; [lia|]. split; [lia|]. split; [apply Rect_tab2|].
  intros i j d Hi Hj. unfold zget2. apply get2_tab2; lia.
Qed.

Lemma ext_get_window {B} (zero : B) (a : list (list B)) H W y x :
  rectb H W a = true -> 0 < H -> ext_get zero a y x = window_fun zero H W y x (zget2 zero a) 0 0.
Proof.
  intros HB HP. pose proof (Entries_self zero _ _ _ HB HP) as HE. destruct (Entries_shape _ _ _ _ HE HP) as [S0 S1].
  unfold ext_get, window_fun, inr. rewrite S0, S1, !Z.add_0_r.
  destruct (0 <=? y), (y <? H), (0 <=? x), (x <? W); reflexivity.
Qed.

(* the extraction is the window of the zero-extended input (independent tabulated specification) *)
Lemma extracted_is_spec {B} (zero : B) (a : list (list B)) H W y0 y1 x0 x1 :
  rectb H W a = true -> 0 < H -> y0 <= y1 -> x0 <= x1 ->
  extracted_array_2d_from zero a y0 y1 x0 x1 =
  Ok (tab2 (Z.to_nat (y1 - y0)) (Z.to_nat (x1 - x0)) (fun i j => ext_get zero a (y0 + Z.of_nat i) (x0 + Z.of_nat j))).
Proof.
  intros HB HP Hy Hx. pose proof (Entries_self zero _ _ _ HB HP) as HE.
  destruct (extracted_entries zero a H W _ y0 y1 x0 x1 HE HP Hy Hx) as (e & -> & HX). f_equal.
  assert (N0 : 0 <= y1 - y0) by lia. assert (N1 : 0 <= x1 - x0) by lia.
  apply (Entries_ext zero _ _ _ _ _ _ HX (Entries_tab2 _ _ _ N0 N1)).
  intros i j Hi Hj. rewrite !Z2Nat.id by lia. rewrite (ext_get_window zero a H W) by assumption.
  unfold window_fun. rewrite !Z.add_0_r. reflexivity.
Qed.
Lemma extracted_negative_shape {B} (zero : B) (a : list (list B)) y0 y1 x0 x1 :
  y1 < y0 \/ x1 < x0 -> extracted_array_2d_from zero a y0 y1 x0 x1 = Raise OtherException.
Proof.
  intros HN. unfold extracted_array_2d_from.
  assert (E0 : (y1 - y0 <? 0) || (x1 - x0 <? 0) = true) by (apply orb_true_iff; destruct HN; [left|right]; apply Z.ltb_lt; lia).
  rewrite E0. reflexivity.
Qed.

(* ------------------------------------------------------------------ np.amin / np.amax *)
Lemma zmin_le l : forall d, zmin_list d l <= d /\ forall x, In x l -> zmin_list d l <= x.
Proof.
  unfold zmin_list. induction l as [|h t IH]; intros d; cbn [fold_left]; [split; [lia | intros x []]|].
  destruct (IH (Z.min d h)) as [I1 I2]. split; [lia|]. intros x [<- | Hx]; [lia | now apply I2].
Qed.
Lemma zmax_ge l : forall d, d <= zmax_list d l /\ forall x, In x l -> x <= zmax_list d l.
Proof.
  unfold zmax_list. induction l as [|h t IH]; intros d; cbn [fold_left]; [split; [lia | intros x []]|].
  destruct (IH (Z.max d h)) as [I1 I2]. split; [lia|]. intros x [<- | Hx]; [lia | now apply I2].
Qed.

(* Mask2D.zoom_region: a region that contains every unmasked pixel; its two side lengths differ by at most one *)
Lemma zoom_region_contains (m : list (list bool)) y0 y1 x0 x1 :
  zoom_region m = Ok (y0, y1, x0, x1) ->
  y0 < y1 /\ x0 < x1 /\ Z.abs ((y1 - y0) - (x1 - x0)) <= 1 /\
  forall p, In p (unmasked_coords m) -> y0 <= fst p < y1 /\ x0 <= snd p < x1.
Proof.
  unfold zoom_region. destruct (unmasked_coords m) as [|[yy xx] rest]; [discriminate|].
  set (a0 := zmin_list yy (map fst rest)). set (b0 := zmin_list xx (map snd rest)).
  set (a1 := zmax_list yy (map fst rest)). set (b1 := zmax_list xx (map snd rest)).
  destruct (zmin_le (map fst rest) yy) as [A1 A2]. destruct (zmin_le (map snd rest) xx) as [B1 B2].
  destruct (zmax_ge (map fst rest) yy) as [A3 A4]. destruct (zmax_ge (map snd rest) xx) as [B3 B4].
  fold a0 in A1, A2. fold b0 in B1, B2. fold a1 in A3, A4. fold b1 in B3, B4.
  assert (IN : forall p, In p ((yy, xx) :: rest) -> a0 <= fst p <= a1 /\ b0 <= snd p <= b1).
  { intros p [<- | Hp]; cbn [fst snd]; [lia|].
    pose proof (in_map fst _ _ Hp) as Pf. pose proof (in_map snd _ _ Hp) as Ps.
    specialize (A2 _ Pf). specialize (A4 _ Pf). specialize (B2 _ Ps). specialize (B4 _ Ps). lia. }
  cbv zeta.
  destruct (Z.gtb_spec (a1 - a0) (b1 - b0)) as [G1|G1].
  - rewrite int_half_div by lia. intros HE. inversion HE. subst. clear HE.
    assert (0 <= (a1 - a0 - (b1 - b0)) / 2) by zdiv.
    repeat split; try zdiv; destruct (IN p H0); try zdiv; lia.
  - destruct (Z.gtb_spec (b1 - b0) (a1 - a0)) as [G2|G2].
    + rewrite int_half_div by lia. intros HE. inversion HE. subst. clear HE.
      assert (0 <= (b1 - b0 - (a1 - a0)) / 2) by zdiv.
      repeat split; try zdiv; destruct (IN p H0); try zdiv; lia.
    + intros HE. inversion HE. subst. clear HE. repeat split; try lia; destruct (IN p H); lia.
Qed.
Lemma zoom_region_ok (m : list (list bool)) : unmasked_coords m <> [] -> exists r, zoom_region m = Ok r.
Proof.
  unfold zoom_region. destruct (unmasked_coords m) as [|[yy xx] rest]; [intros HN; now contradiction HN|]. intros _. cbv zeta.
  destruct (_ >? _); [|destruct (_ >? _)]; eexists; reflexivity.
Qed.
Lemma zoom_region_all_masked (m : list (list bool)) : unmasked_coords m = [] -> zoom_region m = Raise OtherException.
Proof. unfold zoom_region. intros ->. reflexivity. Qed.

Lemma window_contains_intro (m : list (list bool)) oy ox h w :
  (forall p, In p (unmasked_coords m) -> oy <= fst p < oy + h /\ ox <= snd p < ox + w) -> window_contains m oy ox h w = true.
Proof.
  intros HP. unfold window_contains. apply forallb_forall. intros p Hp. destruct (HP p Hp) as [[P1 P2] [P3 P4]].
  rewrite !andb_true_iff. repeat split; try (apply Z.leb_le; lia); apply Z.ltb_lt; lia.
Qed.
Lemma zoom_region_window (m : list (list bool)) y0 y1 x0 x1 :
  zoom_region m = Ok (y0, y1, x0, x1) -> window_contains m y0 x0 (y1 - y0) (x1 - x0) = true.
Proof.
  intros HZ. destruct (zoom_region_contains m _ _ _ _ HZ) as (_ & _ & _ & HP).
  apply window_contains_intro. intros p Hp. specialize (HP p Hp). lia.
Qed.

(* membership in the list of unmasked pixels *)
Lemma In_scan {C} R0 R1 g (F : nat -> nat -> C) c :
  In c (scan R0 R1 g F) <-> exists y x, (y < R0)%nat /\ (x < R1)%nat /\ g y x = false /\ c = F y x.
Proof.
  unfold scan. rewrite in_flat_map. split.
  - intros (y & Hy & Hc). apply in_seq in Hy. apply in_flat_map in Hc. destruct Hc as (x & Hx & Hc). apply in_seq in Hx.
    destruct (g y x) eqn:G; [destruct Hc|]. destruct Hc as [<- | []]. exists y, x. repeat split; try lia; assumption.
  - intros (y & x & Hy & Hx & G & ->). exists y. split; [apply in_seq; lia|]. apply in_flat_map. exists x.
    split; [apply in_seq; lia|]. rewrite G. left. reflexivity.
Qed.
Lemma In_unmasked (m : list (list bool)) R0 R1 g y x : Entries m R0 R1 g ->
  In (y, x) (unmasked_coords m) <-> 0 <= y < R0 /\ 0 <= x < R1 /\ g y x = false.
Proof.
  intros HE. rewrite (unmasked_coords_scan m _ _ _ HE), In_scan. split.
  - intros (a & b & Ha & Hb & G & E). inversion E. subst. repeat split; try lia. exact G.
  - intros (Hy & Hx & G). exists (Z.to_nat y), (Z.to_nat x). rewrite !Z2Nat.id by lia. repeat split; try lia. exact G.
Qed.

(* MAIN 7: Array2D.zoomed_around_mask returns a window of the (zero-extended) array that contains every unmasked
   pixel at its place, with its value *)
Lemma zoom_contains_unmasked {B} (zero : B) (arr : arr2d B) H W b :
  rectb H W (fst arr) = true -> rectb H W (snd arr) = true -> 0 < H -> 0 <= b -> unmasked_coords (snd arr) <> [] ->
  exists e oy ox h w, zoomed_around_mask zero arr b = Ok e /\ rectb h w e = true /\
    (forall i j d, 0 <= i < h -> 0 <= j < w -> zget2 d e i j = ext_get zero (fst arr) (oy + i) (ox + j)) /\
    window_contains (snd arr) oy ox h w = true /\
    (forall y x, 0 <= y < H -> 0 <= x < W -> zget2 true (snd arr) y x = false ->
       0 <= y - oy < h /\ 0 <= x - ox < w /\ forall d, zget2 d e (y - oy) (x - ox) = zget2 d (fst arr) y x).
Proof.
  intros HA HM HP Hb HN. pose proof (Entries_self zero _ _ _ HA HP) as XA. pose proof (Entries_self true _ _ _ HM HP) as XM.
  destruct (zoom_region_ok _ HN) as ([[[y0 y1] x0] x1] & EZ).
  destruct (zoom_region_contains _ _ _ _ _ EZ) as (L0 & L1 & _ & HC).
  unfold zoomed_around_mask. rewrite EZ. cbn [bind].
  destruct (extracted_entries zero (fst arr) H W _ (y0 - b) (y1 + b) (x0 - b) (x1 + b) XA HP ltac:(lia) ltac:(lia)) as (e & -> & HE).
  exists e, (y0 - b), (x0 - b), (y1 + b - (y0 - b)), (x1 + b - (x0 - b)). split; [reflexivity|].
  pose proof HE as (N0 & N1 & HR & HG). split; [now apply Rect_rectb|].
  assert (IN : forall p, In p (unmasked_coords (snd arr)) ->
            y0 - b <= fst p < y0 - b + (y1 + b - (y0 - b)) /\ x0 - b <= snd p < x0 - b + (x1 + b - (x0 - b)))
    by (intros p Hp; specialize (HC p Hp); lia).
  split; [|split; [now apply window_contains_intro|]].
  - intros i j d Hi Hj. rewrite (HG i j d Hi Hj). rewrite (ext_get_window zero _ H W) by assumption.
    unfold window_fun. rewrite !Z.add_0_r. reflexivity.
  - intros y x Hy Hx G.
    assert (Hin : In (y, x) (unmasked_coords (snd arr))) by (apply (In_unmasked _ _ _ _ _ _ XM); repeat split; try lia; exact G).
    specialize (IN _ Hin). cbn [fst snd] in IN. split; [lia|]. split; [lia|]. intros d.
    rewrite (HG (y - (y0 - b)) (x - (x0 - b)) d ltac:(lia) ltac:(lia)). unfold window_fun, inr.
    replace (y0 - b + (y - (y0 - b))) with y by lia. replace (x0 - b + (x - (x0 - b))) with x by lia.
    destruct (Z.leb_spec 0 y), (Z.ltb_spec y H), (Z.leb_spec 0 x), (Z.ltb_spec x W); try lia. cbn [andb].
    unfold zget2, get2. apply nth_indep. destruct XA as (_ & _ & [_ XC] & _). rewrite XC; lia.
Qed.
Lemma zoom_all_masked_raises {B} (zero : B) (arr : arr2d B) b :
  unmasked_coords (snd arr) = [] -> zoomed_around_mask zero arr b = Raise OtherException.
Proof. intros HE. unfold zoomed_around_mask. rewrite (zoom_region_all_masked _ HE). reflexivity. Qed.
