(* placeholder, replaced below *)
From PAV Require Import Model.C09.
