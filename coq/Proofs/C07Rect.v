(* C07 -- rectangular meshes: mesh_util.rectangular_neighbors_from produces, for EVERY shape H x W with H, W >= 2, the
   4-neighbourhood of the grid, and that neighbour relation is in range and symmetric ([nb_ok]). *)
From Coq Require Import ZArith List Bool Lia Arith Permutation Reals Lra.
From PAV Require Import Base.Res Base.Check Base.NumOps Base.Sum Model.C07 Proofs.C07.
Import ListNotations.

(* ------------------------------------------------------------------ the 4-neighbourhood relation *)
Lemma divmod_unique W q c k : (c < W)%nat -> k = (W * q + c)%nat -> (k / W = q /\ k mod W = c)%nat.
Proof.
  intros Hc E. split; symmetry; [apply (Nat.div_unique k W q c Hc E) | apply (Nat.mod_unique k W q c Hc E)].
Qed.
Lemma grid_spec H W p k : In k (grid_neighbors H W p) <->
  ((0 < p / W /\ k = p - W) \/ (0 < p mod W /\ k = p - 1) \/ (p mod W + 1 < W /\ k = p + 1) \/ (p / W + 1 < H /\ k = p + W))%nat.
Proof.
  unfold grid_neighbors. rewrite !in_app_iff.
  destruct (Nat.ltb_spec 0 (p / W)), (Nat.ltb_spec 0 (p mod W)), (Nat.ltb_spec (p mod W + 1) W), (Nat.ltb_spec (p / W + 1) H);
    cbn [In]; intuition lia.
Qed.

Section Grid.
  Variables H W : nat.
  Hypothesis Wpos : (0 < W)%nat.

  Lemma rc_of p : (p < H * W)%nat -> (p = W * (p / W) + p mod W /\ p mod W < W /\ p / W < H)%nat.
  Proof.
    intros Hp. split; [apply Nat.div_mod; lia|]. split; [apply Nat.mod_upper_bound; lia|].
    apply Nat.div_lt_upper_bound; [lia|]. rewrite Nat.mul_comm. exact Hp.
  Qed.

  Lemma grid_sym p k : (p < H * W)%nat -> In k (grid_neighbors H W p) -> (k < H * W)%nat /\ In p (grid_neighbors H W k).
  Proof.
    intros Hp Hk. destruct (rc_of p Hp) as [E [Hc Hr]]. set (r := (p / W)%nat) in *. set (c := (p mod W)%nat) in *.
    apply grid_spec in Hk. fold r c in Hk. rewrite grid_spec.
    destruct Hk as [[H1 ->]|[[H1 ->]|[[H1 ->]|[H1 ->]]]].
    - (* up *) assert (Ek : (p - W = W * (r - 1) + c)%nat) by nia.
      destruct (divmod_unique W (r - 1) c _ Hc Ek) as [D M]. rewrite D, M. split; [lia|]. right. right. right. split; [lia|nia].
    - (* left *) assert (Ek : (p - 1 = W * r + (c - 1))%nat) by lia.
      destruct (divmod_unique W r (c - 1) _ ltac:(lia) Ek) as [D M]. rewrite D, M. split; [lia|]. right. right. left. split; lia.
    - (* right *) assert (Ek : (p + 1 = W * r + (c + 1))%nat) by lia.
      destruct (divmod_unique W r (c + 1) _ ltac:(lia) Ek) as [D M]. rewrite D, M. split; [nia|]. right. left. split; lia.
    - (* down *) assert (Ek : (p + W = W * (r + 1) + c)%nat) by nia.
      destruct (divmod_unique W (r + 1) c _ Hc Ek) as [D M]. rewrite D, M. split; [nia|]. left. split; lia.
  Qed.

  Lemma grid_nodup p : (p < H * W)%nat -> NoDup (grid_neighbors H W p).
  Proof.
    intros Hp. destruct (rc_of p Hp) as [E [Hc Hr]]. unfold grid_neighbors.
    set (r := (p / W)%nat) in *. set (c := (p mod W)%nat) in *.
    assert (Hup : (0 < r -> W <= p)%nat) by nia.
    destruct (Nat.ltb_spec 0 r), (Nat.ltb_spec 0 c), (Nat.ltb_spec (c + 1) W), (Nat.ltb_spec (r + 1) H); cbn [app];
      repeat constructor; cbn [In]; intuition lia.
  Qed.
End Grid.

(* ------------------------------------------------------------------ edges of a table given row by row *)
Lemma nodup_app {A} (l1 l2 : list A) : NoDup l1 -> NoDup l2 -> (forall x, In x l1 -> ~ In x l2) -> NoDup (l1 ++ l2).
Proof.
  induction l1 as [|a l1 IH]; intros H1 H2 HD; [exact H2|]. apply NoDup_cons_iff in H1. destruct H1 as [Ha H1].
  cbn [app]. constructor.
  - intros Hin. apply in_app_or in Hin. destruct Hin as [Hin|Hin]; [contradiction|]. apply (HD a); [left; reflexivity|exact Hin].
  - apply IH; auto. intros x Hx. apply HD. right. exact Hx.
Qed.
Lemma in_edges nb i k : In (i, k) (edges nb) <-> exists row, In (i, row) (indexed nb) /\ In k row.
Proof.
  unfold edges. rewrite in_flat_map. split.
  - intros [[i' row] [Hir Hk]]. cbn [fst snd] in Hk. apply in_map_iff in Hk. destruct Hk as [k' [E Hk']]. inversion E; subst. exists row. auto.
  - intros [row [Hir Hk]]. exists (i, row). split; [exact Hir|]. cbn [fst snd]. apply in_map_iff. exists k. auto.
Qed.
Lemma nodup_edges_gen (l : list (nat * list nat)) : NoDup (map fst l) -> (forall ir, In ir l -> NoDup (snd ir)) ->
  NoDup (flat_map (fun ir => map (fun k => (fst ir, k)) (snd ir)) l).
Proof.
  induction l as [|[i row] l IH]; intros HN HR; [constructor|].
  cbn [map fst] in HN. apply NoDup_cons_iff in HN. destruct HN as [Hi HN]. cbn [flat_map fst snd].
  apply nodup_app.
  - apply FinFun.Injective_map_NoDup; [intros a b E; inversion E; reflexivity|]. apply (HR (i, row)). left. reflexivity.
  - apply IH; auto. intros ir Hir. apply HR. right. exact Hir.
  - intros [i' k] H1 H2. apply in_map_iff in H1. destruct H1 as [k' [E _]]. inversion E; subst.
    apply in_flat_map in H2. destruct H2 as [[i2 row2] [Hin Hk]]. cbn [fst snd] in Hk. apply in_map_iff in Hk. destruct Hk as [k2 [E2 _]].
    inversion E2; subst. apply Hi. apply in_map_iff. exists (i', row2). auto.
Qed.
Lemma indexed_fst_nodup {A} (l : list A) : NoDup (map fst (indexed l)).
Proof. unfold indexed. rewrite map_fst_combine_seq. apply seq_NoDup. Qed.
Lemma in_indexed_map_seq {B} (f : nat -> B) n i b : In (i, b) (indexed (map f (seq 0 n))) <-> (i < n)%nat /\ b = f i.
Proof.
  unfold indexed. rewrite map_length, seq_length. split.
  - intros Hin. destruct (In_nth _ _ (0%nat, f 0%nat) Hin) as [j [Hj E]].
    rewrite combine_length, seq_length, map_length, seq_length in Hj.
    rewrite combine_nth in E by (rewrite seq_length, map_length, seq_length; reflexivity).
    rewrite seq_nth in E by lia. rewrite (map_nth f) in E. rewrite seq_nth in E by lia. cbn in E. inversion E; subst. split; [lia|reflexivity].
  - intros [Hi ->]. replace (i, f i) with (nth i (combine (seq 0 n) (map f (seq 0 n))) (0%nat, f 0%nat)).
    + apply nth_In. rewrite combine_length, seq_length, map_length, seq_length. lia.
    + rewrite combine_nth by (rewrite seq_length, map_length, seq_length; reflexivity).
      rewrite seq_nth by lia. rewrite (map_nth f), seq_nth by lia. reflexivity.
Qed.

Lemma symmetric_of_nodup nb : NoDup (edges nb) -> (forall i k, In (i, k) (edges nb) -> In (k, i) (edges nb)) -> nb_symmetric nb = true.
Proof.
  intros HN HS. unfold nb_symmetric. apply forallb_forall. intros [i k] Hin. apply Nat.eqb_eq. cbn [fst snd].
  rewrite !count_pair_occ. rewrite (NoDup_count_occ' pair_dec (edges nb)) in HN.
  rewrite (HN _ Hin), (HN _ (HS _ _ Hin)). reflexivity.
Qed.

Theorem grid_rows_ok H W : nb_ok (grid_rows H W) = true.
Proof.
  unfold nb_ok. destruct (Nat.eq_dec W 0) as [->|HW0].
  { unfold grid_rows. rewrite Nat.mul_0_r. reflexivity. }
  assert (Wpos : (0 < W)%nat) by lia.
  assert (L : length (grid_rows H W) = (H * W)%nat) by (unfold grid_rows; rewrite map_length, seq_length; reflexivity).
  assert (EI : forall i k, In (i, k) (edges (grid_rows H W)) <-> (i < H * W)%nat /\ In k (grid_neighbors H W i)).
  { intros i k. rewrite in_edges. unfold grid_rows. split.
    - intros [row [Hir Hk]]. apply in_indexed_map_seq in Hir. destruct Hir as [Hi ->]. auto.
    - intros [Hi Hk]. exists (grid_neighbors H W i). split; [apply in_indexed_map_seq; auto|exact Hk]. }
  apply andb_true_iff. split.
  - rewrite L. unfold nb_in_range. apply forallb_forall. intros row Hr. apply forallb_forall. intros k Hk. apply Nat.ltb_lt.
    unfold grid_rows in Hr. apply in_map_iff in Hr. destruct Hr as [p [<- Hp]]. apply in_seq in Hp.
    apply (grid_sym H W Wpos p k); [lia|exact Hk].
  - apply symmetric_of_nodup.
    + unfold edges. apply nodup_edges_gen; [apply indexed_fst_nodup|]. intros [i row] Hir. unfold grid_rows in Hir.
      apply in_indexed_map_seq in Hir. destruct Hir as [Hi ->]. cbn [snd]. apply grid_nodup; auto.
    + intros i k Hin. apply EI in Hin. destruct Hin as [Hi Hk]. destruct (grid_sym H W Wpos i k Hi Hk) as [Hk2 Hi2]. apply EI. auto.
Qed.

(* ------------------------------------------------------------------ the region loops write the 4-neighbourhood *)
Lemma grid_at H W r c : (c < W)%nat ->
  grid_neighbors H W (W * r + c) =
  (if (0 <? r)%nat then [(W * r + c - W)%nat] else []) ++ (if (0 <? c)%nat then [(W * r + c - 1)%nat] else [])
  ++ (if (c + 1 <? W)%nat then [(W * r + c + 1)%nat] else []) ++ (if (r + 1 <? H)%nat then [(W * r + c + W)%nat] else []).
Proof.
  intros Hc. unfold grid_neighbors. destruct (divmod_unique W r c (W * r + c) Hc eq_refl) as [D M]. rewrite D, M. reflexivity.
Qed.

Lemma fold_write_length ws : forall cur, length (fold_left rect_write ws cur) = length cur.
Proof. induction ws as [|qv ws IH]; intros cur; cbn [fold_left]; [reflexivity|]. rewrite IH. unfold rect_write. apply upd_set_length. Qed.

Lemma apply_writes_inv (F : nat -> list Z) p ws : forall cur,
  (forall qv, In qv ws -> (Z.to_nat (fst qv) < length cur)%nat /\ snd qv = F (Z.to_nat (fst qv))) ->
  (nth p cur [] = F p \/ exists qv, In qv ws /\ Z.to_nat (fst qv) = p) ->
  nth p (fold_left rect_write ws cur) [] = F p.
Proof.
  induction ws as [|qv ws IH]; intros cur Hok Hp; cbn [fold_left].
  - destruct Hp as [Hp|[qv [[] _]]]. exact Hp.
  - destruct (Hok qv (or_introl eq_refl)) as [Hlt Hv]. apply IH.
    + intros qv' Hin. unfold rect_write. rewrite upd_set_length. apply Hok. right. exact Hin.
    + unfold rect_write. rewrite nth_upd_set by exact Hlt.
      destruct (Nat.eqb_spec (Z.to_nat (fst qv)) p) as [E|N]; [left; rewrite Hv, E; reflexivity|].
      destruct Hp as [Hp|[qv' [[->|Hin] E']]]; [left; exact Hp|contradiction|right; exists qv'; auto].
Qed.

Section Writes.
  Variables H W : nat.
  Hypothesis H2 : (2 <= H)%nat.
  Hypothesis W2 : (2 <= W)%nat.
  Let F (q : nat) : list Z := map Z.of_nat (grid_neighbors H W q).

  (* a write at pixel W * r + c with the value the code computes *)
  Lemma write_ok (idx : Z) (v : list Z) r c : (r < H)%nat -> (c < W)%nat -> idx = Z.of_nat (W * r + c) ->
    v = map Z.of_nat ((if (0 <? r)%nat then [(W * r + c - W)%nat] else []) ++ (if (0 <? c)%nat then [(W * r + c - 1)%nat] else [])
        ++ (if (c + 1 <? W)%nat then [(W * r + c + 1)%nat] else []) ++ (if (r + 1 <? H)%nat then [(W * r + c + W)%nat] else [])) ->
    (Z.to_nat idx < H * W)%nat /\ v = F (Z.to_nat idx).
  Proof.
    intros Hr Hc -> ->. rewrite Nat2Z.id. split; [nia|]. unfold F. rewrite grid_at by exact Hc. reflexivity.
  Qed.

  Lemma writes_ok qv : In qv (rect_writes H W) -> (Z.to_nat (fst qv) < H * W)%nat /\ snd qv = F (Z.to_nat (fst qv)).
  Proof.
    unfold rect_writes. intros Hin.
    repeat (apply in_app_or in Hin; destruct Hin as [Hin|Hin]).
    - (* corners *)
      cbn [In] in Hin. destruct Hin as [<-|[<-|[<-|[<-|[]]]]]; cbn [fst snd].
      + apply (write_ok _ _ 0 0); [lia|lia|lia|].
        destruct (Nat.ltb_spec 0 0), (Nat.ltb_spec (0 + 1) W), (Nat.ltb_spec (0 + 1) H); try lia. cbn [app map]. repeat f_equal; lia.
      + apply (write_ok _ _ 0 (W - 1)); [lia|lia|lia|].
        destruct (Nat.ltb_spec 0 0), (Nat.ltb_spec 0 (W - 1)), (Nat.ltb_spec (W - 1 + 1) W), (Nat.ltb_spec (0 + 1) H); try lia. cbn [app map]. repeat f_equal; lia.
      + apply (write_ok _ _ (H - 1) 0); [lia|lia|nia|].
        destruct (Nat.ltb_spec 0 (H - 1)), (Nat.ltb_spec 0 0), (Nat.ltb_spec (0 + 1) W), (Nat.ltb_spec (H - 1 + 1) H); try lia. cbn [app map]. repeat f_equal; nia.
      + apply (write_ok _ _ (H - 1) (W - 1)); [lia|lia|nia|].
        destruct (Nat.ltb_spec 0 (H - 1)), (Nat.ltb_spec 0 (W - 1)), (Nat.ltb_spec (W - 1 + 1) W), (Nat.ltb_spec (H - 1 + 1) H); try lia. cbn [app map]. repeat f_equal; nia.
    - (* top edge *)
      apply in_map_iff in Hin. destruct Hin as [pix [<- Hp]]. apply in_seq in Hp. cbn [fst snd].
      apply (write_ok _ _ 0 pix); [lia|lia|lia|].
      destruct (Nat.ltb_spec 0 0), (Nat.ltb_spec 0 pix), (Nat.ltb_spec (pix + 1) W), (Nat.ltb_spec (0 + 1) H); try lia. cbn [app map]. repeat f_equal; lia.
    - (* left edge *)
      apply in_map_iff in Hin. destruct Hin as [pix [<- Hp]]. apply in_seq in Hp. cbn [fst snd].
      apply (write_ok _ _ pix 0); [lia|lia|nia|].
      destruct (Nat.ltb_spec 0 pix), (Nat.ltb_spec 0 0), (Nat.ltb_spec (0 + 1) W), (Nat.ltb_spec (pix + 1) H); try lia. cbn [app map]. repeat f_equal; nia.
    - (* right edge *)
      apply in_map_iff in Hin. destruct Hin as [pix [<- Hp]]. apply in_seq in Hp. cbn [fst snd].
      apply (write_ok _ _ pix (W - 1)); [lia|lia|nia|].
      destruct (Nat.ltb_spec 0 pix), (Nat.ltb_spec 0 (W - 1)), (Nat.ltb_spec (W - 1 + 1) W), (Nat.ltb_spec (pix + 1) H); try lia. cbn [app map]. repeat f_equal; nia.
    - (* bottom edge *)
      apply in_map_iff in Hin. destruct Hin as [pix [<- Hp]]. apply in_seq in Hp. cbn [fst snd].
      apply (write_ok _ _ (H - 1) (W - 1 - pix)); [lia|lia|nia|].
      destruct (Nat.ltb_spec 0 (H - 1)), (Nat.ltb_spec 0 (W - 1 - pix)), (Nat.ltb_spec (W - 1 - pix + 1) W), (Nat.ltb_spec (H - 1 + 1) H); try lia.
      cbn [app map]. repeat f_equal; nia.
    - (* central *)
      apply in_flat_map in Hin. destruct Hin as [x [Hx Hin]]. apply in_seq in Hx.
      apply in_map_iff in Hin. destruct Hin as [y [<- Hy]]. apply in_seq in Hy. cbn [fst snd].
      apply (write_ok _ _ x y); [lia|lia|nia|].
      destruct (Nat.ltb_spec 0 x), (Nat.ltb_spec 0 y), (Nat.ltb_spec (y + 1) W), (Nat.ltb_spec (x + 1) H); try lia. cbn [app map]. repeat f_equal; nia.
  Qed.
End Writes.

Section Cover.
  Variables H W : nat.
  Hypothesis H2 : (2 <= H)%nat.
  Hypothesis W2 : (2 <= W)%nat.

  Lemma writes_cover p : (p < H * W)%nat -> exists qv, In qv (rect_writes H W) /\ Z.to_nat (fst qv) = p.
  Proof.
    intros Hp. destruct (rc_of H W ltac:(lia) p Hp) as [E [Hc Hr]]. set (r := (p / W)%nat) in *. set (c := (p mod W)%nat) in *.
    unfold rect_writes.
    destruct (Nat.eq_dec r 0) as [R0|R0]; [|destruct (Nat.eq_dec r (H - 1)) as [R1|R1]];
      (destruct (Nat.eq_dec c 0) as [C0|C0]; [|destruct (Nat.eq_dec c (W - 1)) as [C1|C1]]).
    - eexists. split; [apply in_or_app; left; left; reflexivity|]. cbn [fst]. nia.
    - eexists. split; [apply in_or_app; left; right; left; reflexivity|]. cbn [fst]. nia.
    - exists (let p := Z.of_nat c in (p, [p - 1; p + 1; p + Z.of_nat W]))%Z. split.
      + apply in_or_app; right. apply in_or_app; left. apply in_map_iff. exists c. split; [reflexivity|apply in_seq; lia].
      + cbn [fst]. nia.
    - eexists. split; [apply in_or_app; left; right; right; left; reflexivity|]. cbn [fst]. nia.
    - eexists. split; [apply in_or_app; left; right; right; right; left; reflexivity|]. cbn [fst]. nia.
    - exists (let q := (Z.of_nat H * Z.of_nat W - Z.of_nat (W - 1 - c) - 1)%Z in (q, [q - Z.of_nat W; q - 1; q + 1]))%Z. split.
      + do 4 (apply in_or_app; right). apply in_or_app; left. apply in_map_iff. exists (W - 1 - c)%nat. split; [reflexivity|apply in_seq; lia].
      + cbn [fst]. nia.
    - exists (let q := (Z.of_nat r * Z.of_nat W)%Z in (q, [q - Z.of_nat W; q + 1; q + Z.of_nat W]))%Z. split.
      + do 2 (apply in_or_app; right). apply in_or_app; left. apply in_map_iff. exists r. split; [reflexivity|apply in_seq; lia].
      + cbn [fst]. nia.
    - exists (let q := (Z.of_nat r * Z.of_nat W + Z.of_nat W - 1)%Z in (q, [q - Z.of_nat W; q - 1; q + Z.of_nat W]))%Z. split.
      + do 3 (apply in_or_app; right). apply in_or_app; left. apply in_map_iff. exists r. split; [reflexivity|apply in_seq; lia].
      + cbn [fst]. nia.
    - exists (let q := (Z.of_nat r * Z.of_nat W + Z.of_nat c)%Z in (q, [q - Z.of_nat W; q - 1; q + 1; q + Z.of_nat W]))%Z. split.
      + do 5 (apply in_or_app; right). apply in_flat_map. exists r. split; [apply in_seq; lia|].
        apply in_map_iff. exists c. split; [reflexivity|apply in_seq; lia].
      + cbn [fst]. nia.
  Qed.

  Theorem rect_neighbors_all : rect_neighbors H W = map (map Z.of_nat) (grid_rows H W).
  Proof.
    apply (nth_ext _ _ [] []).
    - unfold rect_neighbors, grid_rows. rewrite fold_write_length, repeat_length, !map_length, seq_length. reflexivity.
    - intros p Hp. unfold rect_neighbors in *. rewrite fold_write_length, repeat_length in Hp.
      rewrite (apply_writes_inv (fun q => map Z.of_nat (grid_neighbors H W q)) p).
      + unfold grid_rows. change (@nil Z) with (map Z.of_nat []) at 1. rewrite (map_nth (map Z.of_nat)).
        rewrite (nth_indep _ [] (grid_neighbors H W 0)) by (rewrite map_length, seq_length; exact Hp).
        rewrite (map_nth (grid_neighbors H W)), seq_nth by exact Hp. reflexivity.
      + intros qv Hin. rewrite repeat_length. apply (writes_ok H W H2 W2 qv Hin).
      + right. apply writes_cover, Hp.
  Qed.
End Cover.

(* for every shape a rectangular mesh can have (the Rectangular mesh class demands >= 3 x 3; >= 2 x 2 suffices) the neighbour
   table handed to the regularization schemes is the grid's 4-neighbourhood, in range and symmetric *)
Theorem T_rect_all H W : (2 <= H)%nat -> (2 <= W)%nat ->
  rect_neighbors H W = map (map Z.of_nat) (grid_rows H W) /\ nb_ok (grid_rows H W) = true.
Proof. intros HH HW. split; [apply rect_neighbors_all; auto|apply grid_rows_ok]. Qed.

(* the neighbour-difference schemes on a rectangular mesh of ANY shape >= 2 x 2 *)
Local Open Scope R_scope.
Lemma T_rect_constant H W (eps c : R) : (2 <= H)%nat -> (2 <= W)%nat ->
  (forall a b, (a < H * W)%nat -> (b < H * W)%nat ->
     @mget ROps (@constant_matrix ROps eps c (grid_rows H W)) a b = @mget ROps (@constant_matrix ROps eps c (grid_rows H W)) b a)
  /\ (forall x : list R, length x = (H * W)%nat ->
        @quad ROps (@constant_matrix ROps eps c (grid_rows H W)) x = @qf_constant ROps eps c (grid_rows H W) x)
  /\ (0 < eps -> forall x : list R, length x = (H * W)%nat -> (exists i, nth i x 0 <> 0) ->
        0 < @quad ROps (@constant_matrix ROps eps c (grid_rows H W)) x).
Proof.
  intros HH HW. pose proof (grid_rows_ok H W) as OK.
  assert (L : length (grid_rows H W) = (H * W)%nat) by (unfold grid_rows; rewrite map_length, seq_length; reflexivity).
  split; [|split].
  - intros a b Ha Hb. apply T_constant_sym; [exact OK| rewrite L; exact Ha | rewrite L; exact Hb].
  - intros x Hx. apply T_constant_qf; [exact OK|rewrite L; exact Hx].
  - intros He x Hx Hnz. apply T_constant_pd; auto. rewrite L. exact Hx.
Qed.
Lemma T_rect_weighted H W (eps : R) (w : list R) : (2 <= H)%nat -> (2 <= W)%nat -> length w = (H * W)%nat ->
  (forall a b, (a < H * W)%nat -> (b < H * W)%nat ->
     @mget ROps (@weighted_matrix ROps eps w (grid_rows H W)) a b = @mget ROps (@weighted_matrix ROps eps w (grid_rows H W)) b a)
  /\ (forall x : list R, length x = (H * W)%nat ->
        @quad ROps (@weighted_matrix ROps eps w (grid_rows H W)) x = @qf_weighted ROps eps w (grid_rows H W) x)
  /\ (0 < eps -> forall x : list R, length x = (H * W)%nat -> (exists i, nth i x 0 <> 0) ->
        0 < @quad ROps (@weighted_matrix ROps eps w (grid_rows H W)) x).
Proof.
  intros HH HW Lw. pose proof (grid_rows_ok H W) as OK.
  assert (L : length (grid_rows H W) = (H * W)%nat) by (unfold grid_rows; rewrite map_length, seq_length; reflexivity).
  assert (WOK : wnb_ok w (grid_rows H W) = true).
  { unfold wnb_ok. apply andb_true_iff. split; [apply Nat.eqb_eq; rewrite L; symmetry; exact Lw|exact OK]. }
  split; [|split].
  - intros a b Ha Hb. apply T_weighted_sym; [exact WOK| tr; rewrite Lw; exact Ha | tr; rewrite Lw; exact Hb].
  - intros x Hx. apply T_weighted_qf; [exact WOK|tr; rewrite Lw; exact Hx].
  - intros He x Hx Hnz. apply T_weighted_pd; auto. tr. rewrite Lw. exact Hx.
Qed.
