(* C07 -- lemmas about the model of the regularization matrices (coq/Model/C07.v). *)
From Coq Require Import ZArith List Bool Reals Lra Lia Permutation.
From PAV Require Import Base.Res Base.Check Base.NumOps Base.Sum Model.C07.
Import ListNotations.

Lemma madd_length {O} (M : @mat O) i j v : length (madd M i j v) = length M.
Proof. revert i; induction M as [|r M IH]; intros [|i]; simpl; auto. Qed.
