(* C03 -- proofs about the Convolver model (Model/C03.v) at the reals.
   Part 1: generic list / sum facts.  Part 2: mask_index_array = position in the unmasked list.
   Part 3: the scatter loops gathered (hits formula).  Part 4: convolve = conv_full of the combined image.
   Part 5: mapping-matrix, linearity, whole-frame agreement, rejection of even kernels, blurring mask. *)
From Coq Require Import ZArith Reals Lra Lia List Bool Arith ZifyBool FinFun.
From PAV Require Import Base.Res Base.Check Base.NumOps Base.Sum Model.C03 Model.C03Lib.
Import ListNotations.
Local Open Scope Z_scope.

(* ================================================================== 1. generic facts *)
Lemma nth_ext_len {B} (l1 l2 : list B) d :
  length l1 = length l2 -> (forall k, (k < length l1)%nat -> nth k l1 d = nth k l2 d) -> l1 = l2.
Proof.
  revert l2. induction l1 as [|a l1 IH]; intros [|b l2] Hl Hn; cbn in *; try discriminate; auto.
  f_equal.
  - apply (Hn 0%nat). lia.
  - apply IH; [lia|]. intros k Hk. apply (Hn (S k)). lia.
Qed.
Lemma nth_map_lt {B C} (f : B -> C) l k d d' : (k < length l)%nat -> nth k (map f l) d' = f (nth k l d).
Proof. revert k. induction l as [|a l IH]; intros [|k] Hk; cbn in *; try lia; auto. apply IH. lia. Qed.
Lemma filter_flat_map {B C} (g : B -> list C) (p : C -> bool) l :
  filter p (flat_map g l) = flat_map (fun y => filter p (g y)) l.
Proof. induction l as [|a l IH]; cbn; auto. now rewrite filter_app, IH. Qed.
Lemma map_flat_map {B C D} (g : B -> list C) (f : C -> D) l :
  map f (flat_map g l) = flat_map (fun y => map f (g y)) l.
Proof. induction l as [|a l IH]; cbn; auto. now rewrite map_app, IH. Qed.
Lemma flat_map_ext_in {B C} (f g : B -> list C) l :
  (forall x, In x l -> f x = g x) -> flat_map f l = flat_map g l.
Proof. induction l as [|a l IH]; cbn; intros H; auto. rewrite H, IH; auto. Qed.
Lemma NoDup_app_intro {B} (l1 l2 : list B) :
  NoDup l1 -> NoDup l2 -> (forall x, In x l1 -> In x l2 -> False) -> NoDup (l1 ++ l2).
Proof.
  induction 1 as [|a l1 Ha Hd IH]; intros H2 Hx; cbn; auto. constructor.
  - rewrite in_app_iff. intros [H|H]; [contradiction | apply (Hx a); [now left | assumption]].
  - apply IH; auto. intros x H1 H2'. apply (Hx x); [now right | assumption].
Qed.
Lemma combine_map_r {A B C} (f : B -> C) (v : list A) (s : list B) :
  combine v (map f s) = map (fun ap => (fst ap, f (snd ap))) (combine v s).
Proof. revert s. induction v as [|a v IH]; intros [|b s]; cbn; auto. now rewrite IH. Qed.
Lemma combine_map_l {A B C} (f : A -> C) (v : list A) (s : list B) :
  combine (map f v) s = map (fun ap => (f (fst ap), snd ap)) (combine v s).
Proof. revert s. induction v as [|a v IH]; intros [|b s]; cbn; auto. now rewrite IH. Qed.
Lemma flat_prod {A B C} (G : A -> B -> list C) la lb :
  flat_map (fun a => flat_map (fun b => G a b) lb) la = flat_map (fun ab => G (fst ab) (snd ab)) (list_prod la lb).
Proof.
  induction la as [|a la IH]; cbn; auto. rewrite flat_map_app, IH. f_equal. clear IH.
  induction lb as [|b lb IHb]; cbn; auto. now rewrite IHb.
Qed.
Lemma flat_map_prod {A B C} (g : A -> B -> C) la lb :
  flat_map (fun a => map (fun b => g a b) lb) la = map (fun ab => g (fst ab) (snd ab)) (list_prod la lb).
Proof.
  induction la as [|a la IH]; cbn; auto. rewrite map_app, IH. f_equal. now rewrite map_map.
Qed.
Lemma NoDup_list_prod {A B} (la : list A) (lb : list B) : NoDup la -> NoDup lb -> NoDup (list_prod la lb).
Proof.
  intros Ha Hb. induction Ha as [|a la Hn Hd IH]; cbn; [constructor|].
  apply NoDup_app_intro; auto.
  - apply Injective_map_NoDup; auto. intros x y E. now inversion E.
  - intros [x y] H1 H2. apply in_map_iff in H1. destruct H1 as [b [E _]]. inversion E; subst.
    apply in_prod_iff in H2. tauto.
Qed.

(* ---- seqZ ---- *)
Lemma seqZ_length lo n : length (seqZ lo n) = Z.to_nat n.
Proof. unfold seqZ. now rewrite map_length, seq_length. Qed.
Lemma in_seqZ lo n x : In x (seqZ lo n) <-> lo <= x < lo + n.
Proof.
  unfold seqZ. rewrite in_map_iff. split.
  - intros [i [E H]]. apply in_seq in H. lia.
  - intros H. exists (Z.to_nat (x - lo)). split; [lia|]. apply in_seq. lia.
Qed.
Lemma nth_seqZ lo n i d : (i < Z.to_nat n)%nat -> nth i (seqZ lo n) d = lo + Z.of_nat i.
Proof.
  intros H. unfold seqZ. rewrite (nth_map_lt _ _ _ 0%nat) by (rewrite seq_length; exact H).
  rewrite seq_nth by exact H. reflexivity.
Qed.
Lemma NoDup_seqZ lo n : NoDup (seqZ lo n).
Proof. unfold seqZ. apply Injective_map_NoDup; [|apply seq_NoDup]. intros x y E. lia. Qed.
Lemma seqZ_cons lo n : seqZ lo (Z.of_nat (S n)) = lo :: seqZ (lo + 1) (Z.of_nat n).
Proof.
  unfold seqZ. rewrite !Nat2Z.id. cbn [seq map]. f_equal; [lia|].
  rewrite <- seq_shift, map_map. apply map_ext. intros; lia.
Qed.
Lemma nth_map_seqZ {B} (f : Z -> B) n i d : 0 <= i < n -> nth (Z.to_nat i) (map f (seqZ 0 n)) d = f i.
Proof.
  intros H. rewrite (nth_map_lt _ _ _ 0) by (rewrite seqZ_length; lia).
  rewrite nth_seqZ by lia. f_equal. lia.
Qed.

(* ---- pixels ---- *)
Lemma px_eqb_eq p q : px_eqb p q = true <-> p = q.
Proof. unfold px_eqb. destruct p, q; cbn. split; [intros H; f_equal; lia | intros H; inversion H; lia]. Qed.
Lemma px_eqb_refl p : px_eqb p p = true.
Proof. now apply px_eqb_eq. Qed.
Lemma px_eqb_neq p q : px_eqb p q = false <-> p <> q.
Proof. rewrite <- px_eqb_eq. destruct (px_eqb p q); split; congruence. Qed.

Lemma all_px_prod {B} (g : list (list B)) : all_px g = list_prod (seqZ 0 (rows g)) (seqZ 0 (cols g)).
Proof. unfold all_px. rewrite flat_map_prod. rewrite <- (map_id (list_prod _ _)) at 2. apply map_ext. now intros []. Qed.
Lemma NoDup_all_px {B} (g : list (list B)) : NoDup (all_px g).
Proof. rewrite all_px_prod. apply NoDup_list_prod; apply NoDup_seqZ. Qed.
Lemma in_all_px {B} (g : list (list B)) p : In p (all_px g) <-> inframe g p = true.
Proof.
  rewrite all_px_prod. destruct p as [y x]. etransitivity; [apply in_prod_iff|]. rewrite !in_seqZ. unfold inframe. cbn [fst snd]. lia.
Qed.
Lemma NoDup_unmasked m : NoDup (unmasked m).
Proof. apply NoDup_filter, NoDup_all_px. Qed.
Lemma in_unmasked m p : In p (unmasked m) <-> mz m p = false.
Proof.
  unfold unmasked. rewrite filter_In, in_all_px. unfold mz. destruct (inframe m p); cbn.
  - destruct (getZ true m p); cbn; split; intros; try tauto; try discriminate. destruct H; discriminate.
  - split; [intros [H _]; discriminate | discriminate].
Qed.
Lemma mz_false m p : mz m p = false <-> inframe m p = true /\ getZ true m p = false.
Proof. unfold mz. destruct (inframe m p); split; intros; try tauto; try discriminate. destruct H; discriminate. Qed.

(* ================================================================== 2. mask_index_array *)
(* the unmasked pixels by structural recursion over the rows (row y, first column x) *)
Fixpoint urow (y x : Z) (r : list bool) : list px :=
  match r with [] => [] | b :: t => if b then urow y (x + 1) t else (y, x) :: urow y (x + 1) t end.
Fixpoint urows (y : Z) (m : mask) : list px :=
  match m with [] => [] | r :: t => urow y 0 r ++ urows (y + 1) t end.

Lemma urow_filter (f : px -> bool) y : forall r x0,
  (forall i, (i < length r)%nat -> f (y, x0 + Z.of_nat i) = negb (nth i r true)) ->
  filter f (map (fun x => (y, x)) (seqZ x0 (Z.of_nat (length r)))) = urow y x0 r.
Proof.
  induction r as [|b t IH]; intros x0 Hf; [reflexivity|].
  cbn [length]. rewrite seqZ_cons. cbn [map filter urow].
  assert (E0 : f (y, x0) = negb b).
  { specialize (Hf 0%nat). cbn in Hf. rewrite Z.add_0_r in Hf. apply Hf. lia. }
  rewrite E0, IH.
  - destruct b; reflexivity.
  - intros i Hi. specialize (Hf (S i)). cbn [nth length] in Hf.
    replace (x0 + 1 + Z.of_nat i) with (x0 + Z.of_nat (S i)) by lia. apply Hf. lia.
Qed.
Lemma urows_filter (f : px -> bool) W : forall t y0,
  (forall r, In r t -> length r = W) ->
  (forall j i, (j < length t)%nat -> (i < W)%nat -> f (y0 + Z.of_nat j, Z.of_nat i) = negb (nth i (nth j t []) true)) ->
  flat_map (fun y => filter f (map (fun x => (y, x)) (seqZ 0 (Z.of_nat W)))) (seqZ y0 (Z.of_nat (length t))) = urows y0 t.
Proof.
  induction t as [|r t IH]; intros y0 HW Hf; [reflexivity|].
  cbn [length]. rewrite seqZ_cons. cbn [flat_map urows]. f_equal.
  - rewrite <- (HW r) by now left. apply urow_filter. intros i Hi.
    specialize (Hf 0%nat i). cbn [nth] in Hf. rewrite Z.add_0_r in Hf. rewrite Z.add_0_l. apply Hf; [cbn; lia|].
    rewrite <- (HW r) by now left. exact Hi.
  - apply IH.
    + intros r' Hr'. apply HW. now right.
    + intros j i Hj Hi. specialize (Hf (S j) i). cbn [nth length] in Hf.
      replace (y0 + 1 + Z.of_nat j) with (y0 + Z.of_nat (S j)) by lia. apply Hf; lia.
Qed.

Lemma rectb_rows {B} (g : list (list B)) : rectb g = true -> forall r, In r g -> length r = length (hd [] g).
Proof. unfold rectb. rewrite forallb_forall. intros H r Hr. apply Nat.eqb_eq. now apply H. Qed.
Lemma rect_nth_len {B} (g : list (list B)) j : rectb g = true -> (j < length g)%nat -> length (nth j g []) = length (hd [] g).
Proof. intros H Hj. apply rectb_rows; auto. now apply nth_In. Qed.

Lemma mz_nat m j i : (j < length m)%nat -> (i < length (hd [] m))%nat ->
  mz m (Z.of_nat j, Z.of_nat i) = nth i (nth j m []) true.
Proof.
  intros Hj Hi. unfold mz, inframe, getZ, rows, cols. cbn [fst snd]. rewrite !Nat2Z.id.
  replace (_ && _ && _ && _) with true by lia. reflexivity.
Qed.

Lemma unmasked_urows m : rectb m = true -> unmasked m = urows 0 m.
Proof.
  intros R. unfold unmasked, all_px. rewrite filter_flat_map. unfold rows, cols.
  apply urows_filter.
  - apply rectb_rows; exact R.
  - intros j i Hj Hi. rewrite Z.add_0_l, mz_nat by assumption. reflexivity.
Qed.

Lemma midx_row_spec y d : forall r c x0 l c', midx_row r c = (l, c') ->
  length l = length r /\ c' = c + Z.of_nat (length (urow y x0 r)) /\
  forall i, (i < length r)%nat ->
    if nth i r true then nth i l (-1) = -1
    else c <= nth i l (-1) < c' /\ nth (Z.to_nat (nth i l (-1) - c)) (urow y x0 r) d = (y, x0 + Z.of_nat i).
Proof.
  induction r as [|b t IH]; intros c x0 l c' E.
  - cbn in E. inversion E; subst. cbn. split; [reflexivity|]. split; [lia|]. intros i Hi; lia.
  - cbn [midx_row] in E. destruct b.
    + destruct (midx_row t c) as [l1 c1] eqn:E1. inversion E; subst l c'. clear E.
      destruct (IH c (x0 + 1) l1 c1 E1) as [HL [HC HI]]. cbn [urow length]. split; [lia|]. split; [lia|].
      intros [|i] Hi; cbn [nth]; [reflexivity|].
      specialize (HI i ltac:(cbn in Hi; lia)). destruct (nth i t true); [exact HI|].
      replace (x0 + Z.of_nat (S i)) with (x0 + 1 + Z.of_nat i) by lia. exact HI.
    + destruct (midx_row t (c + 1)) as [l1 c1] eqn:E1. inversion E; subst l c'. clear E.
      destruct (IH (c + 1) (x0 + 1) l1 c1 E1) as [HL [HC HI]]. cbn [urow length]. split; [lia|]. split; [lia|].
      intros [|i] Hi; cbn [nth].
      * split; [lia|]. rewrite Z.sub_diag, Z.add_0_r. reflexivity.
      * specialize (HI i ltac:(cbn in Hi; lia)). destruct (nth i t true); [exact HI|].
        destruct HI as [HB HN]. split; [lia|].
        replace (Z.to_nat (nth i l1 (-1) - c)) with (S (Z.to_nat (nth i l1 (-1) - (c + 1)))) by lia.
        cbn [nth]. rewrite HN. f_equal. lia.
Qed.

Lemma midx_rows_spec d : forall m c y0,
  length (midx_rows m c) = length m /\
  forall j, (j < length m)%nat ->
    length (nth j (midx_rows m c) []) = length (nth j m []) /\
    forall i, (i < length (nth j m []))%nat ->
      if nth i (nth j m []) true then nth i (nth j (midx_rows m c) []) (-1) = -1
      else c <= nth i (nth j (midx_rows m c) []) (-1) < c + Z.of_nat (length (urows y0 m)) /\
           nth (Z.to_nat (nth i (nth j (midx_rows m c) []) (-1) - c)) (urows y0 m) d = (y0 + Z.of_nat j, Z.of_nat i).
Proof.
  induction m as [|r t IH]; intros c y0.
  - cbn. split; [reflexivity|]. intros j Hj; lia.
  - cbn [midx_rows]. destruct (midx_row r c) as [l c1] eqn:E1.
    destruct (midx_row_spec y0 d r c 0 l c1 E1) as [HL [HC HI]].
    destruct (IH c1 (y0 + 1)) as [HLt HJ]. cbn [length urows]. split; [lia|].
    rewrite app_length.
    intros [|j] Hj; cbn [nth].
    + split; [exact HL|]. intros i Hi. specialize (HI i Hi). destruct (nth i r true); [exact HI|].
      destruct HI as [HB HN]. split; [lia|]. rewrite app_nth1 by lia. rewrite HN. f_equal; lia.
    + destruct (HJ j ltac:(cbn in Hj; lia)) as [HLj HIj]. split; [exact HLj|]. intros i Hi. specialize (HIj i Hi).
      destruct (nth i (nth j t []) true); [exact HIj|].
      destruct HIj as [HB HN]. split; [lia|].
      replace (Z.to_nat (nth i (nth j (midx_rows t c1) []) (-1) - c))
        with (length (urow y0 0 r) + Z.to_nat (nth i (nth j (midx_rows t c1) []) (-1) - c1)%Z)%nat by lia.
      rewrite app_nth2_plus, HN. f_equal; lia.
Qed.

Lemma midx_rows_m m : rows (mask_index_array m) = rows m.
Proof. unfold rows, mask_index_array. now rewrite (proj1 (midx_rows_spec (0, 0) m 0 0)). Qed.
Lemma midx_cols_m m : cols (mask_index_array m) = cols m.
Proof.
  unfold cols, mask_index_array. destruct m as [|r t]; [reflexivity|]. cbn [midx_rows].
  destruct (midx_row r 0) as [l c1] eqn:E1. cbn [hd].
  now rewrite (proj1 (midx_row_spec 0 (0, 0) r 0 0 l c1 E1)).
Qed.
Lemma inframe_midx m q : inframe (mask_index_array m) q = inframe m q.
Proof. unfold inframe. now rewrite midx_rows_m, midx_cols_m. Qed.

(* mask_index_array holds -1 at masked pixels and, at an unmasked pixel, its position in the slim order *)
Lemma midx_spec m q d : rectb m = true -> inframe m q = true ->
  if getZ true m q then getZ (-1) (mask_index_array m) q = -1
  else 0 <= getZ (-1) (mask_index_array m) q /\
       (Z.to_nat (getZ (-1)%Z (mask_index_array m) q) < length (unmasked m))%nat /\
       nth (Z.to_nat (getZ (-1) (mask_index_array m) q)) (unmasked m) d = q.
Proof.
  intros R F. destruct q as [y x]. unfold inframe, rows, cols in F. cbn [fst snd] in F.
  unfold getZ. cbn [fst snd]. rewrite (unmasked_urows m R).
  destruct (midx_rows_spec d m 0 0) as [_ HJ].
  assert (Hy : (Z.to_nat y < length m)%nat) by lia.
  destruct (HJ (Z.to_nat y) Hy) as [_ HI].
  assert (Hx : (Z.to_nat x < length (nth (Z.to_nat y) m []))%nat).
  { rewrite rect_nth_len by assumption. lia. }
  specialize (HI (Z.to_nat x) Hx). unfold mask_index_array.
  destruct (nth (Z.to_nat x) (nth (Z.to_nat y) m []) true); [exact HI|].
  destruct HI as [HB HN]. rewrite Z.sub_0_r in HN. repeat split; try lia.
  rewrite HN. f_equal; lia.
Qed.

(* slim index <-> pixel *)
Lemma midx_is_position m q k d : rectb m = true -> mz m q = false -> (k < length (unmasked m))%nat ->
  (Z.to_nat (getZ (-1) (mask_index_array m) q) = k <-> q = nth k (unmasked m) d).
Proof.
  intros R Hq Hk. apply mz_false in Hq. destruct Hq as [F G].
  pose proof (midx_spec m q d R F) as S. rewrite G in S. destruct S as [S0 [S1 S2]]. split.
  - intros E. rewrite <- E. symmetry. exact S2.
  - intros E. apply (proj1 (NoDup_nth (unmasked m) d) (NoDup_unmasked m)); auto. rewrite S2. exact E.
Qed.

(* ================================================================== 3. the scatter loops, gathered *)
Notation RK := (list (list R)).
Definition kcells (K : RK) : list (Z * Z) := list_prod (seqZ 0 (rows K)) (seqZ 0 (cols K)).
(* pixel that source p feeds through kernel cell ij / pixel that feeds target t through cell ab *)
Definition tgt (K : RK) (p : px) (ij : Z * Z) : px := (fst p - rows K / 2 + fst ij, snd p - cols K / 2 + snd ij).
Definition src (K : RK) (t : px) (ab : Z * Z) : px := (fst t + rows K / 2 - fst ab, snd t + cols K / 2 - snd ab).
Definition kval (K : RK) (ij : Z * Z) : R := getZ (@zero ROps) K ij.
Definition scale (a : R) (tk : nat * R) : nat * R := (fst tk, (a * snd tk)%R).
Definition cell (m : mask) (K : RK) (p : px) (ij : Z * Z) : list (nat * R) :=
  let mi := mask_index_array m in let q := tgt K p ij in
  if inframe mi q then
    if (getZ (-1) mi q >=? 0) && negb (getZ true m q) then [(Z.to_nat (getZ (-1) mi q), kval K ij)] else []
  else [].

Lemma tgt_src K p t ij : px_eqb (tgt K p ij) t = px_eqb p (src K t ij).
Proof. unfold px_eqb, tgt, src. cbn [fst snd]. lia. Qed.

Lemma hits_app k l1 l2 : hits k (l1 ++ l2) = hits k l1 ++ hits k l2.
Proof. unfold hits. now rewrite filter_app, map_app. Qed.
Lemma hits_flat_map {A} k (f : A -> list (nat * R)) l : hits k (flat_map f l) = flat_map (fun x => hits k (f x)) l.
Proof. induction l as [|a l IH]; cbn [flat_map]; auto. now rewrite hits_app, IH. Qed.
Lemma sumR_flat_map {A} (f : A -> list R) l : sumR (flat_map f l) = sumR (map (fun x => sumR (f x)) l).
Proof. induction l as [|a l IH]; cbn [flat_map map sumR]; auto. now rewrite sumR_app, IH. Qed.
Lemma flat_map_map {A B C} (g : A -> B) (f : B -> list C) l : flat_map f (map g l) = flat_map (fun x => f (g x)) l.
Proof. induction l as [|a l IH]; cbn; auto. now rewrite IH. Qed.

Lemma frame_cells m K p : @frame_at ROps m (mask_index_array m) K p = flat_map (cell m K p) (kcells K).
Proof.
  unfold frame_at, kcells.
  rewrite (flat_prod (fun i j => cell m K p (i, j))). apply flat_map_ext. now intros [i j].
Qed.

Lemma nth_unmasked m k d : (k < length (unmasked m))%nat -> mz m (nth k (unmasked m) d) = false.
Proof. intros H. apply in_unmasked. now apply nth_In. Qed.

Lemma cell_hits m K p ij a k : rectb m = true -> (k < length (unmasked m))%nat ->
  sumR (hits k (map (scale a) (cell m K p ij))) =
  if px_eqb (tgt K p ij) (nth k (unmasked m) (0, 0)) then (a * kval K ij)%R else 0%R.
Proof.
  intros R Hk. unfold cell. cbv zeta. rewrite inframe_midx.
  pose proof (nth_unmasked m k (0, 0) Hk) as Ht. apply mz_false in Ht. destruct Ht as [Ft Gt].
  set (t := nth k (unmasked m) (0, 0)) in *. set (q := tgt K p ij).
  destruct (inframe m q) eqn:F.
  - pose proof (midx_spec m q (0, 0) R F) as S.
    destruct (getZ true m q) eqn:G.
    + rewrite andb_false_r. cbn. destruct (px_eqb q t) eqn:E; [|reflexivity].
      apply px_eqb_eq in E. congruence.
    + destruct S as [S0 [S1 S2]].
      replace (getZ (-1) (mask_index_array m) q >=? 0) with true by lia. cbn [andb negb map]. unfold scale, hits. cbn [filter fst snd].
      assert (Q : mz m q = false) by (apply mz_false; auto).
      pose proof (midx_is_position m q k (0, 0) R Q Hk) as P. fold t in P.
      destruct (Nat.eqb (Z.to_nat (getZ (-1) (mask_index_array m) q)) k) eqn:E.
      * apply Nat.eqb_eq in E. apply P in E. rewrite E, px_eqb_refl. cbn. lra.
      * destruct (px_eqb q t) eqn:E2; [|reflexivity].
        apply px_eqb_eq in E2. apply P in E2. apply Nat.eqb_neq in E. contradiction.
  - cbn. destruct (px_eqb q t) eqn:E; [|reflexivity]. apply px_eqb_eq in E. congruence.
Qed.

Lemma frame_hits m K p a k : rectb m = true -> (k < length (unmasked m))%nat ->
  sumR (hits k (map (scale a) (@frame_at ROps m (mask_index_array m) K p))) =
  sumR (map (fun ij => if px_eqb (tgt K p ij) (nth k (unmasked m) (0, 0)) then (a * kval K ij)%R else 0%R) (kcells K)).
Proof.
  intros R Hk. rewrite frame_cells, map_flat_map, hits_flat_map, sumR_flat_map.
  apply sumR_map_ext. intros ij _. now apply cell_hits.
Qed.

Lemma entries_scale (v : list R) frames :
  @entries ROps v frames = flat_map (fun vf => map (scale (fst vf)) (snd vf)) (combine v frames).
Proof. reflexivity. Qed.

Lemma entries_hits m K (S : list px) (v : list R) k : rectb m = true -> (k < length (unmasked m))%nat ->
  sumR (hits k (@entries ROps v (map (@frame_at ROps m (mask_index_array m) K) S))) =
  sumR (map (fun ap => sumR (map (fun ij =>
          if px_eqb (tgt K (snd ap) ij) (nth k (unmasked m) (0, 0)) then (fst ap * kval K ij)%R else 0%R) (kcells K)))
        (combine v S)).
Proof.
  intros R Hk. rewrite entries_scale, combine_map_r, flat_map_map, hits_flat_map, sumR_flat_map.
  apply sumR_map_ext. intros [a p] _. cbn [fst snd]. now apply frame_hits.
Qed.

(* every scatter target is a valid slim index *)
Lemma frame_targets m K p : rectb m = true ->
  Forall (fun e => (fst e < length (unmasked m))%nat) (@frame_at ROps m (mask_index_array m) K p).
Proof.
  intros R. rewrite frame_cells. apply Forall_flat_map, Forall_forall. intros ij _.
  unfold cell. cbv zeta. rewrite inframe_midx. set (q := tgt K p ij).
  destruct (inframe m q) eqn:F; [|constructor].
  pose proof (midx_spec m q (0, 0) R F) as S.
  destruct (getZ true m q) eqn:G; [rewrite andb_false_r; constructor|].
  destruct ((getZ (-1) (mask_index_array m) q >=? 0) && negb false); constructor; [|constructor].
  cbn [fst]. tauto.
Qed.
Lemma entries_targets (v : list R) frames n :
  Forall (Forall (fun e : nat * R => (fst e < n)%nat)) frames ->
  Forall (fun e => (fst e < n)%nat) (@entries ROps v frames).
Proof.
  intros H. rewrite entries_scale. apply Forall_flat_map, Forall_forall. intros [a fr] Hin.
  apply in_combine_r in Hin. rewrite Forall_forall in H. specialize (H fr Hin). cbn [fst snd].
  rewrite Forall_forall in *. intros e He. apply in_map_iff in He. destruct He as [e' [<- He']].
  cbn. now apply H.
Qed.
Lemma frames_targets m K (S : list px) : rectb m = true ->
  Forall (Forall (fun e : nat * R => (fst e < length (unmasked m))%nat)) (map (@frame_at ROps m (mask_index_array m) K) S).
Proof. intros R. apply Forall_forall. intros fr H. apply in_map_iff in H. destruct H as [p [<- _]]. now apply frame_targets. Qed.

(* ================================================================== 4. convolve = conv_full of the combined image *)
(* the native image holding v on the pixel list S, as a sum of indicators *)
Definition ind_sum (v : list R) (S : list px) (q : px) : R :=
  sumR (map (fun ap => if px_eqb (snd ap) q then fst ap else 0%R) (combine v S)).

Lemma lookup_notin ps (v : list R) q : ~ In q ps -> @lookup ROps ps v q = 0%R.
Proof.
  revert v. induction ps as [|p ps IH]; intros [|a v] H; cbn [lookup]; try reflexivity.
  destruct (px_eqb p q) eqn:E.
  - apply px_eqb_eq in E. subst. exfalso. apply H. now left.
  - apply IH. intros H'. apply H. now right.
Qed.
Lemma ind_sum_notin v S q : ~ In q S -> ind_sum v S q = 0%R.
Proof.
  intros H. unfold ind_sum. apply sumR_map_zero. intros [a p] Hin. cbn [fst snd].
  apply in_combine_r in Hin. destruct (px_eqb p q) eqn:E; [|reflexivity].
  apply px_eqb_eq in E. subst. contradiction.
Qed.
Lemma lookup_sum ps (v : list R) q : NoDup ps -> @lookup ROps ps v q = ind_sum v ps q.
Proof.
  intros N. revert v. induction N as [|p ps Hn Hd IH]; intros [|a v]; try reflexivity.
  cbn [lookup]. unfold ind_sum. cbn [combine map sumR fst snd]. fold (ind_sum v ps q).
  destruct (px_eqb p q) eqn:E.
  - apply px_eqb_eq in E. subst. rewrite ind_sum_notin by assumption. lra.
  - rewrite IH. lra.
Qed.
Lemma combined_sum m bm (img bimg : list R) q : (forall p, mz bm p = false -> mz m p = true) ->
  @combined ROps m bm img bimg q = (ind_sum img (unmasked m) q + ind_sum bimg (unmasked bm) q)%R.
Proof.
  intros Sub. unfold combined. destruct (mz m q) eqn:E; cbn [negb].
  - rewrite lookup_sum by apply NoDup_unmasked. rewrite (ind_sum_notin img).
    + lra.
    + rewrite in_unmasked. congruence.
  - rewrite lookup_sum by apply NoDup_unmasked. rewrite (ind_sum_notin bimg).
    + lra.
    + rewrite in_unmasked. intros H. apply Sub in H. congruence.
Qed.

(* ---- blurring mask (contract) ---- *)
Lemma bmask_unfold m kh kw bm : blurring_mask m kh kw = Ok bm ->
  footprints_in m kh kw = true /\
  bm = map (fun y => map (fun x =>
          negb (mz m (y, x) && existsb (fun p => existsb (px_eqb (y, x)) (footprint kh kw p)) (unmasked m)))
        (seqZ 0 (cols m))) (seqZ 0 (rows m)).
Proof.
  unfold blurring_mask, footprints_in. destruct (forallb _ (unmasked m)); intros H; inversion H. auto.
Qed.
Lemma bmask_dims m kh kw bm : blurring_mask m kh kw = Ok bm -> rows bm = rows m /\ (m <> [] -> cols bm = cols m).
Proof.
  intros H. apply bmask_unfold in H. destruct H as [_ ->]. split.
  - unfold rows at 1. rewrite map_length, seqZ_length. unfold rows. lia.
  - intros Hm. destruct m as [|r t]; [congruence|]. unfold rows. cbn [length]. rewrite seqZ_cons. cbn [map].
    unfold cols at 1. cbn [hd]. rewrite map_length, seqZ_length. unfold cols. lia.
Qed.
Lemma bmask_inframe m kh kw bm q : blurring_mask m kh kw = Ok bm -> inframe bm q = inframe m q.
Proof.
  intros H. destruct (bmask_dims _ _ _ _ H) as [HR HC]. unfold inframe. rewrite HR.
  destruct m as [|r t].
  - unfold rows. cbn [length]. lia.
  - rewrite HC by discriminate. reflexivity.
Qed.
Lemma bmask_all_px m kh kw bm : blurring_mask m kh kw = Ok bm -> all_px bm = all_px m.
Proof.
  intros H. destruct (bmask_dims _ _ _ _ H) as [HR HC]. rewrite !all_px_prod, HR.
  destruct m as [|r t]; [reflexivity|]. now rewrite HC by discriminate.
Qed.
Lemma bmask_get m kh kw bm q : blurring_mask m kh kw = Ok bm -> inframe m q = true ->
  getZ true bm q = negb (mz m q && existsb (fun p => existsb (px_eqb q) (footprint kh kw p)) (unmasked m)).
Proof.
  intros H F. apply bmask_unfold in H. destruct H as [_ ->]. destruct q as [y x].
  unfold inframe in F. cbn [fst snd] in F. unfold getZ. cbn [fst snd].
  rewrite (nth_map_seqZ _ (rows m) y) by lia. rewrite (nth_map_seqZ _ (cols m) x) by lia. reflexivity.
Qed.
Lemma bmask_sub m kh kw bm p : blurring_mask m kh kw = Ok bm -> mz bm p = false -> mz m p = true.
Proof.
  intros H Hp. apply mz_false in Hp. destruct Hp as [F G]. rewrite (bmask_inframe _ _ _ _ _ H) in F.
  rewrite (bmask_get _ _ _ _ _ H F) in G. destruct (mz m p); [reflexivity|discriminate].
Qed.
Lemma blur_pixels m kh kw bm : blurring_mask m kh kw = Ok bm ->
  filter (fun p => mz m p && negb (mz bm p)) (all_px m) = unmasked bm.
Proof.
  intros H. unfold unmasked. rewrite (bmask_all_px _ _ _ _ H). apply filter_ext_in. intros p _.
  destruct (mz bm p) eqn:E; cbn [negb]; [apply andb_false_r|].
  now rewrite (bmask_sub _ _ _ _ _ H E).
Qed.

Lemma init_ok_inv m (K : RK) c : @convolver_init ROps m K = Ok c ->
  oddb (rows K) = true /\ oddb (cols K) = true /\
  blurring_mask m (rows K) (cols K) = Ok (bmask c) /\
  image_frames c = map (@frame_at ROps m (mask_index_array m) K) (unmasked m) /\
  blurring_frames c = map (@frame_at ROps m (mask_index_array m) K) (unmasked (bmask c)) /\
  n_image c = length (unmasked m).
Proof.
  intros H. unfold convolver_init in H. cbn [T ROps] in H. unfold oddb.
  destruct ((rows K mod 2 =? 0) || (cols K mod 2 =? 0)) eqn:E; cbv beta iota in H; [discriminate H|].
  destruct (blurring_mask m (rows K) (cols K)) as [bm|e] eqn:B; cbv beta iota zeta in H; [|discriminate H].
  inversion H; subst c; clear H. cbn [bmask image_frames blurring_frames n_image].
  rewrite (blur_pixels _ _ _ _ B). repeat split; try reflexivity; lia.
Qed.

Lemma conv_full_cells (N : px -> R) (K : RK) t :
  @conv_full ROps N K t = sumR (map (fun ab => (kval K ab * N (src K t ab))%R) (kcells K)).
Proof.
  unfold conv_full. cbv zeta. rewrite sumT_sumR.
  rewrite (flat_map_prod (fun a b : Z => mul ROps (getZ (@zero ROps) K (a, b)) (N (fst t + rows K / 2 - a, snd t + cols K / 2 - b)))).
  unfold kcells. apply f_equal, map_ext. now intros [a b].
Qed.

(* one scatter loop = one indicator part of the convolution *)
Lemma part_swap (K : RK) t (v : list R) (S : list px) :
  sumR (map (fun ap => sumR (map (fun ij =>
          if px_eqb (tgt K (snd ap) ij) t then (fst ap * kval K ij)%R else 0%R) (kcells K))) (combine v S))
  = sumR (map (fun ab => (kval K ab * ind_sum v S (src K t ab))%R) (kcells K)).
Proof.
  rewrite (sumR_swap (fun ap ij => if px_eqb (tgt K (snd ap) ij) t then (fst ap * kval K ij)%R else 0%R)).
  apply sumR_map_ext. intros ab _. unfold ind_sum. rewrite <- sumR_map_scal.
  apply sumR_map_ext. intros [a p] _. cbn [fst snd]. rewrite tgt_src.
  destruct (px_eqb p (src K t ab)); lra.
Qed.

Theorem convolve_core m (K : RK) c (img bimg : list R) k :
  rectb m = true -> @convolver_init ROps m K = Ok c ->
  length img = length (unmasked m) -> (k < length (unmasked m))%nat ->
  nth k (@convolve ROps c img bimg) 0%R =
  @conv_full ROps (@combined ROps m (bmask c) img bimg) K (nth k (unmasked m) (0, 0)).
Proof.
  intros R Hc Hl Hk. destruct (init_ok_inv m K c Hc) as [_ [_ [HB [HI [HBF _]]]]].
  unfold convolve. cbn [T ROps]. rewrite HI, HBF, Hl.
  rewrite scatter_gather_zeros.
  2:{ apply Forall_app. split; apply entries_targets, frames_targets; exact R. }
  rewrite hits_app, sumR_app, !entries_hits by assumption. rewrite !part_swap, <- sumR_map_add.
  rewrite conv_full_cells. apply sumR_map_ext. intros ab _.
  rewrite (combined_sum m (bmask c)) by (intros p; apply (bmask_sub _ _ _ _ _ HB)). lra.
Qed.

(* ================================================================== 5. the theorems *)
Lemma convolve_length c (img bimg : list R) : length (@convolve ROps c img bimg) = length img.
Proof. unfold convolve. rewrite scatter_length. unfold zeros. apply repeat_length. Qed.
Lemma no_blurring_as_convolve c (img : list R) : @convolve_no_blurring ROps c img = @convolve ROps c img [].
Proof. unfold convolve, convolve_no_blurring, entries at 3. cbn [combine flat_map]. now rewrite app_nil_r. Qed.

(* T1 *)
Theorem convolve_is_conv_full m (K : RK) c (img bimg : list R) k :
  rectb m = true -> @convolver_init ROps m K = Ok c ->
  length img = length (unmasked m) -> length bimg = length (unmasked (bmask c)) -> (k < length (unmasked m))%nat ->
  nth k (@convolve ROps c img bimg) 0%R =
  @conv_full ROps (@combined ROps m (bmask c) img bimg) K (nth k (unmasked m) (0, 0)).
Proof. intros R Hc Hl _ Hk. now apply convolve_core. Qed.

Theorem convolve_eq_map m (K : RK) c (img bimg : list R) :
  rectb m = true -> @convolver_init ROps m K = Ok c ->
  length img = length (unmasked m) -> length bimg = length (unmasked (bmask c)) ->
  @convolve ROps c img bimg = map (@conv_full ROps (@combined ROps m (bmask c) img bimg) K) (unmasked m).
Proof.
  intros R Hc Hl _. apply (nth_ext_len _ _ 0%R).
  - now rewrite convolve_length, map_length.
  - intros k Hk. rewrite convolve_length, Hl in Hk.
    rewrite (nth_map_lt _ _ _ (0, 0)) by exact Hk. now apply convolve_core.
Qed.

(* T2 *)
Theorem no_blurring_is_conv_of_masked_image m (K : RK) c (img : list R) k :
  rectb m = true -> @convolver_init ROps m K = Ok c ->
  length img = length (unmasked m) -> (k < length (unmasked m))%nat ->
  nth k (@convolve_no_blurring ROps c img) 0%R =
  @conv_full ROps (@combined ROps m (bmask c) img []) K (nth k (unmasked m) (0, 0)).
Proof. intros. rewrite no_blurring_as_convolve. now apply convolve_core. Qed.

Theorem no_blurring_eq_map m (K : RK) c (img : list R) :
  rectb m = true -> @convolver_init ROps m K = Ok c -> length img = length (unmasked m) ->
  @convolve_no_blurring ROps c img = map (@conv_full ROps (@combined ROps m (bmask c) img []) K) (unmasked m).
Proof.
  intros R Hc Hl. rewrite no_blurring_as_convolve. apply (nth_ext_len _ _ 0%R).
  - now rewrite convolve_length, map_length.
  - intros k Hk. rewrite convolve_length, Hl in Hk.
    rewrite (nth_map_lt _ _ _ (0, 0)) by exact Hk. now apply convolve_core.
Qed.

(* ---- T3: the mapping matrix, column by column ---- *)
Lemma upd_add_zero (l : list R) i : @upd_add ROps l i 0%R = l.
Proof. revert i. induction l as [|x l IH]; intros [|i]; cbn; auto; f_equal; auto. lra. Qed.
Lemma scatter_app (e1 e2 : list (nat * R)) init : @scatter ROps (e1 ++ e2) init = @scatter ROps e2 (@scatter ROps e1 init).
Proof. unfold scatter. apply fold_left_app. Qed.
Lemma scatter_zero_entries (es : list (nat * R)) : forall init, Forall (fun e => snd e = 0%R) es -> @scatter ROps es init = init.
Proof.
  induction es as [|[i v] es IH]; intros init H; [reflexivity|].
  inversion H as [|? ? Hv Hes]; subst. cbn in Hv. subst v.
  unfold scatter. cbn [fold_left fst snd]. rewrite upd_add_zero. now apply IH.
Qed.
(* skipping the entries equal to zero does not change the result: v * k = 0 *)
Lemma scatter_nz (v : list R) frames init :
  @scatter ROps (@entries_nz ROps v frames) init = @scatter ROps (@entries ROps v frames) init.
Proof.
  unfold entries_nz, entries. revert init.
  generalize (@combine (T ROps) (list (nat * T ROps)) v frames). intros l.
  induction l as [|[a fr] l IH]; intros init; [reflexivity|].
  cbn [flat_map fst snd]. rewrite !scatter_app, IH. f_equal.
  cbn [eqb ROps]. destruct (Reqb a (@zero ROps)) eqn:E; [|reflexivity].
  apply Reqb_true in E. subst a. cbn [scatter fold_left]. symmetry. apply scatter_zero_entries.
  apply Forall_forall. intros e He. apply in_map_iff in He. destruct He as [tk [<- _]]. cbn. unfold zero. cbn. lra.
Qed.
Lemma column_length (M : list (list R)) j : length (@column ROps M j) = length M.
Proof. unfold column. apply map_length. Qed.
Lemma map_nth_seq {B} (l : list B) d : map (fun r => nth r l d) (seq 0 (length l)) = l.
Proof.
  apply (nth_ext_len _ _ d).
  - now rewrite map_length, seq_length.
  - intros k Hk. rewrite map_length, seq_length in Hk.
    rewrite (nth_map_lt _ _ _ 0%nat) by now rewrite seq_length. now rewrite seq_nth.
Qed.

Theorem convolve_matrix_columnwise c (M : list (list R)) j : (j < length (hd [] M))%nat ->
  @column ROps (@convolve_matrix ROps c M) j = @convolve_no_blurring ROps c (@column ROps M j).
Proof.
  intros Hj. unfold convolve_matrix, convolve_no_blurring. cbv zeta. unfold column at 1. rewrite map_map.
  rewrite <- scatter_nz. rewrite column_length.
  set (F := fun j0 : nat => @scatter ROps (@entries_nz ROps (@column ROps M j0) (image_frames c)) (@zeros ROps (length M))).
  assert (HL : length (F j) = length M).
  { unfold F. rewrite scatter_length. unfold zeros. apply repeat_length. }
  change (map (fun x : nat => nth j (map (fun col : list R => nth x col (@zero ROps)) (map F (seq 0 (length (hd [] M))))) (@zero ROps))
            (seq 0 (length M)) = F j).
  rewrite <- (map_nth_seq (F j) (@zero ROps)). rewrite HL. apply map_ext. intros r.
  rewrite (nth_map_lt _ _ _ []) by now rewrite map_length, seq_length.
  rewrite (nth_map_lt _ _ _ 0%nat) by now rewrite seq_length. now rewrite seq_nth.
Qed.

Theorem convolve_matrix_is_conv_full m (K : RK) c (M : list (list R)) j :
  rectb m = true -> @convolver_init ROps m K = Ok c ->
  length M = length (unmasked m) -> (j < length (hd [] M))%nat ->
  @column ROps (@convolve_matrix ROps c M) j =
  map (@conv_full ROps (@combined ROps m (bmask c) (@column ROps M j) []) K) (unmasked m).
Proof.
  intros R Hc Hl Hj. rewrite convolve_matrix_columnwise by exact Hj.
  apply no_blurring_eq_map; auto. now rewrite column_length.
Qed.

(* ---- linearity ---- *)
Lemma lookup_nil ps q : @lookup ROps ps [] q = 0%R.
Proof. destruct ps; reflexivity. Qed.
Lemma lookup_lincomb ps a b q : forall u v : list R, length u = length v ->
  @lookup ROps ps (@lincomb ROps a u b v) q = (a * @lookup ROps ps u q + b * @lookup ROps ps v q)%R.
Proof.
  induction ps as [|p ps IH]; intros [|x u] [|y v] Hl; try discriminate Hl; cbn [lookup lincomb combine map].
  - unfold zero; cbn; lra.
  - unfold zero; cbn; lra.
  - unfold zero; cbn; lra.
  - cbn [fst snd]. destruct (px_eqb p q); [reflexivity|]. apply IH. cbn in Hl. lia.
Qed.
Lemma conv_full_linear (N N1 N2 : px -> R) a b (K : RK) t :
  (forall q, N q = (a * N1 q + b * N2 q)%R) ->
  @conv_full ROps N K t = (a * @conv_full ROps N1 K t + b * @conv_full ROps N2 K t)%R.
Proof.
  intros H. rewrite !conv_full_cells, <- !sumR_map_scal, <- sumR_map_add.
  apply sumR_map_ext. intros ab _. rewrite H. lra.
Qed.
Lemma lincomb_length a b (u v : list R) : length u = length v -> length (@lincomb ROps a u b v) = length u.
Proof. intros H. unfold lincomb. rewrite map_length, combine_length. cbn [T ROps] in *. lia. Qed.
Lemma nth_lincomb a b : forall (u v : list R) k, length u = length v ->
  nth k (@lincomb ROps a u b v) 0%R = (a * nth k u 0 + b * nth k v 0)%R.
Proof.
  induction u as [|x u IH]; intros [|y v] [|k] Hl; try discriminate Hl; cbn [lincomb combine map nth]; try lra.
  - reflexivity.
  - apply IH. cbn in Hl. lia.
Qed.

Theorem convolve_no_blurring_linear m (K : RK) c a b (u v : list R) :
  rectb m = true -> @convolver_init ROps m K = Ok c ->
  length u = length (unmasked m) -> length v = length (unmasked m) ->
  @convolve_no_blurring ROps c (@lincomb ROps a u b v) =
  @lincomb ROps a (@convolve_no_blurring ROps c u) b (@convolve_no_blurring ROps c v).
Proof.
  intros R Hc Hu Hv.
  assert (Huv : length u = length v) by lia.
  assert (Lc : forall w, length (@convolve_no_blurring ROps c w) = length w).
  { intros w. rewrite no_blurring_as_convolve. apply convolve_length. }
  apply (nth_ext_len _ _ 0%R).
  - rewrite Lc, (lincomb_length a b u v Huv), lincomb_length, Lc; [reflexivity | rewrite !Lc; exact Huv].
  - intros k Hk. rewrite Lc, lincomb_length, Hu in Hk by exact Huv.
    rewrite nth_lincomb by (rewrite !Lc; exact Huv).
    rewrite !(no_blurring_is_conv_of_masked_image m K c) by (auto; rewrite lincomb_length; auto).
    apply conv_full_linear. intros q. unfold combined.
    destruct (negb (mz m q)).
    + now apply lookup_lincomb.
    + rewrite !lookup_nil. lra.
Qed.

(* T4 *)
Theorem outside_irrelevant m c (g1 g2 : list (list R)) :
  (forall q, In q (unmasked m ++ unmasked (bmask c)) -> @img_fun ROps g1 q = @img_fun ROps g2 q) ->
  @convolve ROps c (@slim_of ROps g1 (unmasked m)) (@slim_of ROps g1 (unmasked (bmask c))) =
  @convolve ROps c (@slim_of ROps g2 (unmasked m)) (@slim_of ROps g2 (unmasked (bmask c))).
Proof.
  intros H. unfold slim_of. f_equal; apply map_ext_in; intros q Hq; apply H, in_app_iff; auto.
Qed.

(* ---- T5: construction errors ---- *)
Theorem convolver_init_cases m (K : RK) :
  match @convolver_init ROps m K with
  | Raise e => if oddb (rows K) && oddb (cols K) then footprints_in m (rows K) (cols K) = false /\ e = MaskException
               else e = KernelException
  | Ok c => oddb (rows K) && oddb (cols K) = true /\ footprints_in m (rows K) (cols K) = true /\
            n_image c = length (unmasked m) /\ length (blurring_frames c) = length (unmasked (bmask c))
  end.
Proof.
  destruct (@convolver_init ROps m K) as [c|e] eqn:E.
  - destruct (init_ok_inv m K c E) as [H1 [H2 [HB [_ [HBF HN]]]]]. rewrite H1, H2.
    apply bmask_unfold in HB. rewrite HBF, map_length. tauto.
  - unfold convolver_init in E. cbn [T ROps] in E. unfold oddb.
    destruct ((rows K mod 2 =? 0) || (cols K mod 2 =? 0)) eqn:E2; cbv beta iota in E.
    + replace (negb (rows K mod 2 =? 0) && negb (cols K mod 2 =? 0)) with false by lia. congruence.
    + replace (negb (rows K mod 2 =? 0) && negb (cols K mod 2 =? 0)) with true by lia.
      unfold blurring_mask in E. fold (footprints_in m (rows K) (cols K)) in E.
      destruct (footprints_in m (rows K) (cols K)); cbv beta iota zeta in E; [discriminate E|].
      split; congruence.
Qed.
Theorem even_kernel_rejected m (K : RK) :
  @convolver_init ROps m K = Raise KernelException <-> (rows K mod 2 = 0 \/ cols K mod 2 = 0).
Proof.
  pose proof (convolver_init_cases m K) as H. unfold oddb in H. split.
  - intros E. rewrite E in H.
    destruct (negb (rows K mod 2 =? 0) && negb (cols K mod 2 =? 0)) eqn:E2; [destruct H; discriminate | lia].
  - intros Hev. destruct (@convolver_init ROps m K) as [c|e].
    + lia.
    + replace (negb (rows K mod 2 =? 0) && negb (cols K mod 2 =? 0)) with false in H by lia. congruence.
Qed.
Theorem footprint_outside_rejected m (K : RK) : oddb (rows K) = true -> oddb (cols K) = true ->
  (@convolver_init ROps m K = Raise MaskException <-> footprints_in m (rows K) (cols K) = false).
Proof.
  intros O1 O2. pose proof (convolver_init_cases m K) as H. rewrite O1, O2 in H. cbn [andb] in H. split.
  - intros E. rewrite E in H. tauto.
  - intros F. destruct (@convolver_init ROps m K) as [c|e].
    + destruct H as [_ [H _]]. congruence.
    + destruct H as [_ ->]. reflexivity.
Qed.

(* ---- footprints, T6: the whole-frame convolution, T7: the blurring mask as a set ---- *)
Lemma in_footprint kh kw p q : In q (footprint kh kw p) <->
  (- kh + 1) / 2 <= fst q - fst p < (kh + 1) / 2 /\ (- kw + 1) / 2 <= snd q - snd p < (kw + 1) / 2.
Proof.
  unfold footprint, offs. rewrite in_flat_map. split.
  - intros [dy [Hdy H]]. apply in_map_iff in H. destruct H as [dx [E Hdx]].
    rewrite in_seqZ in Hdy, Hdx. subst q. cbn [fst snd]. lia.
  - intros [H1 H2]. exists (fst q - fst p). split; [apply in_seqZ; lia|].
    apply in_map_iff. exists (snd q - snd p). split; [destruct q; cbn [fst snd]; f_equal; lia | apply in_seqZ; lia].
Qed.
Lemma existsb_px q l : existsb (px_eqb q) l = true <-> In q l.
Proof.
  rewrite existsb_exists. split.
  - intros [x [Hx E]]. apply px_eqb_eq in E. now subst.
  - intros H. exists q. split; [assumption | apply px_eqb_refl].
Qed.
Lemma existsb_ext' {B} (f g : B -> bool) l : (forall x, f x = g x) -> existsb f l = existsb g l.
Proof. intros H. induction l as [|a l IH]; cbn; auto. now rewrite H, IH. Qed.
Lemma in_kcells (K : RK) ab : In ab (kcells K) <-> 0 <= fst ab < rows K /\ 0 <= snd ab < cols K.
Proof. unfold kcells. destruct ab as [a b]. etransitivity; [apply in_prod_iff|]. rewrite !in_seqZ. cbn [fst snd]. lia. Qed.
Lemma src_in_footprint (K : RK) t ab : oddb (rows K) = true -> oddb (cols K) = true -> In ab (kcells K) ->
  In (src K t ab) (footprint (rows K) (cols K) t).
Proof.
  unfold oddb. intros O1 O2 H. apply in_kcells in H. apply in_footprint. unfold src. cbn [fst snd].
  Z.div_mod_to_equations. lia.
Qed.
Lemma lookup_map (G : px -> R) q : forall ps, In q ps -> @lookup ROps ps (map G ps) q = G q.
Proof.
  induction ps as [|p ps IH]; intros H; [contradiction|]. cbn [map lookup].
  destruct (px_eqb p q) eqn:E.
  - apply px_eqb_eq in E. now subst.
  - destruct H as [H|H]; [subst; rewrite px_eqb_refl in E; discriminate | now apply IH].
Qed.

(* inside the footprint of an unmasked pixel the combined image of the slim / blurring values IS the native image *)
Lemma combined_native m (K : RK) c (g : list (list R)) t q :
  @convolver_init ROps m K = Ok c -> mz m t = false -> In q (footprint (rows K) (cols K) t) ->
  @combined ROps m (bmask c) (@slim_of ROps g (unmasked m)) (@slim_of ROps g (unmasked (bmask c))) q = @img_fun ROps g q.
Proof.
  intros Hc Ht Hq. destruct (init_ok_inv m K c Hc) as [_ [_ [HB _]]].
  destruct (bmask_unfold _ _ _ _ HB) as [FP _]. unfold footprints_in in FP.
  rewrite forallb_forall in FP. specialize (FP t (proj2 (in_unmasked m t) Ht)).
  rewrite forallb_forall in FP. specialize (FP q Hq).
  unfold combined, slim_of. destruct (mz m q) eqn:E; cbn [negb].
  - apply lookup_map, in_unmasked, mz_false. split; [now rewrite (bmask_inframe _ _ _ _ _ HB)|].
    rewrite (bmask_get _ _ _ _ _ HB FP), E. cbn [andb].
    replace (existsb _ (unmasked m)) with true; [reflexivity|]. symmetry. apply existsb_exists.
    exists t. split; [now apply in_unmasked | now apply existsb_px].
  - now apply lookup_map, in_unmasked.
Qed.
Lemma conv_full_ext (N1 N2 : px -> R) (K : RK) t :
  (forall ab, In ab (kcells K) -> N1 (src K t ab) = N2 (src K t ab)) -> @conv_full ROps N1 K t = @conv_full ROps N2 K t.
Proof. intros H. rewrite !conv_full_cells. apply sumR_map_ext. intros ab Hab. now rewrite H. Qed.

Theorem whole_frame_agrees m (K : RK) c (g : list (list R)) :
  rectb m = true -> @convolver_init ROps m K = Ok c ->
  @convolved_array ROps m g K =
  @convolve ROps c (@slim_of ROps g (unmasked m)) (@slim_of ROps g (unmasked (bmask c))).
Proof.
  intros R Hc. rewrite (convolve_eq_map m K c) by (auto; unfold slim_of; apply map_length).
  unfold convolved_array. apply map_ext_in. intros t Ht. apply in_unmasked in Ht.
  destruct (init_ok_inv m K c Hc) as [O1 [O2 _]].
  apply conv_full_ext. intros ab Hab. symmetry. apply (combined_native m K c g t); auto.
  now apply src_in_footprint.
Qed.
Theorem zero_residual m (K : RK) c (g : list (list R)) k :
  rectb m = true -> @convolver_init ROps m K = Ok c ->
  (nth k (@convolved_array ROps m g K) 0 -
   nth k (@convolve ROps c (@slim_of ROps g (unmasked m)) (@slim_of ROps g (unmasked (bmask c)))) 0 = 0)%R.
Proof. intros R Hc. rewrite (whole_frame_agrees m K c g R Hc). lra. Qed.

Theorem bmask_is_blur_region m kh kw bm : oddb kh = true -> oddb kw = true ->
  blurring_mask m kh kw = Ok bm -> bm = blur_region m (kh / 2) (kw / 2).
Proof.
  unfold oddb. intros O1 O2 H. apply bmask_unfold in H. destruct H as [_ ->]. unfold blur_region.
  apply map_ext. intros y. apply map_ext. intros x. f_equal. f_equal. apply existsb_ext'. intros p.
  apply eq_iff_eq_true. rewrite existsb_px, in_footprint. cbn [fst snd].
  rewrite andb_true_iff, !Z.leb_le. Z.div_mod_to_equations. lia.
Qed.
Theorem convolver_bmask_is_blur_region m (K : RK) c : @convolver_init ROps m K = Ok c ->
  bmask c = blur_region m (rows K / 2) (cols K / 2).
Proof. intros Hc. destruct (init_ok_inv m K c Hc) as [O1 [O2 [HB _]]]. now apply bmask_is_blur_region. Qed.

(* T1 in the form evaluated by spec_ok: list equality, blurring region given as a set *)
Theorem convolve_spec_form m (K : RK) c (img bimg : list R) :
  rectb m = true -> @convolver_init ROps m K = Ok c ->
  length img = length (unmasked m) -> length bimg = length (unmasked (blur_region m (rows K / 2) (cols K / 2))) ->
  @convolve ROps c img bimg =
  map (@conv_full ROps (@combined ROps m (blur_region m (rows K / 2) (cols K / 2)) img bimg) K) (unmasked m).
Proof.
  intros R Hc Hl Hb. rewrite <- (convolver_bmask_is_blur_region m K c Hc) in *. now apply convolve_eq_map.
Qed.

(* ---- Kernel2D.convolved_array(_with_mask)_from with its own odd-kernel check ---- *)
Theorem whole_checked_cases m (g : list (list R)) (K : RK) :
  @convolved_array_checked ROps m g K =
  if oddb (rows K) && oddb (cols K) then Ok (map (@conv_full ROps (@img_fun ROps g) K) (unmasked m))
  else Raise KernelException.
Proof.
  unfold convolved_array_checked, convolved_array, oddb. cbn [T ROps].
  destruct (rows K mod 2 =? 0), (cols K mod 2 =? 0); reflexivity.
Qed.
Theorem whole_checked_agrees m (K : RK) c (g : list (list R)) :
  rectb m = true -> @convolver_init ROps m K = Ok c ->
  @convolved_array_checked ROps m g K =
  Ok (@convolve ROps c (@slim_of ROps g (unmasked m)) (@slim_of ROps g (unmasked (bmask c)))).
Proof.
  intros R Hc. destruct (init_ok_inv m K c Hc) as [O1 [O2 _]].
  rewrite whole_checked_cases, O1, O2. cbn [andb]. f_equal. now apply whole_frame_agrees.
Qed.
