From Coq Require Import ZArith List Bool Lia.
From PAV Require Import Base.Res Base.Check Model.C14.
Lemma stub : True. Proof. exact I. Qed.
