"""C03 -- masked PSF blurring equals true 2-D convolution restricted to the mask."""
import numpy as np
from fractions import Fraction
from harness.common import cz, cq, cnat, cbool, clist, ctup, cres, import_aa, frac, exn_name, call_res

ID = "C03"
GEN = []
PROPS = "Props/C03.v"
COQ_CHECK = ("Model.C03", "check")
COQ_FALLBACK = None
COQ_IMPORTS = ""
SHARD = 150
RULE = ("random masks (densities 0.1-0.9, plus single pixels, rings with holes, two components) inside frames up to 9x9 whose kernel "
        "footprint stays inside the frame; kernels kh,kw in {1,3,5,7} independently with signed integer / quarter entries, asymmetric; "
        "images, blurring images and mapping matrices with integer, k/4, k/8192 or +-{1,3}*2^-30 entries of either sign, dense and sparse "
        "(zeros included), whole cases rescaled by 2^-34 .. 2^40 (values and/or kernel), kernel entries k+-2^-30, vectors / matrix columns / "
        "kernels whose non-zero entries cancel exactly; every fresh-object case first sends a decoy (mask rotated by 180 degrees, other kernel, "
        "same shapes and pixel count) through the library so that remembered state shows up inside one replayable input; for small masks the whole operator on every unit "
        "image / unit blurring image; a separate malformed stream (even and mixed-parity kernels, footprints leaving the frame). "
        "HISTORY stream: one Convolver object used for a sequence of different inputs (image, second image, matrix, no-blurring, "
        "image object edited in place, matrix edited in place, a second Convolver of the same shapes but other mask/kernel in between, "
        "the first input object again, finally the Kernel2D and Mask2D objects edited in place and a NEW Convolver built from them), one Kernel2D "
        "used for several whole-frame convolutions, results handed out earlier re-read at the end, with masks / kernels / images that are "
        "DERIVED objects (edited in place after their derived attributes were read, from_pixel_coordinates, copies, arithmetic results, "
        "store_native=True, apply_mask of an unmasked array) and a check after every call that no argument was modified. "
        "SIMULATOR stream: SimulatorImaging with noise off and background_sky_level in {0, 2^-20 .. 100}, subtract_background_sky on/off, "
        "normalize_psf on/off (kernel sums +-2^j), exposure times 0.5..1000, Poisson noise-map on/off, noise_if_add_noise_false, seeds; "
        "the same simulator for two images and the first again; then Imaging.apply_mask (fresh / re-masking a masked dataset / the same "
        "mask object edited in place; interior masks and masks touching the frame edge = padded datasets) and the masked dataset's "
        "convolver. "
        "The history also calls the raw-ndarray sibling convolve_image_no_blurring_interpolation and checks every returned structure (paired with "
        "the mask it was computed for, native view = slim values at the unmasked pixels). Simulator additions: psf omitted (the simulator's own "
        "identity kernel), image / kernel / mask pixel scales (square and (y,x)-different) and origins varied independently, input images as "
        "int64 / float32 / list-built / user-subclass / Kernel2D objects, a second image of ANOTHER shape through the same simulator, images "
        "rescaled by 2^-34..2^30 when no sky is involved, the simulator's settings and every shared default-argument object "
        "(Imaging's OverSamplingDataset() ...) fingerprinted before/after, an Imaging built DIRECTLY from the simulated arrays and a "
        "caller-owned kernel (use_normalized_psf default / on / off) -> apply_mask -> apply_over_sampling (explicit / default argument) -> "
        "convolver, blurring with the PSF the dataset carries, caller's kernel unchanged. "
        "INPUT-KIND stream: one history per input through image / blurring image / raw slim buffer / mapping matrix / whole-frame array "
        "given as int64, int32, int8, uint8, bool, float32, Python lists, Fortran-ordered and non-contiguous views (values exactly "
        "representable in the kind, kernels with quarter or k+-2^-30 entries so that a buffer inheriting the input dtype truncates), "
        "user subclasses of Mask2D / Array2D / Kernel2D and a Kernel2D used as the image, masks built from bool / int / list input, every "
        "Kernel2D constructor with checkable contents (no_mask 2-D / slim+shape_native / int / float32, ones, zeros, full on non-square shapes, "
        "no_blur, normalize=True and .normalized with sums +-2^j), mask / kernel / array pixel scales and origins all different, mapping "
        "matrices with 0 columns, masks without any unmasked pixel, the all-zero kernel, one mask with 256 unmasked pixels, every call made twice with the same object and the "
        "argument's contents and dtype compared afterwards. "
        "DIRECTED-KERNEL stream: one-hot kernels (entry 1 and entry c != 1) at every cell of every odd shape 1..7 x 1..7 through the "
        "whole-frame convolution (with and without mask), and for sampled cells (all cells in the thorough tier) and two-hot / "
        "centre-1-plus-cancelling / identity-plus-2^-30 kernels the full pipeline (whole frame, with mask, masked array, Convolver image / "
        "no-blurring / identity mapping matrix, noise-free simulator -> apply_mask -> convolver -> zero residual); the same directed kernels "
        "are mixed into the fresh, history, input-kind and simulator streams. "
        "Entry points: Convolver.convolve_image / convolve_image_no_blurring / convolve_image_no_blurring_interpolation / convolve_mapping_matrix, "
        "Kernel2D.convolved_array_from / convolved_array_with_mask_from, SimulatorImaging.via_image_from -> apply_mask -> convolver, "
        "Imaging(...) -> apply_mask -> apply_over_sampling -> convolver. "
        "Non-trivial = at least 2 unmasked pixels and a kernel with more than one non-zero entry; distinct = distinct JSON input.")
EXHAUSTIVE = {}
TRUSTED = ["hand-written Gallina model coq/Model/C03.v (frame tables + scatter loops), tied to /repo by this correspondence run (exact "
           "rational comparison evaluated inside Coq by vm_compute)",
           "scipy.signal.convolve2d(mode='same') = zero-padded full convolution cropped about the kernel centre (oracle; compared with "
           "conv_full on every KWhole case)",
           "blurring_mask_2d_from is modelled by its input/output contract (C10 proves the contract of the loop)",
           "doubles: all generated values are integers or quarters of small magnitude so every product/sum is exact"]
ASSUMPTIONS = ["real arithmetic (no rounding): theorems over R, correspondence on exactly representable inputs",
               "the simulator's noise-free path and apply_mask are modelled (KSim, KMasked); the padding of apply_mask for masks touching "
               "the frame edge and the noise-map are correspondence-only (Python-side relations + the Coq cases on the padded frame)"]

KS = [1, 3, 5, 7]

def rand_kernel(rng, kh, kw, quarters=False):
    if quarters:
        return [[Fraction(rng.randint(-8, 8), 4) for _ in range(kw)] for _ in range(kh)]
    return [[rng.randint(-3, 3) for _ in range(kw)] for _ in range(kh)]

def rand_mask(rng, H, W, kh, kw, style):
    m = [[True] * W for _ in range(H)]
    y0, y1, x0, x1 = kh // 2, H - kh // 2, kw // 2, W - kw // 2
    cells = [(y, x) for y in range(y0, y1) for x in range(x0, x1)]
    if not cells: return None
    if style == "single":
        y, x = rng.choice(cells); m[y][x] = False
    elif style == "ring":
        for (y, x) in cells:
            if y in (y0, y1 - 1) or x in (x0, x1 - 1): m[y][x] = False
    elif style == "full":
        for (y, x) in cells: m[y][x] = False
    else:
        p = rng.choice([0.15, 0.3, 0.5, 0.7, 0.9])
        for (y, x) in cells:
            if rng.random() < p: m[y][x] = False
        if all(all(r) for r in m):
            y, x = rng.choice(cells); m[y][x] = False
    return m

def rand_vals(rng, n, sparse, ints=False):
    out = []
    for _ in range(n):
        if sparse and rng.random() < 0.5: out.append(Fraction(0))
        elif ints: out.append(Fraction(rng.randint(-9, 9)))
        elif rng.random() < 0.12: out.append(Fraction(rng.choice([-3, -1, 1, 3]), 8192))   # tiny but non-zero (a sparsity threshold would drop it)
        elif rng.random() < 0.07: out.append(Fraction(rng.choice([-3, -1, 1, 3]), 2 ** 30))  # below 1e-8
        elif rng.random() < 0.3: out.append(Fraction(rng.randint(-20, 20), 4))
        else: out.append(Fraction(rng.randint(-9, 9)))
    return out

def zero_sum(v, unit=Fraction(1)):
    """make a non-zero vector whose entries cancel exactly (a `sum == 0 means empty` shortcut would drop it)"""
    v = list(v)
    if len(v) >= 2:
        if v[0] == 0: v[0] = unit
        v[-1] = -sum(v[:-1])
    return v
def p2(e): return Fraction(2) ** int(e)
def sk(K): return [[str(v) for v in r] for r in K]
def blur_count(m, kh, kw):
    H, W = len(m), len(m[0])
    return sum(1 for y in range(H) for x in range(W) if m[y][x] and any(
        not m[yy][xx] for yy in range(max(0, y - kh // 2), min(H, y + kh // 2 + 1))
        for xx in range(max(0, x - kw // 2), min(W, x + kw // 2 + 1))))
def footprints_inside(m, kh, kw):
    H, W = len(m), len(m[0])
    return all(m[y][x] or (y - kh // 2 >= 0 and y + kh // 2 < H and x - kw // 2 >= 0 and x + kw // 2 < W)
               for y in range(H) for x in range(W))
def conv_ref(img, K):
    """true 2-D convolution on Fractions (zero outside the frame); used by the GENERATOR only (to pick a sky level that keeps
    the Poisson rates non-negative), never as an oracle"""
    H, W, kh, kw = len(img), len(img[0]), len(K), len(K[0])
    out = [[Fraction(0)] * W for _ in range(H)]
    for y in range(H):
        for x in range(W):
            t = Fraction(0)
            for a in range(kh):
                for b in range(kw):
                    yy, xx = y + kh // 2 - a, x + kw // 2 - b
                    if 0 <= yy < H and 0 <= xx < W: t += K[a][b] * img[yy][xx]
            out[y][x] = t
    return out

# ------------------------------------------------------------------ directed kernels (rare states random entries never reach)
def one_hot(kh, kw, a, b, c=Fraction(1)):
    K = [[Fraction(0)] * kw for _ in range(kh)]; K[a][b] = Fraction(c); return K
def is_pow2(s):
    s = abs(Fraction(s)); n, d = s.numerator, s.denominator
    return n != 0 and n & (n - 1) == 0 and d & (d - 1) == 0
DK_KINDS = ["one", "onec", "two", "centre1", "idtiny", "twoc"]
DK_PAIRS = [(Fraction(1), Fraction(1)), (Fraction(1), Fraction(-1)), (Fraction(1, 2), Fraction(1, 2)), (Fraction(2), Fraction(-1)),
            (Fraction(1), Fraction(1, 2 ** 30)), (Fraction(3), Fraction(-3)), (Fraction(1), Fraction(3)), (Fraction(-1), Fraction(-1)),
            (Fraction(1), Fraction(0))]
DK_C = [Fraction(2), Fraction(-1), Fraction(1, 2), Fraction(3), Fraction(-3, 4), Fraction(1, 2 ** 30), Fraction(4), Fraction(-2)]
def directed_kernel(rng, kh, kw, kind, pos=None, nonneg=False, pow2=False, tiny=True):
    """kernels that a shortcut of the kind `is this the identity kernel / is there anything to blur` may misjudge: a single entry
    (1 or c != 1) at ANY position (a unit shift, a basis kernel), two entries (sum 1, sum 0, one of them at the centre or not),
    centre 1 plus entries that cancel (sum 1, centre 1, yet not the identity), centre 1 plus an entry of 2^-30 (identity within 1e-8).
    nonneg: no negative entries; pow2: the sum must be +-2^j (so that K / sum K is exact); tiny=False: no entries of 2^-30 (for
    streams whose image values are not integers / quarters, where such products would be rounded)"""
    cells = [(a, b) for a in range(kh) for b in range(kw)]
    centre = (kh // 2, kw // 2)
    if pos is None: pos = rng.choice(cells)
    others = [p for p in cells if p != pos]
    if kind == "one" or not others: 
        if kind in ("one", "two", "centre1", "idtiny"): return one_hot(kh, kw, pos[0], pos[1])
        kind = "onec"
    if kind == "onec":
        cs = [c for c in DK_C if (c > 0 or not nonneg) and (is_pow2(c) or not pow2) and (tiny or c.denominator <= 4)]
        return one_hot(kh, kw, pos[0], pos[1], rng.choice(cs))
    if kind in ("two", "twoc"):
        prs = [p for p in DK_PAIRS if p[1] != 0 and (min(p) >= 0 or not nonneg) and (is_pow2(sum(p)) or not pow2) and (tiny or p[1].denominator <= 4)]
        c1, c2 = rng.choice(prs)
        if kind == "twoc": pos = centre; others = [p for p in cells if p != pos]
        K = one_hot(kh, kw, pos[0], pos[1], c1); q = rng.choice(others); K[q[0]][q[1]] = c2
        return K
    if kind == "centre1" and len(cells) >= 3 and not nonneg:
        K = one_hot(kh, kw, centre[0], centre[1]); o = [p for p in cells if p != centre]
        q1, q2 = rng.sample(o, 2); v = Fraction(rng.choice([1, 2, 3]), rng.choice([1, 4]))
        K[q1[0]][q1[1]] = v; K[q2[0]][q2[1]] = -v
        return K
    # idtiny (also the fallback): the centre is 1 and one other entry is tiny (2^-30) or, when the sum must be a power of two, 1 or 3
    K = one_hot(kh, kw, centre[0], centre[1]); q = rng.choice([p for p in cells if p != centre])
    K[q[0]][q[1]] = rng.choice([Fraction(1), Fraction(3)]) if (pow2 or not tiny) else Fraction(rng.choice([1, 3] if nonneg else [1, -1, 3]), 2 ** 30)
    return K
def dk_positions(rng, kh, kw):
    """sample of positions for the full pipeline: the corners, the centre, the neighbours of the centre, the edge mid-points, two random"""
    cy, cx = kh // 2, kw // 2
    pts = {(0, 0), (0, kw - 1), (kh - 1, 0), (kh - 1, kw - 1), (cy, cx), (0, cx), (kh - 1, cx), (cy, 0), (cy, kw - 1),
           (max(cy - 1, 0), cx), (cy, min(cx + 1, kw - 1))}
    for _ in range(2): pts.add((rng.randrange(kh), rng.randrange(kw)))
    return sorted(pts)

MASK_HOW = ["plain", "edited", "coords", "copy"]
KERNEL_HOW = ["plain", "edited", "arith", "native"]
IMAGE_HOW = ["plain", "arith", "native", "applied", "edited", "neg"]

def gen_inputs(tier, rng):
    n = 1800 if tier == "thorough" else 170
    styles = ["random", "random", "random", "single", "ring", "full"]
    for i in range(n):
        kh, kw = rng.choice(KS), rng.choice(KS)
        H = rng.randint(kh, min(9, kh + 5)); W = rng.randint(kw, min(9, kw + 5))
        m = rand_mask(rng, H, W, kh, kw, rng.choice(styles))
        if m is None: continue
        K = rand_kernel(rng, kh, kw, quarters=(i % 5 == 0))
        if i % 9 == 7: K = directed_kernel(rng, kh, kw, DK_KINDS[(i // 9) % 6])      # one-hot / two-hot / near-identity kernels
        nun = sum(1 for r in m for b in r if not b)
        seed = rng.randrange(10 ** 9)
        # magnitudes: the whole case rescaled by a power of two (exact): values down to ~1e-10 / up to ~1e13, tiny / huge kernels
        vs = rng.choice([-34, -30, 30, 40]) if i % 7 in (1, 6) else 0
        ks = rng.choice([-30, 30]) if i % 7 in (4, 6) else 0
        # kernel entries that need more than 24 significant bits (k +- 2^-30), with integer images so that every sum stays exact
        if i % 13 == 5: K[kh // 2][kw // 2] -= sum(v for r in K for v in r)         # kernel entries cancel exactly
        fine = (i % 11 == 2)
        if fine: K = [[v + Fraction(rng.choice([-1, 0, 1, 3]), 2 ** 30) for v in r] for r in K]
        for op in (["convolve", "noblur", "matrix", "init"] if i % 3 else ["convolve", "matrix", "whole", "init"]):
            yield {"op": op, "m": m, "K": sk(K), "seed": seed, "sparse": bool(i % 2), "vs": vs, "ks": ks, "ints": fine or any(v.denominator > 4 for r in K for v in r), "zs": i % 4 == 1}
        # the whole operator, extracted on basis images (unit image / unit blurring image), for small masks
        nb = blur_count(m, kh, kw)
        if i % 6 == 3 and nun + nb <= 14:
            for k in range(nun + nb):
                yield {"op": "convolve", "m": m, "K": sk(K), "seed": seed, "sparse": False, "basis": k}
    # directed kernels: a shortcut keyed on a SUMMARY of the kernel (number of non-zero entries, their sum, symmetry ...) is
    # wrong for these: unit shift kernels (one entry 1, off centre), one non-unit entry, the centred delta, kernels summing to
    # exactly 1 or 0, constant kernels -- through every operation incl. the whole-frame Kernel2D.convolved_array_from
    for i in range(60 if tier == "thorough" else 18):
        kh, kw = rng.choice([(3, 3), (3, 3), (5, 3), (1, 5), (3, 1), (5, 5), (1, 3)])
        H = rng.randint(kh + 1, min(9, kh + 4)); W = rng.randint(kw + 1, min(9, kw + 4))
        m = rand_mask(rng, H, W, kh, kw, rng.choice(["random", "random", "full", "ring"]))
        if m is None: continue
        K = [[Fraction(0)] * kw for _ in range(kh)]
        off = [(a, b) for a in range(kh) for b in range(kw) if (a, b) != (kh // 2, kw // 2)]
        kind = i % 6
        if kind == 0: a, b = rng.choice(off); K[a][b] = Fraction(1)
        elif kind == 1: a, b = rng.choice(off + [(kh // 2, kw // 2)]); K[a][b] = Fraction(rng.choice([-2, -1, 2, 3, 1]), rng.choice([1, 2, 4]))
        elif kind == 2: K[kh // 2][kw // 2] = Fraction(1)
        elif kind == 3:
            (a, b), (c, d) = rng.sample(off, 2); K[a][b] = Fraction(1, 4); K[c][d] = Fraction(3, 4)
        elif kind == 4:
            K = [[Fraction(v) for v in r] for r in rand_kernel(rng, kh, kw, quarters=True)]
            a, b = rng.choice(off); K[a][b] += rng.choice([0, 1]) - sum(v for r in K for v in r)
        else: K = [[Fraction(rng.choice([1, 1, -1, 2]))] * kw for _ in range(kh)]
        seed = rng.randrange(10 ** 9)
        for op in ("convolve", "matrix", "whole", "noblur"):
            yield {"op": op, "m": m, "K": sk(K), "seed": seed, "sparse": bool(i % 2), "vs": 0, "ks": 0}
    # malformed stream: even kernels (incl. mixed parity 3x4, 1x2, 5x6 ...), footprints leaving the frame
    for i in range(60 if tier == "thorough" else 20):
        kh, kw = rng.choice([1, 2, 3, 4, 5]), rng.choice([1, 2, 3, 4, 5])
        if i % 5 == 0: kh, kw = rng.choice([(3, 4), (1, 2), (5, 6), (4, 3), (2, 1), (6, 5)])
        H, W = rng.randint(3, 6), rng.randint(3, 6)
        m = [[rng.random() < 0.5 for _ in range(W)] for _ in range(H)]
        if all(all(r) for r in m): m[0][0] = False
        K = rand_kernel(rng, kh, kw)
        yield {"op": "init", "m": m, "K": sk(K), "seed": 0, "sparse": False}
        # Kernel2D.convolved_array(_with_mask)_from has its own odd-kernel check and no footprint condition
        yield {"op": "whole", "m": m, "K": sk(K), "seed": i, "sparse": False}
    # history stream: one Convolver / one Kernel2D through a sequence of inputs, derived and edited objects
    for i in range(200 if tier == "thorough" else 22):
        kh, kw = rng.choice([1, 3, 3, 5]), rng.choice([1, 3, 3, 5])
        H = rng.randint(kh + 1, min(8, kh + 4)); W = rng.randint(kw + 1, min(8, kw + 4))
        m = rand_mask(rng, H, W, kh, kw, rng.choice(styles[:5]))
        m2 = rand_mask(rng, H, W, kh, kw, "random")
        if m is None or m2 is None: continue
        Kh = rand_kernel(rng, kh, kw, quarters=(i % 4 == 0))
        if i % 3 == 1: Kh = directed_kernel(rng, kh, kw, DK_KINDS[(i // 3) % 6], tiny=False)
        yield {"op": "hist", "m": m, "m2": m2, "K": sk(Kh),
               "K2": sk(rand_kernel(rng, kh, kw)), "seed": rng.randrange(10 ** 9), "sparse": bool(i % 2),
               "vs": rng.choice([0, 0, 0, -30, 30]), "ks": 0,
               "how": {"mask": MASK_HOW[i % 4], "kernel": KERNEL_HOW[(i // 2) % 4], "image": IMAGE_HOW[i % 6]}}
    # simulator stream (noise off): non-default configurations, one simulator for several images, apply_mask histories
    for i in range(240 if tier == "thorough" else 30):
        yield gen_sim(rng, i)
    for i in range(40 if tier == "thorough" else 4):
        yield {"op": "simulate", "seed": rng.randrange(10 ** 9)}
    # input-KIND stream: the same operations through integer / bool / float32 / list / non-contiguous inputs, user subclasses of the
    # accepted classes, every Kernel2D constructor, mask / array / kernel geometries (pixel scales, origins) varied independently,
    # the sibling entry point convolve_image_no_blurring_interpolation, and directed rare states (no unmasked pixel, zero kernel)
    for i in range(260 if tier == "thorough" else 26):
        yield gen_kinds(rng, i)
    # directed rare state: more than 255 unmasked pixels (slim indices that do not fit a small integer type), thin kernels
    for (H, W, kh, kw) in ([(16, 18, 1, 3), (18, 15, 3, 1), (16, 16, 1, 1)] if tier == "thorough" else [(16, 16, 1, 1)]):
        m = rand_mask(rng, H, W, kh, kw, "full"); K = rand_kernel(rng, kh, kw, quarters=True); seed = rng.randrange(10 ** 9)
        for op in ("init", "convolve"):
            yield {"op": op, "m": m, "K": sk(K), "seed": seed, "sparse": False, "vs": 0, "ks": 0}
    # DIRECTED-KERNEL stream: one-hot kernels (entry 1 and entry c != 1) at EVERY position of every odd shape (1..7 per axis) through
    # the whole-frame convolution (unit shifts / basis kernels: the whole operator, kernel side), and for a sample of positions
    # (all of them in the thorough tier) and for two-hot / centre-1-plus-cancelling / identity-plus-2^-30 kernels the full pipeline:
    # whole frame, with mask, masked array, Convolver (image, no blurring, matrix), simulator -> apply_mask -> convolver -> residual
    for kh in KS:
        for kw in KS:
            cells = [(a, b) for a in range(kh) for b in range(kw)]
            centre = (kh // 2, kw // 2); off = [p for p in cells if p != centre]
            corners = {(0, 0), (0, kw - 1), (kh - 1, 0), (kh - 1, kw - 1)}
            if tier == "thorough": full1, fullc = set(cells), set(cells)
            else:
                # quick tier, full pipeline: two off-centre positions (one of them on the kernel's border) and sometimes the centre
                border = [p for p in off if p[0] in (0, kh - 1) or p[1] in (0, kw - 1)]
                full1 = set(([rng.choice(border)] if border else []) + ([rng.choice(off)] if off else [centre]))
                fullc = {rng.choice(cells)}
            for (a, b) in cells:
                # which whole-frame entry point(s): every position through at least one, corners / the centre through both
                ep = 2 if ((a, b) in corners or (a, b) == centre) else (a + b) % 2
                yield gen_dk(rng, kh, kw, "one", (a, b), "all" if (a, b) in full1 else "whole", ep, tier)
                yield gen_dk(rng, kh, kw, "onec", (a, b), "all" if (a, b) in fullc else "whole", (a + b + 1) % 2, tier)
            for j in range(12 if tier == "thorough" else 2):
                kind = ["two", "centre1", "idtiny", "twoc"][(j + (kh + kw) // 2) % 4] if tier == "thorough" else \
                       [["two", "centre1"], ["idtiny", "twoc"]][(kh // 2 + kw // 2) % 2][j]
                yield gen_dk(rng, kh, kw, kind, None, "all", 2, tier)

def gen_dk(rng, kh, kw, kind, pos, steps, ep, tier):
    K = directed_kernel(rng, kh, kw, kind, pos)
    lean = tier != "thorough"
    if steps == "all":
        H, W = rng.randint(kh + 1, min(10, kh + (2 if lean else 3))), rng.randint(kw + 1, min(10, kw + (2 if lean else 3)))
        m = rand_mask(rng, H, W, kh, kw, rng.choice(["random", "random", "full", "ring", "single"]))
    else:
        H, W = rng.randint(kh, kh + (1 if lean else 2)), rng.randint(kw, kw + (1 if lean else 2))
        m = [[rng.random() < 0.4 for _ in range(W)] for _ in range(H)]
    return {"op": "dk", "K": sk(K), "m": m, "seed": rng.randrange(10 ** 9), "steps": steps, "dkind": kind, "ep": ep, "lean": lean}

IMG_KINDS = ["int64", "f32", "bool", "list", "view", "sub", "kern", "int32", "f64"]
MAT_KINDS = ["int64", "bool", "f32", "fortran", "view", "uint8", "int8", "f64"]
KERNEL_KINDS = ["plain", "int", "f32", "ones", "full", "noblur", "normalize", "normalized", "sub", "slim", "zeros", "fine"]
MASK_KINDS = ["plain", "sub", "list", "int"]
SCALES = [1.0, [2.0, 0.5], 0.25, [0.5, 3.0], 1.0]
ORIGINS = [[0.0, 0.0], [1.0, -2.0], [-0.5, 0.25]]

def gen_kinds(rng, i):
    kk = KERNEL_KINDS[i % len(KERNEL_KINDS)]
    kh, kw = rng.choice([1, 3, 3, 5]), rng.choice([1, 3, 3, 5])
    if kk == "noblur": kh = kw = 3
    if i % 8 == 3 and kh == kw and kk != "noblur": kw = kh + 2 if kh < 5 else 1          # non-square kernels (ones / full / slim: shape[0] vs shape[1])
    H = rng.randint(kh, min(8, kh + 4)); W = rng.randint(kw, min(8, kw + 4))
    style = "empty" if i % 13 == 6 else rng.choice(["random", "random", "single", "ring", "full"])
    m = [[True] * W for _ in range(H)] if style == "empty" else rand_mask(rng, H, W, kh, kw, style)
    K = rand_kernel(rng, kh, kw, quarters=(kk != "int"))
    if kk in ("normalize", "normalized"):
        s0 = sum(v for r in K for v in r)
        K[kh // 2][kw // 2] += rng.choice([Fraction(1), Fraction(2), Fraction(-4), Fraction(1, 2), Fraction(8), Fraction(-1)]) - s0
    if kk == "fine": K = [[v + Fraction(rng.choice([-1, 1, 3]), 2 ** 30) for v in r] for r in K]
    if kk in ("plain", "sub", "slim", "f32") and (i // 12) % 2 == 0: K = directed_kernel(rng, kh, kw, DK_KINDS[(i + i // 12) % 6])
    return {"op": "kinds", "m": m, "K": sk(K), "seed": rng.randrange(10 ** 9), "kk": kk,
            "ik": IMG_KINDS[(i // 2) % len(IMG_KINDS)], "mk": MAT_KINDS[(i // 3) % len(MAT_KINDS)], "mask_kind": MASK_KINDS[(i // 5) % 4],
            "mps": SCALES[i % 5], "kps": SCALES[(i // 2 + 1) % 5], "aps": SCALES[(i // 3 + 2) % 5],
            "morigin": ORIGINS[i % 3], "aorigin": ORIGINS[(i // 2) % 3], "ncols": 0 if i % 11 == 7 else rng.randint(1, 3)}

def gen_sim(rng, i):
    kh, kw = rng.choice([1, 3, 3, 5]), rng.choice([1, 3, 3, 5])
    if i % 9 == 4: kh, kw = rng.choice([(3, 4), (1, 2), (5, 6), (2, 3), (4, 4), (2, 1)])     # rejected kernels
    even = kh % 2 == 0 or kw % 2 == 0
    psf_none = (i % 8 == 5) and not even          # psf omitted: the simulator's own identity kernel (3x3 in the current code)
    if psf_none: kh = kw = 3
    edge = (i % 5 in (1, 3))                # a mask touching the frame edge: apply_mask pads the dataset
    H = rng.randint(kh + 1, max(kh + 1, 6 if edge else 8)); W = rng.randint(kw + 1, max(kw + 1, 6 if edge else 8))
    normalize = bool(rng.random() < 0.5)
    sky = Fraction(0) if i % 4 == 3 else rng.choice([Fraction(1, 4), Fraction(1), Fraction(5, 2), Fraction(10), Fraction(75, 2),
                                                     Fraction(100), Fraction(1, 2 ** 20), Fraction(3, 2 ** 30)])
    signed = sky != 0 and rng.random() < 0.6
    K = rand_kernel(rng, kh, kw, quarters=(i % 5 == 0))
    if not signed: K = [[abs(v) for v in r] for r in K]
    if normalize:
        # np.sum(kernel) must be +-2^j so that the division is exact
        s0 = sum(v for r in K for v in r)
        tgt = rng.choice([Fraction(1), Fraction(2), Fraction(4), Fraction(8), Fraction(1, 2)] + ([Fraction(-1), Fraction(-4)] if signed else []))
        if not signed:
            while tgt < s0: tgt *= 2
        K[kh // 2][kw // 2] += tgt - s0
    elif all(v == 0 for r in K for v in r) and rng.random() < 0.7:
        K[kh // 2][kw // 2] = Fraction(1)
    if i % 3 == 1 and not even and not psf_none:
        # a directed PSF: a unit shift / basis kernel, two entries, centre 1 plus cancelling entries, the identity plus one more entry
        K = directed_kernel(rng, kh, kw, DK_KINDS[(i // 3) % 6], nonneg=not signed, pow2=normalize)
    if psf_none: K = [[Fraction(int((a, b) == (1, 1))) for b in range(3)] for a in range(3)]      # sum 1: normalising changes nothing
    nimg = 1 if i % 2 else 2
    images = []
    for _ in range(nimg):
        q = rng.random() < 0.3
        images.append([[(Fraction(rng.randint(-36 if signed else 0, 36), 4) if q else Fraction(rng.randint(-9 if signed else 0, 9)))
                        for _ in range(W)] for _ in range(H)])
    exposure = rng.choice([0.5, 1.0, 1.0, 2.0, 2.5, 300.0, 1000.0])
    include_pn = sky != 0 and rng.random() < 0.4
    if not even:
        s = sum(v for r in K for v in r)
        P = [[v / s for v in r] for r in K] if normalize else K
        lo = min(v for im in images for r in conv_ref(im, P) for v in r)
        need = -lo if lo < 0 else Fraction(0)
        if include_pn: need += Fraction(64) / Fraction(exposure)     # Poisson draws of 0 counts would give a zero noise-map
        if sky < need: sky = Fraction(int(need) + 1) + (sky if sky < 1 else 0)
    subtract = None if i % 10 < 4 else bool(i % 10 < 8)           # None = argument omitted (default True)
    masks = []
    for j in range(1 if i % 2 else 2):
        if edge and j == 0:
            mm = [[rng.random() < 0.6 for _ in range(W)] for _ in range(H)]
            mm[rng.choice([0, H - 1])][rng.randrange(W)] = False
        else:
            mm = rand_mask(rng, H, W, 1 if even else kh, 1 if even else kw, "random")
        masks.append(mm)
    noise_false, noise_seed = rng.choice([None, 1.0, 2.0, 0.125]), rng.choice([1, 7, -1])
    if sky == 0 and not include_pn and i % 8 == 3:          # tiny / huge magnitudes (exact: no sky is added)
        sc = p2(rng.choice([-30, -34, 30]))
        images = [[[v * sc for v in r] for r in im] for im in images]
    if i % 6 == 0 and not signed and not even:
        # the same simulator for a second image of ANOTHER shape (state remembered per simulator must be keyed by the image)
        H2, W2 = H + rng.choice([1, 2]), W - 1
        images[1] = [[Fraction(rng.randint(0, 9)) for _ in range(W2)] for _ in range(H2)]
    return {"op": "sim", "K": sk(K), "images": [sk(im) for im in images], "sky": str(sky), "exposure": exposure,
            "subtract": subtract, "normalize": normalize, "include_pn": include_pn,
            "noise_false": noise_false, "noise_seed": noise_seed,
            "masks": masks, "remask": ["fresh", "chain", "inplace"][i % 3],
            "img_how": ["plain", "arith", "native", "int", "sub", "f32", "kern"][(i // 2) % 7],
            "psf_none": psf_none, "ips": SCALES[(i + 1) % 5], "kps": SCALES[(i // 2) % 5], "iorigin": ORIGINS[(i // 3) % 3],
            "mask_kind": MASK_KINDS[(i // 2) % 4], "direct": [None, "default", "false", "true"][i % 4]}

def cmask(m): return clist([clist([cbool(b) for b in r]) for r in m])
def cqv(v): return clist([cq(x) for x in v])
def cqm(M): return clist([cqv(r) for r in M])
def fl(v): return [float(x) for x in v]
def fracs(a): return [frac(x) for x in np.asarray(a, dtype=float).ravel()]

def run_case(inp):
    import random
    aa = import_aa()
    op = inp["op"]
    if op == "simulate": return run_simulate(aa, inp)
    if op == "sim": return run_sim(aa, inp)
    if op == "hist": return run_hist(aa, inp)
    if op == "kinds": return run_kinds(aa, inp)
    if op == "dk": return run_dk(aa, inp)
    vs, ks = p2(inp.get("vs", 0)), p2(inp.get("ks", 0))
    m = inp["m"]; K = [[Fraction(v) * ks for v in r] for r in inp["K"]]
    rng = random.Random(inp["seed"])
    ma = np.array(m, dtype=bool)
    nun = int((~ma).sum())
    kh, kw = len(K), len(K[0])
    kernel = aa.Kernel2D.no_mask(values=[fl(r) for r in K], pixel_scales=1.0)
    mask = aa.Mask2D(mask=ma, pixel_scales=1.0)
    nontrivial = nun >= 2 and sum(1 for r in K for v in r if v != 0) > 1
    base = {"kind": op, "nontrivial": nontrivial}
    decoy = lambda: call_res(aa.Convolver, mask=aa.Mask2D(mask=ma[::-1, ::-1].copy(), pixel_scales=1.0),
                             kernel=aa.Kernel2D.no_mask(values=[fl([v + 1 for v in r[::-1]]) for r in K[::-1]], pixel_scales=1.0))
    if op == "init":
        decoy()
        try:
            c = aa.Convolver(mask=mask, kernel=kernel)
            out = ("ok", (int(c.pixels_in_mask), int(c.pixels_in_blurring_mask), [[bool(b) for b in r] for r in c.blurring_mask]))
        except Exception as e:
            out = ("raise", exn_name(e))
        coq = f"(KInit {cmask(m)} {cqm(K)} " + cres(out, lambda v: ctup([cnat(v[0]), cnat(v[1]), cmask(v[2])])) + ")"
        return dict(base, coq=coq, out=str(out)[:300])
    if op == "whole":
        native = [[Fraction(rng.randint(-9, 9)) * vs for _ in range(len(m[0]))] for _ in range(len(m))]
        if inp.get("zs"):
            flat = zero_sum([v for r in native for v in r], vs); native = [flat[y * len(m[0]):(y + 1) * len(m[0])] for y in range(len(m))]
        arr = aa.Array2D.no_mask(values=[fl(r) for r in native], pixel_scales=1.0)
        call_res(aa.Kernel2D.no_mask(values=[fl([v + 1 for v in r[::-1]]) for r in K[::-1]], pixel_scales=1.0).convolved_array_from,
                 array=aa.Array2D.no_mask(values=[fl(r[::-1]) for r in native[::-1]], pixel_scales=1.0))     # decoy (see below)
        if inp["seed"] % 2:
            res = call_res(kernel.convolved_array_with_mask_from, array=arr.native, mask=mask)
        else:
            # convolved_array_from convolves array.native (zero outside the array's own mask) and slims by that mask
            arr = aa.Array2D(values=[fl(r) for r in native], mask=mask)
            native = [[Fraction(0) if m[y][x] else native[y][x] for x in range(len(m[0]))] for y in range(len(m))]
            res = call_res(kernel.convolved_array_from, array=arr)
        out = ("ok", [frac(x) for x in np.array(res[1].slim)]) if res[0] == "ok" else res
        probs = result_problems(res[1], m, "whole-frame convolution") if res[0] == "ok" else []
        return dict(base, coq=f"(KWhole {cmask(m)} {cqm(native)} {cqm(K)} {cres(out, cqv)})", out=str(out)[:300],
                    py_ok=(False if probs else None), detail={"problems": probs})
    # decoy first: another mask (rotated by 180 degrees: same shape, same pixel count, footprints still inside) and another kernel
    # of the same shape go through the library before the observed objects, so that state remembered from an earlier
    # construction (a cache keyed by shapes / counts) shows up in this very input and the replay is self-contained
    decoy()
    c = aa.Convolver(mask=mask, kernel=kernel)
    ints = bool(inp.get("ints"))
    img = [v * vs for v in rand_vals(rng, nun, inp["sparse"], ints)]
    zs = bool(inp.get("zs"))
    if zs: img = zero_sum(img, vs)
    if op == "convolve":
        bm = mask.derive_mask.blurring_from(kernel_shape_native=(kh, kw))
        nb = int(bm.pixels_in_mask)
        bimg = [v * vs for v in rand_vals(rng, nb, inp["sparse"], ints)]
        if zs: bimg = zero_sum(bimg, vs)
        if inp.get("basis") is not None:
            e = [Fraction(int(j == inp["basis"])) for j in range(nun + nb)]
            img, bimg = e[:nun], e[nun:nun + nb]
        res = c.convolve_image(image=aa.Array2D(values=fl(img), mask=mask),
                               blurring_image=aa.Array2D(values=fl(bimg), mask=bm) if nb else aa.Array2D(values=np.zeros(0), mask=bm))
        out = [frac(x) for x in np.array(res.slim)]
        probs = result_problems(res, m, "convolve_image")
        return dict(base, coq=f"(KConvolve {cmask(m)} {cqm(K)} {cqv(img)} {cqv(bimg)} {cqv(out)})", out=[str(x) for x in out],
                    py_ok=(False if probs else None), detail={"problems": probs})
    if op == "noblur":
        res = c.convolve_image_no_blurring(image=aa.Array2D(values=fl(img), mask=mask))
        out = [frac(x) for x in np.array(res.slim)]
        probs = result_problems(res, m, "convolve_image_no_blurring")
        return dict(base, coq=f"(KNoBlur {cmask(m)} {cqm(K)} {cqv(img)} {cqv(out)})", out=[str(x) for x in out],
                    py_ok=(False if probs else None), detail={"problems": probs})
    if op == "matrix":
        P = rng.randint(1, 4)
        M = [[v * vs for v in rand_vals(rng, P, inp["sparse"], ints)] for _ in range(nun)]
        if zs or inp["seed"] % 3 == 0:
            col = zero_sum([r[0] for r in M], vs)
            for r, v in zip(M, col): r[0] = v
        res = c.convolve_mapping_matrix(mapping_matrix=np.array([fl(r) for r in M]))
        out = [[frac(x) for x in r] for r in np.asarray(res)]
        return dict(base, coq=f"(KMatrix {cmask(m)} {cqm(K)} {cqm(M)} {cqm(out)})", out=[[str(x) for x in r] for r in out])
    raise ValueError(op)

# ------------------------------------------------------------------ derived / edited objects (what the user may hand in)
def build_mask(aa, m, how, other):
    """a Mask2D whose CURRENT contents are m. `edited`: built with other contents, derived attributes read, then set pixel by pixel"""
    H, W = len(m), len(m[0])
    if how == "edited":
        mask = aa.Mask2D(mask=np.array(other, dtype=bool), pixel_scales=1.0)
        _ = (mask.pixels_in_mask, mask.derive_indexes.native_for_slim, mask.is_all_false, mask.shape_native)
        try: _ = mask.derive_mask.blurring_from(kernel_shape_native=(1, 1))
        except Exception: pass
        for y in range(H):
            for x in range(W):
                if bool(mask[y, x]) != m[y][x]: mask[y, x] = m[y][x]
        return mask
    if how == "coords":
        return aa.Mask2D.from_pixel_coordinates(shape_native=(H, W), pixel_scales=1.0,
                                                pixel_coordinates=[[y, x] for y in range(H) for x in range(W) if not m[y][x]])
    if how == "copy":
        first = aa.Mask2D(mask=np.invert(np.array(m, dtype=bool)), pixel_scales=1.0)
        return aa.Mask2D(mask=np.array(first), pixel_scales=1.0, invert=True)
    return aa.Mask2D(mask=np.array(m, dtype=bool), pixel_scales=1.0)

def build_kernel(aa, K, how, rng):
    kh, kw = len(K), len(K[0])
    if how == "edited":
        k = aa.Kernel2D.no_mask(values=[[float(rng.randint(-3, 3)) for _ in range(kw)] for _ in range(kh)], pixel_scales=1.0)
        _ = (np.array(k.native), k.shape_native, np.array(k.slim))
        for j, v in enumerate(v for r in K for v in r): k[j] = float(v)
        return k
    if how == "arith":
        A = [[K[a][b] * rng.choice([2, -1, 3, 0]) for b in range(kw)] for a in range(kh)]
        ka = aa.Kernel2D.no_mask(values=[fl(r) for r in A], pixel_scales=1.0)
        kb = aa.Kernel2D.no_mask(values=[fl([K[a][b] - A[a][b] for b in range(kw)]) for a in range(kh)], pixel_scales=1.0)
        return ka + kb
    if how == "native":
        return aa.Kernel2D(values=np.array([fl(r) for r in K]), mask=aa.Mask2D.all_false(shape_native=(kh, kw), pixel_scales=1.0),
                           store_native=True)
    return aa.Kernel2D.no_mask(values=[fl(r) for r in K], pixel_scales=1.0)

def build_array(aa, vals, mask, m, how, rng):
    """an Array2D on `mask` whose CURRENT slim contents are vals"""
    n = len(vals)
    if n == 0: return aa.Array2D(values=np.zeros(0), mask=mask)
    if how == "arith":
        A = [v * rng.choice([2, -1, 3, 0]) for v in vals]          # a + (v - a): both summands and the sum are exact
        return aa.Array2D(values=fl(A), mask=mask) + aa.Array2D(values=fl([v - a for v, a in zip(vals, A)]), mask=mask)
    if how in ("native", "applied"):
        nat = np.zeros((len(m), len(m[0]))); it = iter(vals)
        for y in range(len(m)):
            for x in range(len(m[0])):
                nat[y, x] = float(next(it)) if not m[y][x] else (0.0 if how == "native" else float(rng.randint(1, 9)))
        if how == "native": return aa.Array2D(values=nat, mask=mask, store_native=True)
        return aa.Array2D.no_mask(values=nat, pixel_scales=1.0).apply_mask(mask=mask)
    if how == "edited":
        a = aa.Array2D(values=[float(rng.randint(-5, 5)) for _ in range(n)], mask=mask)
        _ = (np.array(a.native), np.array(a.slim))
        for j, v in enumerate(vals): a[j] = float(v)
        return a
    if how == "neg":
        return -aa.Array2D(values=fl([-v for v in vals]), mask=mask)
    return aa.Array2D(values=fl(vals), mask=mask)

def run_hist(aa, inp):
    """ONE Convolver (and one Kernel2D) through a history of calls; every observation must be the pure function of the current
    contents of its arguments, and no argument may be modified by a call"""
    import random
    rng = random.Random(inp["seed"])
    vs, ks = p2(inp.get("vs", 0)), p2(inp.get("ks", 0))
    m, m2 = inp["m"], inp["m2"]
    K = [[Fraction(v) * ks for v in r] for r in inp["K"]]; K2 = [[Fraction(v) * ks for v in r] for r in inp["K2"]]
    how = inp["how"]; sparse = inp["sparse"]
    kh, kw = len(K), len(K[0])
    nun = sum(1 for r in m for b in r if not b)
    cases, kept, bad = [], [], []
    def unchanged(what, obj, want):
        got = fracs(obj)
        if got != list(want): bad.append(f"{what} was modified by the call (or is stale): {[str(x) for x in got][:12]} expected {[str(x) for x in want][:12]}")
    mask = build_mask(aa, m, how["mask"], m2)
    kernel = build_kernel(aa, K, how["kernel"], rng)
    kflat = [v for r in K for v in r]; mflat = [Fraction(int(b)) for r in m for b in r]
    def vals(n): return [v * vs for v in rand_vals(rng, n, sparse)]
    try:
        c = aa.Convolver(mask=mask, kernel=kernel)
        out = ("ok", (int(c.pixels_in_mask), int(c.pixels_in_blurring_mask), [[bool(b) for b in r] for r in c.blurring_mask]))
    except Exception as e:
        c = None; out = ("raise", exn_name(e))
    cases.append(f"(KInit {cmask(m)} {cqm(K)} " + cres(out, lambda v: ctup([cnat(v[0]), cnat(v[1]), cmask(v[2])])) + ")")
    unchanged("kernel", kernel.native, kflat); unchanged("mask", np.array(mask), mflat)
    if c is not None:
        bm = mask.derive_mask.blurring_from(kernel_shape_native=(kh, kw)); bml = [[bool(b) for b in r] for r in np.array(bm)]
        nb = int(bm.pixels_in_mask)
        def conv(cv, mk, Kk, io, iv, bo, bv, tag):
            res = cv.convolve_image(image=io, blurring_image=bo)
            o = fracs(res.slim); kept.append((tag + " result", res, o))
            cases.append(f"(KConvolve {cmask(mk)} {cqm(Kk)} {cqv(iv)} {cqv(bv)} {cqv(o)})")
            unchanged(tag + " image", io.slim, iv); unchanged(tag + " blurring image", bo.slim, bv)
            bad.extend(result_problems(res, mk, tag))
        img1, bimg1 = vals(nun), vals(nb)
        i1 = build_array(aa, img1, mask, m, how["image"], rng); b1 = build_array(aa, bimg1, bm, bml, how["image"], rng)
        conv(c, m, K, i1, img1, b1, bimg1, "step 1")
        img2, bimg2 = vals(nun), vals(nb)
        i2 = build_array(aa, img2, mask, m, "plain", rng); b2 = build_array(aa, bimg2, bm, bml, "plain", rng)
        conv(c, m, K, i2, img2, b2, bimg2, "step 2")
        P = rng.randint(1, 3)
        M = [vals(P) for _ in range(nun)]
        col = zero_sum([r[0] for r in M], vs)
        for r, v in zip(M, col): r[0] = v
        Mo = np.array([fl(r) for r in M])
        res = c.convolve_mapping_matrix(mapping_matrix=Mo)
        cases.append(f"(KMatrix {cmask(m)} {cqm(K)} {cqm(M)} {cqm([fracs(r) for r in np.asarray(res)])})")
        kept.append(("step 3 blurred mapping matrix", res, fracs(res)))
        unchanged("mapping matrix", Mo, [v for r in M for v in r])
        # the same image object again, through the other method
        res = c.convolve_image_no_blurring(image=i1)
        cases.append(f"(KNoBlur {cmask(m)} {cqm(K)} {cqv(img1)} {cqv(fracs(res.slim))})")
        kept.append(("step 4 result", res, fracs(res.slim)))
        unchanged("step 4 image", i1.slim, img1)
        bad.extend(result_problems(res, m, "step 4"))
        # the sibling that takes the raw slim ndarray, on the same convolver: the buffer of the image just used, then another one
        for raw_v in (img1, img2):
            raw = np.array(fl(raw_v))
            res = c.convolve_image_no_blurring_interpolation(image=raw)
            cases.append(f"(KNoBlur {cmask(m)} {cqm(K)} {cqv(raw_v)} {cqv(fracs(res.slim))})")
            kept.append(("step 4b result", res, fracs(res.slim)))
            unchanged("step 4b raw image", raw, raw_v)
        # in-place edits by the user, then the same objects again
        _ = np.array(i1.native)
        for j in range(nun):
            if rng.random() < 0.4:
                img1[j] = Fraction(rng.randint(-9, 9)) * vs
                if i1.store_native:
                    yx = [(y, x) for y in range(len(m)) for x in range(len(m[0])) if not m[y][x]][j]; i1[yx[0], yx[1]] = float(img1[j])
                else: i1[j] = float(img1[j])
        conv(c, m, K, i1, img1, b1, bimg1, "step 5")
        for r in range(nun):
            for q in range(P):
                if rng.random() < 0.3: M[r][q] = Fraction(rng.choice([0, 0, 1, -2, 5])) * vs; Mo[r, q] = float(M[r][q])
        res = c.convolve_mapping_matrix(mapping_matrix=Mo)
        cases.append(f"(KMatrix {cmask(m)} {cqm(K)} {cqm(M)} {cqm([fracs(r) for r in np.asarray(res)])})")
        # a second convolver with the same shapes but another mask and kernel, then the first one again
        # (seed % 3: both other / the SAME mask object with another kernel / the SAME kernel object with another mask)
        v7 = inp["seed"] % 3
        if v7 == 1: m2 = m
        if v7 == 2: K2 = K
        mask2 = mask if v7 == 1 else build_mask(aa, m2, "plain", m)
        kernel2 = kernel if v7 == 2 else build_kernel(aa, K2, "plain", rng)
        c2 = aa.Convolver(mask=mask2, kernel=kernel2)
        bm2 = mask2.derive_mask.blurring_from(kernel_shape_native=(kh, kw)); bml2 = [[bool(b) for b in r] for r in np.array(bm2)]
        n2 = sum(1 for r in m2 for b in r if not b); nb2 = int(bm2.pixels_in_mask)
        img3, bimg3 = vals(n2), vals(nb2)
        conv(c2, m2, K2, build_array(aa, img3, mask2, m2, "plain", rng), img3, build_array(aa, bimg3, bm2, bml2, "plain", rng), bimg3, "step 7")
        conv(c, m, K, i2, img2, b2, bimg2, "step 8")
        unchanged("kernel", kernel.native, kflat); unchanged("mask", np.array(mask), mflat)
    # one Kernel2D, several whole-frame convolutions (the array edited in place in between)
    H, W = len(m), len(m[0])
    nat = [[Fraction(rng.randint(-9, 9)) * vs for _ in range(W)] for _ in range(H)]
    arr = aa.Array2D.no_mask(values=[fl(r) for r in nat], pixel_scales=1.0)
    for step in range(2):
        res = call_res(kernel.convolved_array_from, array=arr)
        o = ("ok", fracs(res[1].slim)) if res[0] == "ok" else res
        if res[0] == "ok": kept.append((f"whole-frame result {step}", res[1], o[1]))
        cases.append(f"(KWhole {cmask([[False] * W for _ in range(H)])} {cqm(nat)} {cqm(K)} {cres(o, cqv)})")
        unchanged("whole-frame array", arr.slim, [v for r in nat for v in r])
        _ = np.array(arr.native)
        for j in range(H * W):
            if rng.random() < 0.4: nat[j // W][j % W] = Fraction(rng.randint(-9, 9)) * vs; arr[j] = float(nat[j // W][j % W])
    # results handed out earlier must not change when the same objects are used again (no shared output buffers)
    for what, obj, want in kept:
        if fracs(obj.slim if hasattr(obj, "slim") else obj) != want: bad.append(what + " changed after later calls")
    kept = []       # (they share the Mask2D object that is edited next)
    # the SAME Kernel2D and Mask2D objects edited in place by the user, then used for a new whole-frame convolution and a NEW Convolver
    # (the convolver built before the edit is not used again: its frame tables are built once per (mask, kernel) by design)
    if c is not None:
        K = [list(r) for r in K]; m = [list(r) for r in m]
        for j in range(kh * kw):
            if rng.random() < 0.5: K[j // kw][j % kw] = Fraction(rng.randint(-3, 3)) * ks; kernel[(j // kw, j % kw) if kernel.store_native else j] = float(K[j // kw][j % kw])
        cells = [(y, x) for y in range(kh // 2, H - kh // 2) for x in range(kw // 2, W - kw // 2)]
        for (y, x) in rng.sample(cells, min(len(cells), 2)):
            m[y][x] = not m[y][x]
            if all(all(r) for r in m): m[y][x] = False
            mask[y, x] = m[y][x]
        kflat = [v for r in K for v in r]; mflat = [Fraction(int(b)) for r in m for b in r]
        nun = sum(1 for r in m for b in r if not b)
        res = call_res(kernel.convolved_array_from, array=arr)
        o = ("ok", fracs(res[1].slim)) if res[0] == "ok" else res
        cases.append(f"(KWhole {cmask([[False] * W for _ in range(H)])} {cqm(nat)} {cqm(K)} {cres(o, cqv)})")
        c3 = aa.Convolver(mask=mask, kernel=kernel)
        bm3 = mask.derive_mask.blurring_from(kernel_shape_native=(kh, kw)); bml3 = [[bool(b) for b in r] for r in np.array(bm3)]
        img4, bimg4 = vals(nun), vals(int(bm3.pixels_in_mask))
        conv(c3, m, K, build_array(aa, img4, mask, m, "plain", rng), img4, build_array(aa, bimg4, bm3, bml3, "plain", rng), bimg4, "step 10")
    nat2 = [[Fraction(rng.randint(-9, 9)) * vs for _ in range(W)] for _ in range(H)]
    marr = build_array(aa, [nat2[y][x] for y in range(H) for x in range(W) if not m[y][x]], mask, m, how["image"], rng)
    res = call_res(kernel.convolved_array_with_mask_from, array=np.array([fl(r) for r in nat2]), mask=mask) if inp["seed"] % 2 else \
        call_res(kernel.convolved_array_from, array=marr)
    if not inp["seed"] % 2: nat2 = [[Fraction(0) if m[y][x] else nat2[y][x] for x in range(W)] for y in range(H)]
    o = ("ok", fracs(res[1].slim)) if res[0] == "ok" else res
    cases.append(f"(KWhole {cmask(m)} {cqm(nat2)} {cqm(K)} {cres(o, cqv)})")
    unchanged("kernel", kernel.native, kflat); unchanged("mask", np.array(mask), mflat)
    nontrivial = nun >= 2 and sum(1 for v in kflat if v != 0) > 1
    return {"coq": cases[0], "extra_coq": cases[1:], "py_ok": (False if bad else None), "kind": "hist", "nontrivial": nontrivial,
            "out": {"steps": len(cases), "modified": bad}, "detail": {"modified": bad}}

# ------------------------------------------------------------------ input kinds, subclasses, constructors, geometries
_SUB = {}
def subclasses(aa):
    """user subclasses of the accepted classes (dispatch on type(x) instead of isinstance would miss them)"""
    if not _SUB:
        class UserMask2D(aa.Mask2D): pass
        class UserArray2D(aa.Array2D): pass
        class UserKernel2D(aa.Kernel2D): pass
        _SUB.update(mask=UserMask2D, array=UserArray2D, kernel=UserKernel2D)
    return _SUB

def ps(x): return tuple(x) if isinstance(x, (list, tuple)) else x

def kind_vals(rng, n, kind):
    """values that the input kind represents exactly"""
    if kind == "bool": return [Fraction(rng.randint(0, 1)) for _ in range(n)]
    if kind == "uint8": return [Fraction(rng.choice([0, 0, 1, 2, 5, 9])) for _ in range(n)]
    if kind in ("int64", "int32", "int8"): return [Fraction(rng.choice([0, 1, -1, 2, -3, 5, 7, -9])) for _ in range(n)]
    return [Fraction(rng.randint(-20, 20), rng.choice([1, 1, 4])) if rng.random() < 0.8 else Fraction(0) for _ in range(n)]

def typed(vals, kind, shape=None):
    """the values as an object of the given kind (1-D, or 2-D when shape is given)"""
    fv = [float(v) for v in vals]
    if kind in ("int64", "int32", "int8", "uint8", "bool", "f32", "f64", "sub", "kern", "fortran"):
        dt = {"f32": np.float32, "f64": float, "sub": float, "kern": float, "fortran": float, "bool": bool}.get(kind, kind)
        a = np.array([int(v) for v in vals] if kind not in ("f32", "f64", "sub", "kern", "fortran") else fv, dtype=dt)
        if shape is not None: a = a.reshape(shape)
        return np.asfortranarray(a) if kind == "fortran" else a
    if kind == "list":
        l = [int(v) if (v.denominator == 1 and j % 2) else float(v) for j, v in enumerate(vals)]
        return l if shape is None else [l[r * shape[1]:(r + 1) * shape[1]] for r in range(shape[0])]
    if kind == "view":                 # a non-contiguous view into a larger buffer
        if shape is None:
            big = np.full(2 * len(fv) + 1, 77.0); big[1::2] = fv
            return big[1::2]
        big = np.full((shape[0], 2 * shape[1] + 1), 77.0); big[:, 1::2] = np.array(fv).reshape(shape)
        return big[:, 1::2]
    raise ValueError(kind)

def same_object_contents(obj, vals, kind):
    a = np.asarray(obj)
    return [frac(x) for x in a.astype(float).ravel()] == list(vals) and (kind == "list" or a.dtype == np.asarray(typed(vals, kind)).dtype)

def kernel_of_kind(aa, K0, kk, kps, bad):
    """(Kernel2D object, its expected contents)"""
    kh, kw = len(K0), len(K0[0]); sub = subclasses(aa)
    if kk == "ones":
        k, K = aa.Kernel2D.ones(shape_native=(kh, kw), pixel_scales=kps), [[Fraction(1)] * kw for _ in range(kh)]
    elif kk == "zeros":
        k, K = aa.Kernel2D.zeros(shape_native=(kh, kw), pixel_scales=kps), [[Fraction(0)] * kw for _ in range(kh)]
    elif kk == "full":
        v = K0[0][0] if K0[0][0] != 0 else Fraction(-3, 4)
        k, K = aa.Kernel2D.full(fill_value=float(v), shape_native=(kh, kw), pixel_scales=kps), [[v] * kw for _ in range(kh)]
    elif kk == "noblur":
        k, K = aa.Kernel2D.no_blur(pixel_scales=kps), None
    elif kk == "normalize":
        s0 = sum(v for r in K0 for v in r)
        k, K = aa.Kernel2D.no_mask(values=[fl(r) for r in K0], pixel_scales=kps, normalize=True), [[v / s0 for v in r] for r in K0]
    elif kk == "normalized":
        s0 = sum(v for r in K0 for v in r)
        src = aa.Kernel2D.no_mask(values=np.array([fl(r) for r in K0]), pixel_scales=kps)
        k, K = src.normalized, [[v / s0 for v in r] for r in K0]
        if fracs(src.native) != [v for r in K0 for v in r]: bad.append("Kernel2D.normalized modified the kernel it was read from")
    elif kk == "int":
        k, K = aa.Kernel2D.no_mask(values=np.array([[int(v) for v in r] for r in K0]), pixel_scales=kps), K0
    elif kk == "f32":
        k, K = aa.Kernel2D.no_mask(values=np.array([fl(r) for r in K0], dtype=np.float32), pixel_scales=kps), K0
    elif kk == "sub":
        k, K = sub["kernel"](values=np.array([fl(r) for r in K0]), mask=aa.Mask2D.all_false(shape_native=(kh, kw), pixel_scales=kps)), K0
    elif kk == "slim":
        k, K = aa.Kernel2D.no_mask(values=fl([v for r in K0 for v in r]), shape_native=(kh, kw), pixel_scales=kps), K0
    else:
        k, K = aa.Kernel2D.no_mask(values=[fl(r) for r in K0], pixel_scales=kps), K0
    shp = tuple(int(x) for x in k.shape_native)
    got = fracs(k.native); got = [got[r * shp[1]:(r + 1) * shp[1]] for r in range(shp[0])]
    if K is None:        # no_blur: an identity kernel (odd shape, 1 at the centre) whatever its size
        if not (shp[0] % 2 and shp[1] % 2 and all(got[a][b] == int((a, b) == (shp[0] // 2, shp[1] // 2)) for a in range(shp[0]) for b in range(shp[1]))):
            bad.append(f"Kernel2D.no_blur is not an identity kernel: {[[str(v) for v in r] for r in got]}")
        K = got
    elif got != K:
        bad.append(f"Kernel2D built as '{kk}' holds {[[str(v) for v in r] for r in got]} (shape {shp}), expected {[[str(v) for v in r] for r in K]}")
        K = got if (got and got[0]) else K
    return k, K

def mask_of_kind(aa, m, kind, mps, origin):
    if kind == "sub": return subclasses(aa)["mask"](mask=np.array(m, dtype=bool), pixel_scales=mps, origin=origin)
    if kind == "list": return aa.Mask2D(mask=[list(r) for r in m], pixel_scales=mps, origin=origin)
    if kind == "int": return aa.Mask2D(mask=np.array(m, dtype=int), pixel_scales=mps, origin=origin)
    return aa.Mask2D(mask=np.array(m, dtype=bool), pixel_scales=mps, origin=origin)

def array_of_kind(aa, vals, mask, kind):
    v = typed(vals, kind) if len(vals) else np.zeros(0)
    if kind == "sub": return subclasses(aa)["array"](values=v, mask=mask)
    if kind == "kern": return aa.Kernel2D(values=v, mask=mask)
    return aa.Array2D(values=v, mask=mask)

def result_problems(res, m, what):
    """the returned structure: paired with the mask it was computed for, native view consistent with the slim one"""
    out = []
    a = np.asarray(res.slim)
    mm = np.array(m, dtype=bool)
    if np.array(res.mask, dtype=bool).shape != mm.shape or not np.array_equal(np.array(res.mask, dtype=bool), mm):
        out.append(f"{what}: the result is not paired with the mask it was computed for")
    else:
        nat = np.asarray(res.native, dtype=float)
        if nat.shape != mm.shape or not np.array_equal(nat[~mm], a.astype(float)) or np.any(nat[mm] != 0.0):
            out.append(f"{what}: result.native is not the slim result placed at the unmasked pixels")
    return out

def defaults_fingerprint(aa):
    """shared default-argument objects of the entry points (OverSamplingDataset() of Imaging, ...)"""
    def fp(o, d=0):
        if isinstance(o, (int, float, str, bool, type(None))): return repr(o)
        if isinstance(o, np.ndarray): return repr(o.tolist())
        if isinstance(o, (list, tuple)): return "[" + ",".join(fp(x, d + 1) for x in o) + "]"
        if hasattr(o, "__dict__") and d < 3: return type(o).__name__ + "{" + ",".join(f"{k}:{fp(v, d + 1)}" for k, v in sorted(vars(o).items())) + "}"
        return type(o).__name__
    fs = [aa.Imaging.__init__, aa.Imaging.apply_over_sampling, aa.Imaging.from_fits.__func__, aa.SimulatorImaging.__init__,
          aa.Convolver.__init__, aa.Kernel2D.__init__, aa.Kernel2D.no_mask.__func__, aa.Array2D.__init__, aa.Mask2D.__init__]
    return [fp(list(f.__defaults__ or ()) + sorted((f.__kwdefaults__ or {}).items())) for f in fs]

def run_kinds(aa, inp):
    import random
    rng = random.Random(inp["seed"])
    m = inp["m"]; H, W = len(m), len(m[0])
    K0 = [[Fraction(v) for v in r] for r in inp["K"]]
    ik, mk = inp["ik"], inp["mk"]
    cases, bad = [], []
    fp0 = defaults_fingerprint(aa)
    kernel, K = kernel_of_kind(aa, K0, inp["kk"], ps(inp["kps"]), bad)
    kh, kw = len(K), len(K[0]); kflat = [v for r in K for v in r]
    mask = mask_of_kind(aa, m, inp["mask_kind"], ps(inp["mps"]), tuple(inp["morigin"]))
    if [[bool(b) for b in r] for r in np.array(mask)] != [list(r) for r in m]: bad.append("the Mask2D does not hold the mask it was built from")
    nun = sum(1 for r in m for b in r if not b)
    def unchanged(what):
        if fracs(kernel.native) != kflat: bad.append(f"the kernel was modified by {what}")
        if [[bool(b) for b in r] for r in np.array(mask)] != [list(r) for r in m]: bad.append(f"the mask was modified by {what}")
    try:
        c = aa.Convolver(mask=mask, kernel=kernel)
        out = ("ok", (int(c.pixels_in_mask), int(c.pixels_in_blurring_mask), [[bool(b) for b in r] for r in c.blurring_mask]))
    except Exception as e:
        c = None; out = ("raise", exn_name(e))
    cases.append(f"(KInit {cmask(m)} {cqm(K)} " + cres(out, lambda v: ctup([cnat(v[0]), cnat(v[1]), cmask(v[2])])) + ")")
    unchanged("Convolver(...)")
    if c is not None:
        bm = mask.derive_mask.blurring_from(kernel_shape_native=(kh, kw)); nb = int(bm.pixels_in_mask)
        img, bimg = kind_vals(rng, nun, ik), kind_vals(rng, nb, ik)
        io, bo = array_of_kind(aa, img, mask, ik), array_of_kind(aa, bimg, bm, ik)
        res = c.convolve_image(image=io, blurring_image=bo)
        cases.append(f"(KConvolve {cmask(m)} {cqm(K)} {cqv(img)} {cqv(bimg)} {cqv(fracs(res.slim))})")
        bad += result_problems(res, m, "convolve_image")
        if fracs(io.slim) != img or fracs(bo.slim) != bimg: bad.append("convolve_image modified its arguments")
        res = c.convolve_image_no_blurring(image=io)
        cases.append(f"(KNoBlur {cmask(m)} {cqm(K)} {cqv(img)} {cqv(fracs(res.slim))})")
        bad += result_problems(res, m, "convolve_image_no_blurring")
        # the sibling entry point that takes the raw 1-D ndarray (not an Array2D): integer / bool / float32 / non-contiguous buffers
        rk = ik if ik not in ("list", "sub", "kern") else "int64"
        raw_v = kind_vals(rng, nun, rk); raw = typed(raw_v, rk) if nun else np.zeros(0, dtype=np.asarray(typed([Fraction(1)], rk)).dtype)
        for rep in range(2):           # twice with the same object
            res = c.convolve_image_no_blurring_interpolation(image=raw)
            if rep == 0: first = fracs(res.slim); cases.append(f"(KNoBlur {cmask(m)} {cqm(K)} {cqv(raw_v)} {cqv(first)})")
            elif fracs(res.slim) != first: bad.append("convolve_image_no_blurring_interpolation: a second call with the same object gives another result")
            bad += result_problems(res, m, "convolve_image_no_blurring_interpolation")
            if not same_object_contents(raw, raw_v, rk): bad.append("convolve_image_no_blurring_interpolation modified its argument")
        P = inp["ncols"]
        Mv = [kind_vals(rng, P, mk) for _ in range(nun)]
        if nun and P:
            Mo = typed([v for r in Mv for v in r], mk, (nun, P))
        else:
            Mo = np.zeros((nun, P), dtype=np.asarray(typed([Fraction(1)], mk if mk not in ("fortran", "view") else "f64")).dtype)
        keep = []
        for rep in range(2):
            res = c.convolve_mapping_matrix(mapping_matrix=Mo)
            r = np.asarray(res)
            if r.shape != (nun, P): bad.append(f"blurred mapping matrix shape {r.shape}, expected {(nun, P)}")
            o = [[frac(x) for x in row] for row in r.astype(float)] if r.ndim == 2 else []
            if rep == 0: cases.append(f"(KMatrix {cmask(m)} {cqm(K)} {cqm(Mv)} {cqm(o)})")
            elif o != keep[0][1]: bad.append("convolve_mapping_matrix: a second call with the same object gives another result")
            keep.append((res, o))
            if not same_object_contents(Mo, [v for r in Mv for v in r], mk if (nun and P) else "list"): bad.append("convolve_mapping_matrix modified its argument")
        if keep[0][1] != [[frac(x) for x in row] for row in np.asarray(keep[0][0]).astype(float)]: bad.append("an earlier blurred mapping matrix changed after the next call")
        unchanged("the convolutions")
    # whole-frame convolution: the array's geometry (pixel scales, origin) differs from the kernel's and the mask's
    nat = kind_vals(rng, H * W, ik)
    natg = [nat[y * W:(y + 1) * W] for y in range(H)]
    cls = subclasses(aa)["array"] if ik == "sub" else aa.Array2D
    vals2d = typed(nat, ik if ik not in ("sub", "kern") else "f64", (H, W))
    arr = cls.no_mask(values=vals2d, pixel_scales=ps(inp["aps"]), origin=tuple(inp["aorigin"]))
    res = call_res(kernel.convolved_array_from, array=arr)
    o = ("ok", fracs(res[1].slim)) if res[0] == "ok" else res
    allf = [[False] * W for _ in range(H)]
    cases.append(f"(KWhole {cmask(allf)} {cqm(natg)} {cqm(K)} {cres(o, cqv)})")
    if res[0] == "ok": bad += result_problems(res[1], allf, "convolved_array_from")
    if fracs(arr.slim) != nat: bad.append("convolved_array_from modified its argument")
    # masked array: zero outside the array's own mask
    marr = array_of_kind(aa, [natg[y][x] for y in range(H) for x in range(W) if not m[y][x]], mask, ik)
    res = call_res(kernel.convolved_array_from, array=marr)
    o = ("ok", fracs(res[1].slim)) if res[0] == "ok" else res
    natz = [[Fraction(0) if m[y][x] else natg[y][x] for x in range(W)] for y in range(H)]
    cases.append(f"(KWhole {cmask(m)} {cqm(natz)} {cqm(K)} {cres(o, cqv)})")
    if res[0] == "ok": bad += result_problems(res[1], m, "convolved_array_from (masked array)")
    # convolved_array_with_mask_from takes the raw 2-D values (list of lists, integer / bool / float32 ndarray, view, Array2D.native)
    raw2 = arr.native if ik in ("sub", "kern", "f64") else typed(nat, ik, (H, W))
    res = call_res(kernel.convolved_array_with_mask_from, array=raw2, mask=mask)
    o = ("ok", fracs(res[1].slim)) if res[0] == "ok" else res
    cases.append(f"(KWhole {cmask(m)} {cqm(natg)} {cqm(K)} {cres(o, cqv)})")
    if res[0] == "ok": bad += result_problems(res[1], m, "convolved_array_with_mask_from")
    if [frac(x) for x in np.asarray(raw2, dtype=float).ravel()] != nat: bad.append("convolved_array_with_mask_from modified its argument")
    unchanged("the whole-frame convolutions")
    if defaults_fingerprint(aa) != fp0: bad.append("a shared default-argument object of an entry point was modified")
    nontrivial = nun >= 2 and sum(1 for v in kflat if v != 0) > 1
    return {"coq": cases[0], "extra_coq": cases[1:], "py_ok": (False if bad else None), "kind": "kinds", "nontrivial": nontrivial,
            "out": {"steps": len(cases), "problems": bad}, "detail": {"problems": bad}}

# ------------------------------------------------------------------ directed kernels through every entry point
def run_dk(aa, inp):
    import random
    rng = random.Random(inp["seed"])
    m = inp["m"]; H, W = len(m), len(m[0])
    K = [[Fraction(v) for v in r] for r in inp["K"]]; kh, kw = len(K), len(K[0]); kflat = [v for r in K for v in r]
    kernel = aa.Kernel2D.no_mask(values=[fl(r) for r in K], pixel_scales=1.0)
    mask = aa.Mask2D(mask=np.array(m, dtype=bool), pixel_scales=1.0)
    cases, bad = [], []
    allf = [[False] * W for _ in range(H)]
    nun = sum(1 for r in m for b in r if not b)
    def grid(lo=-9): return [[Fraction(rng.randint(lo, 9), rng.choice([1, 1, 4])) for _ in range(W)] for _ in range(H)]
    def whole(fn, tag, mm, nat, **kw_):
        res = call_res(fn, **kw_)
        o = ("ok", fracs(res[1].slim)) if res[0] == "ok" else res
        cases.append(f"(KWhole {cmask(mm)} {cqm(nat)} {cqm(K)} {cres(o, cqv)})")
        if res[0] == "ok": bad.extend(result_problems(res[1], mm, tag))
        if fracs(kernel.native) != kflat: bad.append(f"the kernel was modified by {tag}")
    # whole frame, array without mask
    ep, lean = inp.get("ep", 2), bool(inp.get("lean"))
    nat = grid()
    if ep in (0, 2):
        arr = aa.Array2D.no_mask(values=[fl(r) for r in nat], pixel_scales=1.0)
        whole(kernel.convolved_array_from, "convolved_array_from", allf, nat, array=arr)
        if fracs(arr.slim) != [v for r in nat for v in r]: bad.append("convolved_array_from modified its argument")
    # raw native values + a mask (no footprint condition)
    if ep in (1, 2):
        nat2 = grid()
        whole(kernel.convolved_array_with_mask_from, "convolved_array_with_mask_from", m, nat2, array=np.array([fl(r) for r in nat2]), mask=mask)
    if inp["steps"] == "all":
        # masked array: zero outside its own mask
        natz = [[Fraction(0) if m[y][x] else nat[y][x] for x in range(W)] for y in range(H)]
        marr = aa.Array2D(values=[fl(r) for r in nat], mask=mask)
        whole(kernel.convolved_array_from, "convolved_array_from (masked array)", m, natz, array=marr)
        # the masked convolver
        try:
            c = aa.Convolver(mask=mask, kernel=kernel)
            out = ("ok", (int(c.pixels_in_mask), int(c.pixels_in_blurring_mask), [[bool(b) for b in r] for r in c.blurring_mask]))
        except Exception as e:
            c = None; out = ("raise", exn_name(e))
        cases.append(f"(KInit {cmask(m)} {cqm(K)} " + cres(out, lambda v: ctup([cnat(v[0]), cnat(v[1]), cmask(v[2])])) + ")")
        if c is not None:
            bm = mask.derive_mask.blurring_from(kernel_shape_native=(kh, kw)); nb = int(bm.pixels_in_mask)
            fine = any(v.denominator > 4 for v in kflat)          # entries of 2^-30: integer images keep every sum exact
            img, bimg = rand_vals(rng, nun, False, fine), rand_vals(rng, nb, False, fine)
            io = aa.Array2D(values=fl(img), mask=mask)
            bo = aa.Array2D(values=fl(bimg), mask=bm) if nb else aa.Array2D(values=np.zeros(0), mask=bm)
            res = c.convolve_image(image=io, blurring_image=bo)
            cases.append(f"(KConvolve {cmask(m)} {cqm(K)} {cqv(img)} {cqv(bimg)} {cqv(fracs(res.slim))})")
            bad.extend(result_problems(res, m, "convolve_image"))
            res = c.convolve_image_no_blurring(image=io)
            cases.append(f"(KNoBlur {cmask(m)} {cqm(K)} {cqv(img)} {cqv(fracs(res.slim))})")
            bad.extend(result_problems(res, m, "convolve_image_no_blurring"))
            # the operator on the identity mapping matrix (every basis image at once) next to a random column
            # (quick tier, larger masks: two of the basis columns)
            cols = list(range(nun)) if (nun <= 5 or not lean) else sorted(rng.sample(range(nun), 2))
            M = [[Fraction(int(r == q)) for q in cols] + [Fraction(rng.randint(-9, 9), 4)] for r in range(nun)]
            res = c.convolve_mapping_matrix(mapping_matrix=np.array([fl(r) for r in M]))
            cases.append(f"(KMatrix {cmask(m)} {cqm(K)} {cqm(M)} {cqm([fracs(r) for r in np.asarray(res)])})")
            if fracs(kernel.native) != kflat: bad.append("the kernel was modified by the Convolver")
        # noise-free simulation with this PSF -> apply_mask -> convolver: zero residual
        s = sum(kflat)
        image = grid(lo=0); flat = [v for r in image for v in r]
        img_o = aa.Array2D.no_mask(values=[fl(r) for r in image], pixel_scales=1.0)
        norms = [False] + ([True] if is_pow2(s) else [])
        if lean and len(norms) == 2: norms = [bool(inp["seed"] % 2)]
        for normalize in norms:
            P = [[v / s for v in r] for r in K] if normalize else K
            lo = min(v for r in conv_ref(image, P) for v in r)
            sky = Fraction(0) if lo >= 0 else Fraction(int(-lo) + 1)
            sim = aa.SimulatorImaging(exposure_time=1.0, psf=kernel, background_sky_level=float(sky), normalize_psf=normalize,
                                      add_poisson_noise_to_data=False, include_poisson_noise_in_noise_map=False,
                                      noise_if_add_noise_false=1.0, noise_seed=1)
            res = call_res(sim.via_image_from, image=img_o)
            if res[0] == "ok":
                d = res[1]; data = fracs(d.data.slim)
                out = ("ok", ([fracs(r) for r in np.array(d.psf.native)], data))
            else: d = None; out = res
            cases.append(f"(KSim {cq(sky)} {cbool(True)} {cbool(normalize)} {cqm(image)} {cqm(K)} " +
                         cres(out, lambda v: ctup([cqm(v[0]), cqv(v[1])])) + ")")
            if fracs(img_o.slim) != flat: bad.append("the caller's image was modified by via_image_from")
            if fracs(kernel.native) != kflat: bad.append("the caller's kernel was modified by the simulator")
            if d is None or len(data) != H * W or c is None: continue
            dsm = d.apply_mask(mask=mask)
            if [[bool(b) for b in r] for r in np.array(dsm.mask)] != [list(r) for r in m]:
                bad.append("masked dataset's mask differs from the applied (interior) mask"); continue
            md = fracs(dsm.data.slim)
            cases.append(f"(KMasked {cqm(image)} {cqv(data)} {cmask(m)} {cqv(md)})")
            cases.append(f"(KWhole {cmask(m)} {cqm(image)} {cqm(P)} (Ok {cqv(md)}))")
            bml = [[bool(b) for b in r] for r in np.array(bm)]
            iv = [image[y][x] for y in range(H) for x in range(W) if not m[y][x]]
            bv = [image[y][x] for y in range(H) for x in range(W) if not bml[y][x]]
            blurred = dsm.convolver.convolve_image(image=aa.Array2D(values=fl(iv), mask=dsm.mask),
                                                   blurring_image=aa.Array2D(values=fl(bv), mask=bm) if bv else aa.Array2D(values=np.zeros(0), mask=bm))
            bo_ = fracs(blurred.slim)
            cases.append(f"(KConvolve {cmask(m)} {cqm(P)} {cqv(iv)} {cqv(bv)} {cqv(bo_)})")
            if len(md) != len(bo_) or any(a != b for a, b in zip(md, bo_)):
                bad.append(f"non-zero residual of the generating image (normalize_psf={normalize})")
    nontrivial = nun >= 2 and kh * kw > 1
    return {"coq": cases[0], "extra_coq": cases[1:], "py_ok": (False if bad else None), "kind": "dk", "nontrivial": nontrivial,
            "out": {"steps": len(cases), "problems": bad}, "detail": {"problems": bad}}

# ------------------------------------------------------------------ simulator -> apply_mask -> convolver
def pad_native(g, hy, hx, fill):
    W = len(g[0])
    return [[fill] * (W + 2 * hx) for _ in range(hy)] + [[fill] * hx + list(r) + [fill] * hx for r in g] + \
           [[fill] * (W + 2 * hx) for _ in range(hy)]

def kmat(k):
    shp = tuple(int(x) for x in k.shape_native); f = fracs(k.native)
    return [f[r * shp[1]:(r + 1) * shp[1]] for r in range(shp[0])]

def run_sim(aa, inp):
    import random
    rng = random.Random(1)
    K = [[Fraction(v) for v in r] for r in inp["K"]]
    kh, kw = len(K), len(K[0])
    images = [[[Fraction(v) for v in r] for r in im] for im in inp["images"]]
    H, W = len(images[0]), len(images[0][0])
    sky = Fraction(inp["sky"]); normalize = inp["normalize"]
    subtract = True if inp["subtract"] is None else inp["subtract"]
    ips, kps, iorigin = ps(inp.get("ips", 1.0)), ps(inp.get("kps", 1.0)), tuple(inp.get("iorigin", (0.0, 0.0)))
    psf_none = bool(inp.get("psf_none"))
    fp0 = defaults_fingerprint(aa)
    kernel = aa.Kernel2D.no_mask(values=[fl(r) for r in K], pixel_scales=kps)
    kw_args = dict(exposure_time=inp["exposure"], background_sky_level=float(sky), normalize_psf=normalize,
                   add_poisson_noise_to_data=False, include_poisson_noise_in_noise_map=inp["include_pn"], noise_seed=inp["noise_seed"])
    if not psf_none: kw_args["psf"] = kernel
    if inp["subtract"] is not None: kw_args["subtract_background_sky"] = inp["subtract"]
    if inp["noise_false"] is not None: kw_args["noise_if_add_noise_false"] = inp["noise_false"]
    sim = aa.SimulatorImaging(**kw_args)
    cases, bad = [], []
    if fracs(kernel.native) != [v for r in K for v in r]: bad.append("the caller's kernel was modified by SimulatorImaging(...)")
    def make(im, how):
        flat = [v for r in im for v in r]; h, w = len(im), len(im[0])
        kwg = dict(pixel_scales=ips, origin=iorigin)
        if how == "arith":
            A = [Fraction(rng.randint(0, 5)) for _ in flat]
            return aa.Array2D.no_mask(values=np.array(fl(A)).reshape(h, w), **kwg) + \
                   aa.Array2D.no_mask(values=np.array(fl([v - a for v, a in zip(flat, A)])).reshape(h, w), **kwg)
        if how == "native":
            return aa.Array2D(values=np.array([fl(r) for r in im]), mask=aa.Mask2D.all_false(shape_native=(h, w), **kwg), store_native=True)
        if how == "int" and all(v.denominator == 1 for v in flat): return aa.Array2D.no_mask(values=typed(flat, "int64", (h, w)), **kwg)
        if how in ("int", "f32"): return aa.Array2D.no_mask(values=typed(flat, "f32", (h, w)), **kwg)
        if how == "sub": return subclasses(aa)["array"].no_mask(values=typed(flat, "list", (h, w)), **kwg)
        if how == "kern": return aa.Kernel2D.no_mask(values=[fl(r) for r in im], **kwg)        # an AbstractArray2D that is not an Array2D
        return aa.Array2D.no_mask(values=[fl(r) for r in im], **kwg)
    objs = [make(images[0], inp["img_how"])] + [make(im, "plain") for im in images[1:]]
    order = [0] if len(images) == 1 else [0, 1, 0]
    ds = None; data0 = None; keep = []
    def sim_state(): return (fracs(sim.psf.native), tuple(sim.psf.shape_native), sim.exposure_time, sim.background_sky_level, sim.subtract_background_sky,
                             sim.add_poisson_noise_to_data, sim.include_poisson_noise_in_noise_map, sim.noise_if_add_noise_false, sim.noise_seed)
    st0 = sim_state()
    for idx in order:                       # the same simulator, the same input objects
        hi, wi = len(images[idx]), len(images[idx][0])
        res = call_res(sim.via_image_from, image=objs[idx])
        if res[0] == "ok":
            d = res[1]
            if psf_none:
                # the simulator's own kernel must be an identity kernel (odd shape, 1 at the centre); its size is the library's choice
                Kd = kmat(d.psf); sh = (len(Kd), len(Kd[0]))
                if not (sh[0] % 2 and sh[1] % 2 and all(Kd[a][b] == int((a, b) == (sh[0] // 2, sh[1] // 2)) for a in range(sh[0]) for b in range(sh[1]))):
                    bad.append(f"psf omitted: the simulator's kernel is not an identity kernel: {[[str(v) for v in r] for r in Kd]}")
                K, kh, kw = Kd, sh[0], sh[1]
            out = ("ok", ([fracs(r) for r in np.array(d.psf.native)], fracs(d.data.slim)))
            if d.data.shape_native != (hi, wi): bad.append(f"simulated data has shape {d.data.shape_native}, image {(hi, wi)}")
            if not np.array_equal(np.array(d.data.mask, dtype=bool), np.zeros((hi, wi), dtype=bool)): bad.append("the simulated data is not on the whole frame")
            if idx == 0: ds, data0 = d, out[1][1]
            keep.append((d, out[1][1]))
        else: out = res
        cases.append(f"(KSim {cq(sky)} {cbool(subtract)} {cbool(normalize)} {cqm(images[idx])} {cqm(K)} " +
                     cres(out, lambda v: ctup([cqm(v[0]), cqv(v[1])])) + ")")
        if fracs(objs[idx].slim if not objs[idx].store_native else objs[idx].native) != [v for r in images[idx] for v in r]:
            bad.append("the caller's image was modified by via_image_from")
        if sim_state() != st0: bad.append("via_image_from changed the simulator's own settings")
    if not psf_none and fracs(kernel.native) != [v for r in K for v in r]: bad.append("the caller's kernel was modified by via_image_from")
    s = sum(v for r in K for v in r)
    P = [[v / s for v in r] for r in K] if normalize else K          # the PSF the dataset must carry (checked by KSim's spec)
    detail = {"residual_max": []}
    def through_convolver(dd, mp, Pk, g, noblur=False):
        """dd.convolver on the image g (native, on the frame of mp): one KConvolve / KNoBlur case; returns the blurred slim values"""
        bm = dd.mask.derive_mask.blurring_from(kernel_shape_native=(len(Pk), len(Pk[0]))); bml = [[bool(b) for b in r] for r in np.array(bm)]
        Hp, Wp = len(mp), len(mp[0])
        iv = [g[y][x] for y in range(Hp) for x in range(Wp) if not mp[y][x]]
        bv = [g[y][x] for y in range(Hp) for x in range(Wp) if not bml[y][x]]
        io = aa.Array2D(values=fl(iv), mask=dd.mask)
        if noblur:
            blurred = dd.convolver.convolve_image_no_blurring(image=io); bo = fracs(blurred.slim)
            cases.append(f"(KNoBlur {cmask(mp)} {cqm(Pk)} {cqv(iv)} {cqv(bo)})")
        else:
            blurred = dd.convolver.convolve_image(image=io, blurring_image=aa.Array2D(values=fl(bv), mask=bm) if bv else aa.Array2D(values=np.zeros(0), mask=bm))
            bo = fracs(blurred.slim)
            cases.append(f"(KConvolve {cmask(mp)} {cqm(Pk)} {cqv(iv)} {cqv(bv)} {cqv(bo)})")
        return bo
    if ds is not None and len(data0) == H * W:
        image = images[0]
        dsm_prev = None; mobj = None
        for j, m in enumerate(inp["masks"]):
            if inp["remask"] == "inplace" and mobj is not None:
                for y in range(H):
                    for x in range(W):
                        if bool(mobj[y, x]) != m[y][x]: mobj[y, x] = m[y][x]
            else:
                mobj = mask_of_kind(aa, m, inp.get("mask_kind", "plain"), kps if "kps" in inp else 1.0, iorigin)
            src = dsm_prev if (inp["remask"] == "chain" and dsm_prev is not None) else ds
            dsm = src.apply_mask(mask=mobj)
            dsm_prev = dsm
            pad = not footprints_inside(m, kh, kw)
            hy, hx = (kh // 2, kw // 2) if pad else (0, 0)
            mp = pad_native(m, hy, hx, True); gp = pad_native(image, hy, hx, Fraction(0))
            got_mask = [[bool(b) for b in r] for r in np.array(dsm.mask)]
            if got_mask != mp:
                bad.append(f"masked dataset's mask differs from the applied mask ({'padded by the kernel half-widths' if pad else 'no padding expected'})")
                continue
            md = fracs(dsm.data.slim)
            cases.append(f"(KMasked {cqm(image)} {cqv(data0)} {cmask(m)} {cqv(md)})")
            if subtract or sky == 0:
                # the masked data = the whole-frame convolution of the generating image at the unmasked pixels
                cases.append(f"(KWhole {cmask(mp)} {cqm(gp)} {cqm(P)} (Ok {cqv(md)}))")
            same = (j == 0 and len(images) > 1 and (len(images[1]), len(images[1][0])) == (H, W))
            todo = [gp] + ([pad_native(images[1], hy, hx, Fraction(0))] if same else [])
            for t, g in enumerate(todo):       # dsm.convolver: read once per call (cached property), used for two different images
                bo = through_convolver(dsm, mp, P, g)
                if t == 0 and (subtract or sky == 0):
                    resid = [a - b for a, b in zip(md, bo)]
                    detail["residual_max"].append(str(max([abs(r) for r in resid], default=0)))
                    if len(md) != len(bo) or any(r != 0 for r in resid):
                        bad.append(f"non-zero residual of the generating image on mask {j}: max {max(abs(r) for r in resid) if resid else 'length mismatch'}")
        # an Imaging dataset built DIRECTLY from the simulated arrays and a caller-owned kernel (use_normalized_psf default / off / on),
        # masked, then re-derived by apply_over_sampling: its convolver must blur with the PSF the dataset carries
        direct = inp.get("direct")
        if direct:
            if direct in ("default", "true") and not (normalize or psf_none): direct = "false"     # K / sum(K) exact only when sum = +-2^j
            k2 = aa.Kernel2D.no_mask(values=[fl(r) for r in K], pixel_scales=ips)
            kwd = {} if direct == "default" else {"use_normalized_psf": direct == "true"}
            m = inp["masks"][0]
            pad = not footprints_inside(m, kh, kw)
            hy, hx = (kh // 2, kw // 2) if pad else (0, 0)
            mp = pad_native(m, hy, hx, True); gp = pad_native(image, hy, hx, Fraction(0))
            dI = aa.Imaging(data=ds.data, noise_map=ds.noise_map, psf=k2, **kwd)
            dm = dI.apply_mask(mask=aa.Mask2D(mask=np.array(m, dtype=bool), pixel_scales=ips, origin=iorigin))
            variants = [dm, dm.apply_over_sampling(over_sampling=aa.OverSamplingDataset()) if inp["noise_seed"] == 1 else dm.apply_over_sampling()]
            for t, dd in enumerate(variants):
                if [[bool(b) for b in r] for r in np.array(dd.mask)] != mp:
                    bad.append("directly built dataset: mask differs from the applied (padded) mask"); continue
                Pd = kmat(dd.psf)          # the PSF this dataset carries (its normalisation is the dataset's business)
                if (len(Pd), len(Pd[0])) != (kh, kw): bad.append("directly built dataset: PSF shape changed"); continue
                through_convolver(dd, mp, Pd, gp, noblur=bool(t))
                if fracs(k2.native) != [v for r in K for v in r]: bad.append("the caller's kernel was modified by Imaging(...) / apply_mask / apply_over_sampling / convolver")
            if fracs(ds.data.slim) != data0: bad.append("the simulated data was modified by building another dataset from it")
    for d, want in keep:
        if fracs(d.data.slim) != want: bad.append("a dataset simulated earlier changed after later calls")
    if defaults_fingerprint(aa) != fp0: bad.append("a shared default-argument object (OverSamplingDataset() ...) was modified")
    detail["modified_or_residual"] = bad
    return {"coq": cases[0], "extra_coq": cases[1:], "py_ok": (False if bad else True), "kind": "sim", "nontrivial": True,
            "out": {"cases": len(cases), "problems": bad}, "detail": detail}

def run_simulate(aa, inp):
    """noise-free simulation -> apply_mask -> convolver: the generating image is fitted with zero residual (Python-side relation)"""
    import random
    rng = random.Random(inp["seed"])
    kh, kw = rng.choice([1, 3, 5]), rng.choice([1, 3, 5])
    H, W = rng.randint(kh + 2, 9), rng.randint(kw + 2, 9)
    K = [[abs(v) for v in r] for r in rand_kernel(rng, kh, kw)]   # np.random.poisson (always evaluated) rejects negative rates
    if all(v == 0 for r in K for v in r): K[kh // 2][kw // 2] = 1
    image = [[float(rng.randint(0, 9)) for _ in range(W)] for _ in range(H)]
    kernel = aa.Kernel2D.no_mask(values=[fl(r) for r in K], pixel_scales=1.0)
    sim = aa.SimulatorImaging(exposure_time=1.0, psf=kernel, add_poisson_noise_to_data=False,
                              include_poisson_noise_in_noise_map=False, normalize_psf=False,
                              noise_if_add_noise_false=1.0, noise_seed=1)
    img = aa.Array2D.no_mask(values=image, pixel_scales=1.0)
    ds = sim.via_image_from(image=img)
    shp = ds.data.shape_native
    m = rand_mask(rng, shp[0], shp[1], kh, kw, "random")
    detail = {"K": [[str(v) for v in r] for r in K], "image": image, "data_shape": list(shp)}
    if m is None:
        return {"coq": None, "out": "no interior", "py_ok": None, "kind": "simulate", "nontrivial": False}
    mask = aa.Mask2D(mask=np.array(m), pixel_scales=1.0)
    dsm = ds.apply_mask(mask=mask)
    # the image that generated the data, on the (possibly trimmed) data frame: centred crop of the input
    full = np.array(img.native)
    oy, ox = (full.shape[0] - shp[0]) // 2, (full.shape[1] - shp[1]) // 2
    crop = full[oy:oy + shp[0], ox:ox + shp[1]]
    bm = dsm.mask.derive_mask.blurring_from(kernel_shape_native=(kh, kw))
    im = aa.Array2D(values=crop, mask=dsm.mask)
    bi = aa.Array2D(values=crop, mask=bm)
    blurred = dsm.convolver.convolve_image(image=im, blurring_image=bi)
    resid = np.array(dsm.data.slim) - np.array(blurred.slim)
    ok = bool(np.all(resid == 0.0)) and dsm.data.shape_native == tuple(shp)
    detail["residual_max"] = float(np.max(np.abs(resid))) if resid.size else 0.0
    return {"coq": None, "out": detail, "py_ok": ok, "kind": "simulate", "nontrivial": True, "detail": detail}
