(* C20 -- lemmas about the triangle model (coq/Model/C20.v). *)
From Coq Require Import ZArith List Bool Reals Lra Lia Permutation Sorted.
From PAV Require Import Base.Res Base.Check Base.NumOps Base.Sum Model.C20 Model.C20Spec.
Import ListNotations.
Local Open Scope R_scope.

Ltac rsimp :=
  repeat progress (unfold child_a, child_b, child_c, child_d, m01, m12, m20, refl0, refl1, refl2,
    new_v0, new_v1, new_v2, mid, phalf, padd, psub, cross_sum, signed2, comb, midpoint, tri_area,
    v0, v1, v2, two, half, one, quarter, four, three, zero in *);
  cbn [add sub mul div opp ofZ ROps fst snd T] in *.

Lemma up_sample_length {O : NumOps} (ts : list (@tri O)) :
  length (up_sample_triangles ts) = (4 * length ts)%nat.
Proof. unfold up_sample_triangles. rewrite !app_length, !map_length. lia. Qed.

(* ------------------------------------------------------------------ one triangle: areas *)
Definition children4 (t : rtri) : list rtri := [child_a t; child_b t; child_c t; child_d t].

Lemma cross_sum_signed2 (t : rtri) : @cross_sum ROps t = signed2 t.
Proof. destruct t as [[[x0 y0] [x1 y1]] [x2 y2]]. rsimp. ring. Qed.

Lemma child_signed2 (t c : rtri) : In c (children4 t) -> signed2 c = signed2 t / 4.
Proof.
  destruct t as [[[x0 y0] [x1 y1]] [x2 y2]]. unfold children4.
  intros [H|[H|[H|[H|[]]]]]; subst c; rsimp; field.
Qed.

Lemma absT_Rabs (x : R) : @absT ROps x = Rabs x.
Proof.
  unfold absT, zero. cbn [ltb opp ofZ ROps]. unfold Rabs.
  destruct (Rltb x 0) eqn:E; rbool; destruct (Rcase_abs x); lra.
Qed.

Lemma total_area_app l1 l2 : total_area (l1 ++ l2) = total_area l1 + total_area l2.
Proof. induction l1; cbn; lra. Qed.

Lemma area_is_total_area (ts : list rtri) : @area ROps ts = total_area ts.
Proof.
  unfold area. rewrite sumT_sumR. unfold half, one, two. cbn [mul div ofZ ROps].
  induction ts as [|t ts IH]; cbn [map sumR total_area]; [lra|].
  rewrite absT_Rabs, cross_sum_signed2. unfold tri_area. lra.
Qed.

Lemma tri_area_child (t c : rtri) : In c (children4 t) -> tri_area c = tri_area t / 4.
Proof.
  intros H. unfold tri_area. rewrite (child_signed2 t c H).
  unfold Rdiv. rewrite Rabs_mult, (Rabs_right (/ 4)) by lra. ring.
Qed.

Lemma total_area_map_child (f : rtri -> rtri) ts :
  (forall t, In (f t) (children4 t)) -> total_area (map f ts) = total_area ts / 4.
Proof.
  intros Hf. induction ts as [|t ts IH]; cbn [map total_area]; [lra|].
  rewrite IH, (tri_area_child t (f t) (Hf t)). lra.
Qed.

Lemma up_sample_area (ts : list rtri) : total_area (up_sample_triangles ts) = total_area ts.
Proof.
  unfold up_sample_triangles. rewrite !total_area_app.
  rewrite !total_area_map_child; [lra| | | |]; intros t; unfold children4; cbn; auto.
Qed.

Lemma up_sample_members {O : NumOps} (ts : list (@tri O)) c :
  In c (up_sample_triangles ts) <->
  exists t, In t ts /\ (c = child_a t \/ c = child_b t \/ c = child_c t \/ c = child_d t).
Proof.
  unfold up_sample_triangles. rewrite !in_app_iff, !in_map_iff. split.
  - intros [[t [E H]]|[[t [E H]]|[[t [E H]]|[t [E H]]]]]; exists t; split; auto.
  - intros [t [H [E|[E|[E|E]]]]]; subst c.
    + left; exists t; auto.
    + right; left; exists t; auto.
    + right; right; left; exists t; auto.
    + right; right; right; exists t; auto.
Qed.

Lemma up_sample_members4 (ts : list rtri) c :
  In c (up_sample_triangles ts) <-> exists t, In t ts /\ In c (children4 t).
Proof.
  rewrite up_sample_members. unfold children4. split; intros [t [H K]]; exists t; split; auto; cbn in *.
  - destruct K as [K|[K|[K|K]]]; subst; auto.
  - destruct K as [K|[K|[K|[K|[]]]]]; subst; auto.
Qed.

(* every corner of every parent is a corner of one of its children *)
Lemma corners_kept (t : rtri) (p : rpt) : is_corner p t -> exists c, In c (children4 t) /\ is_corner p c.
Proof.
  unfold is_corner, children4. intros [H|[H|H]]; subst p.
  - exists (child_d t). split; [cbn; auto|]. left. reflexivity.
  - exists (child_a t). split; [cbn; auto|]. left. reflexivity.
  - exists (child_b t). split; [cbn; auto|]. left. reflexivity.
Qed.

(* the four children are the midpoint subdivision *)
Lemma children_are_subdivision (t : rtri) : same_triangle_set (children4 t) (subdivision t).
Proof.
  destruct t as [[[x0 y0] [x1 y1]] [x2 y2]].
  unfold same_triangle_set, children4, subdivision. split.
  - intros s [H|[H|[H|[H|[]]]]]; subst s.
    + eexists. split; [right; left; reflexivity|]. rsimp. left. reflexivity.
    + eexists. split; [right; right; left; reflexivity|]. rsimp. left. reflexivity.
    + eexists. split; [right; right; right; left; reflexivity|]. rsimp. left. reflexivity.
    + eexists. split; [left; reflexivity|]. rsimp. left. reflexivity.
  - intros s [H|[H|[H|[H|[]]]]]; subst s.
    + exists (child_d (x0, y0, (x1, y1), (x2, y2))). split; [cbn; auto|]. rsimp. left. reflexivity.
    + exists (child_a (x0, y0, (x1, y1), (x2, y2))). split; [cbn; auto|]. rsimp. left. reflexivity.
    + exists (child_b (x0, y0, (x1, y1), (x2, y2))). split; [cbn; auto|]. rsimp. left. reflexivity.
    + exists (child_c (x0, y0, (x1, y1), (x2, y2))). split; [cbn; auto|]. rsimp. left. reflexivity.
Qed.

(* ------------------------------------------------------------------ the subdivision tiles the parent *)
Lemma subdivision_signed2 (t c : rtri) : In c (subdivision t) -> signed2 c = signed2 t / 4.
Proof.
  destruct t as [[[x0 y0] [x1 y1]] [x2 y2]]. unfold subdivision.
  intros [H|[H|[H|[H|[]]]]]; subst c; rsimp; field.
Qed.

Ltac pteq := unfold comb; rsimp; f_equal; field.

Lemma subdivision_inside_parent (t c : rtri) (p : rpt) :
  In c (subdivision t) -> inside c p -> inside t p.
Proof.
  destruct t as [[[x0 y0] [x1 y1]] [x2 y2]]. unfold subdivision, inside.
  intros [H|[H|[H|[H|[]]]]] (a & b & g & Ha & Hb & Hg & Hs & Hp); subst c p.
  - exists (a + b / 2 + g / 2), (b / 2), (g / 2). repeat split; try lra. pteq.
  - exists (g / 2), (a + b / 2 + g / 2), (b / 2). repeat split; try lra. pteq.
  - exists (b / 2), (g / 2), (a + b / 2 + g / 2). repeat split; try lra. pteq.
  - exists (a / 2 + g / 2), (a / 2 + b / 2), (b / 2 + g / 2). repeat split; try lra. pteq.
Qed.

Lemma subdivision_covers_parent (t : rtri) (p : rpt) :
  inside t p -> exists c, In c (subdivision t) /\ inside c p.
Proof.
  destruct t as [[[x0 y0] [x1 y1]] [x2 y2]]. unfold subdivision, inside.
  intros (a & b & g & Ha & Hb & Hg & Hs & Hp); subst p.
  assert (Eg : g = 1 - a - b) by lra. subst g. clear Hs.
  destruct (Rle_dec (1 / 2) a) as [A|A]; [|destruct (Rle_dec (1 / 2) b) as [B|B]; [|destruct (Rle_dec (1 / 2) (1 - a - b)) as [G|G]]].
  - eexists. split; [left; reflexivity|].
    exists (2 * a - 1), (2 * b), (2 * (1 - a - b)). repeat split; try lra. pteq.
  - eexists. split; [right; left; reflexivity|].
    exists (2 * b - 1), (2 * (1 - a - b)), (2 * a). repeat split; try lra. pteq.
  - eexists. split; [right; right; left; reflexivity|].
    exists (2 * (1 - a - b) - 1), (2 * a), (2 * b). repeat split; try lra. pteq.
  - eexists. split; [right; right; right; left; reflexivity|].
    exists (1 - 2 * (1 - a - b)), (1 - 2 * a), (1 - 2 * b). repeat split; try lra. pteq.
Qed.

Lemma bary_unique (t : rtri) a b c a' b' c' :
  nondegenerate t -> a + b + c = 1 -> a' + b' + c' = 1 -> comb a b c t = comb a' b' c' t ->
  a = a' /\ b = b' /\ c = c'.
Proof.
  destruct t as [[[x0 y0] [x1 y1]] [x2 y2]]. unfold nondegenerate. rsimp.
  intros D S S' E. injection E as E1 E2.
  assert (F1 : (a - a') * (x0 - x2) + (b - b') * (x1 - x2) = 0).
  { replace c with (1 - a - b) in E1 by lra. replace c' with (1 - a' - b') in E1 by lra. lra. }
  assert (F2 : (a - a') * (y0 - y2) + (b - b') * (y1 - y2) = 0).
  { replace c with (1 - a - b) in E2 by lra. replace c' with (1 - a' - b') in E2 by lra. lra. }
  set (DD := (x1 - x0) * (y2 - y0) - (x2 - x0) * (y1 - y0)) in *.
  assert (Xa : (a - a') * DD = 0).
  { replace ((a - a') * DD) with (((a - a') * (x0 - x2) + (b - b') * (x1 - x2)) * (y1 - y2)
                                   - ((a - a') * (y0 - y2) + (b - b') * (y1 - y2)) * (x1 - x2)) by (unfold DD; ring).
    rewrite F1, F2. ring. }
  assert (Xb : (b - b') * DD = 0).
  { replace ((b - b') * DD) with (((a - a') * (y0 - y2) + (b - b') * (y1 - y2)) * (x0 - x2)
                                   - ((a - a') * (x0 - x2) + (b - b') * (x1 - x2)) * (y0 - y2)) by (unfold DD; ring).
    rewrite F1, F2. ring. }
  apply Rmult_integral in Xa, Xb. destruct Xa as [Xa|Xa]; [|contradiction]. destruct Xb as [Xb|Xb]; [|contradiction].
  repeat split; lra.
Qed.

(* where the open children lie in the parent's barycentric coordinates *)
Definition region (i : nat) (a b c : R) : Prop :=
  match i with
  | 0%nat => 1 / 2 < a /\ 0 < b /\ 0 < c
  | 1%nat => 1 / 2 < b /\ 0 < a /\ 0 < c
  | 2%nat => 1 / 2 < c /\ 0 < a /\ 0 < b
  | _ => a < 1 / 2 /\ b < 1 / 2 /\ c < 1 / 2
  end.

Lemma child_region (t c : rtri) (p : rpt) (i : nat) :
  nth_error (subdivision t) i = Some c -> strictly_inside c p ->
  exists a b g, a + b + g = 1 /\ p = comb a b g t /\ region i a b g.
Proof.
  destruct t as [[[x0 y0] [x1 y1]] [x2 y2]]. unfold subdivision, strictly_inside.
  destruct i as [|[|[|[|i]]]]; cbn [nth_error]; intros E (a & b & g & Ha & Hb & Hg & Hs & Hp);
    try (destruct i; discriminate); injection E as E; subst c p; unfold region.
  - exists (a + b / 2 + g / 2), (b / 2), (g / 2). repeat split; try lra. pteq.
  - exists (g / 2), (a + b / 2 + g / 2), (b / 2). repeat split; try lra. pteq.
  - exists (b / 2), (g / 2), (a + b / 2 + g / 2). repeat split; try lra. pteq.
  - exists (a / 2 + g / 2), (a / 2 + b / 2), (b / 2 + g / 2). repeat split; try lra. pteq.
Qed.

Lemma subdivision_interiors_disjoint (t c1 c2 : rtri) (p : rpt) (i j : nat) :
  nondegenerate t -> i <> j ->
  nth_error (subdivision t) i = Some c1 -> nth_error (subdivision t) j = Some c2 ->
  strictly_inside c1 p -> strictly_inside c2 p -> False.
Proof.
  intros D N E1 E2 S1 S2.
  destruct (child_region t c1 p i E1 S1) as (a & b & g & Hs & Hp & R1).
  destruct (child_region t c2 p j E2 S2) as (a' & b' & g' & Hs' & Hp' & R2).
  rewrite Hp in Hp'. destruct (bary_unique t a b g a' b' g' D Hs Hs' Hp') as (Ea & Eb & Eg). subst a' b' g'.
  assert (Li : (i < length (subdivision t))%nat) by (apply nth_error_Some; rewrite E1; discriminate).
  assert (Lj : (j < length (subdivision t))%nat) by (apply nth_error_Some; rewrite E2; discriminate).
  unfold subdivision in Li, Lj. cbn [length] in Li, Lj.
  destruct i as [|[|[|[|i]]]]; try lia; destruct j as [|[|[|[|j]]]]; try lia; unfold region in *; lra.
Qed.

Lemma up_sample_is_subdivision (ts : list rtri) :
  same_triangle_set (up_sample_triangles ts) (flat_map subdivision ts).
Proof.
  split.
  - intros s Hs. apply up_sample_members4 in Hs. destruct Hs as [t [Ht Hc]].
    destruct (children_are_subdivision t) as [H1 _]. destruct (H1 s Hc) as [u [Hu Hp]].
    exists u. split; auto. apply in_flat_map. exists t. auto.
  - intros u Hu. apply in_flat_map in Hu. destruct Hu as [t [Ht Hu]].
    destruct (children_are_subdivision t) as [_ H2]. destruct (H2 u Hu) as [s [Hs Hp]].
    exists s. split; auto. apply up_sample_members4. exists t. auto.
Qed.

(* ------------------------------------------------------------------ np.unique / return_inverse *)
Section UniqueFacts.
  Context {A : Type} (ltb eqb : A -> A -> bool).
  Hypothesis eqb_eq : forall x y, eqb x y = true <-> x = y.

  Lemma in_ins x p l : In x (ins ltb eqb p l) <-> x = p \/ In x l.
  Proof.
    induction l as [|q l IH]; cbn [ins].
    - cbn. intuition.
    - destruct (ltb p q).
      + cbn. intuition.
      + destruct (eqb p q) eqn:E.
        * apply eqb_eq in E. subst q. cbn. intuition.
        * cbn. rewrite IH. intuition.
  Qed.
  Lemma in_unique x l : In x (unique ltb eqb l) <-> In x l.
  Proof.
    unfold unique. induction l as [|q l IH]; cbn [fold_right]; [tauto|].
    rewrite in_ins, IH. cbn. intuition.
  Qed.
  Lemma index_of_nth p l d : In p l -> nth (index_of eqb p l) l d = p.
  Proof.
    induction l as [|q l IH]; intros H; [destruct H|]. cbn [index_of].
    destruct (eqb p q) eqn:E.
    - apply eqb_eq in E. subst. reflexivity.
    - cbn [nth]. apply IH. destruct H as [H|H]; auto. subst q.
      assert (X : eqb p p = true) by (apply eqb_eq; reflexivity). congruence.
  Qed.
  Lemma index_of_lt p l : In p l -> (index_of eqb p l < length l)%nat.
  Proof.
    induction l as [|q l IH]; intros H; [destruct H|]. cbn [index_of length].
    destruct (eqb p q) eqn:E; [lia|]. apply -> Nat.succ_lt_mono. apply IH.
    destruct H as [H|H]; auto. subst q.
    assert (X : eqb p p = true) by (apply eqb_eq; reflexivity). congruence.
  Qed.
End UniqueFacts.

Lemma pt_eqb_eq (p q : rpt) : @pt_eqb ROps p q = true <-> p = q.
Proof.
  destruct p as [a b], q as [c d]. unfold pt_eqb. cbn [eqb ROps fst snd].
  rewrite andb_true_iff, !Reqb_true. split; [intros [-> ->]; reflexivity|intros E; injection E; auto].
Qed.

Lemma tri_eta {O : NumOps} (t : @tri O) : (v0 t, v1 t, v2 t) = t.
Proof. destruct t as [[a b] c]. reflexivity. Qed.

Lemma in_flatten {O : NumOps} (ts : list (@tri O)) t :
  In t ts -> In (v0 t) (flatten ts) /\ In (v1 t) (flatten ts) /\ In (v2 t) (flatten ts).
Proof.
  intros H. unfold flatten. rewrite !in_flat_map. repeat split; exists t; cbn; auto.
Qed.

(* vertices[indices] after de-duplication gives back the triangles that were de-duplicated *)
Lemma reindex_triangles (ts : list rtri) : a_triangles (reindex ts) = ts.
Proof.
  unfold reindex, a_triangles. cbn [fst snd]. rewrite map_map.
  transitivity (map (fun t : rtri => t) ts); [|apply map_id]. apply map_ext_in. intros t Ht.
  destruct (in_flatten ts t Ht) as (H0 & H1 & H2).
  unfold row_tri, i0, i1, i2, getv, index_pt, unique_pts. cbn [fst snd].
  rewrite !(index_of_nth _ pt_eqb_eq) by (apply (in_unique _ _ pt_eqb_eq); assumption).
  apply tri_eta.
Qed.

Lemma reindex_idx_ok (ts : list rtri) r :
  In r (fst (reindex ts)) ->
  (i0 r < length (snd (reindex ts)) /\ i1 r < length (snd (reindex ts)) /\ i2 r < length (snd (reindex ts)))%nat.
Proof.
  unfold reindex. cbn [fst snd]. rewrite in_map_iff. intros [t [E Ht]]. subst r.
  destruct (in_flatten ts t Ht) as (H0 & H1 & H2). unfold i0, i1, i2, index_pt, unique_pts. cbn [fst snd].
  repeat split; apply (index_of_lt _ pt_eqb_eq); apply (in_unique _ _ pt_eqb_eq); assumption.
Qed.

Lemma a_up_sample_triangles (A : @atri ROps) :
  a_triangles (a_up_sample A) = up_sample_triangles (a_triangles A).
Proof. unfold a_up_sample. apply reindex_triangles. Qed.

(* ------------------------------------------------------------------ neighbourhoods *)
Lemma refl_signed2 (t : rtri) :
  signed2 (refl0 t) = - signed2 t /\ signed2 (refl1 t) = - signed2 t /\ signed2 (refl2 t) = - signed2 t.
Proof. destruct t as [[[x0 y0] [x1 y1]] [x2 y2]]. rsimp. repeat split; ring. Qed.

Lemma refl_edge_neighbour (t : rtri) :
  edge_neighbour 0 t (refl0 t) /\ edge_neighbour 1 t (refl1 t) /\ edge_neighbour 2 t (refl2 t).
Proof.
  destruct t as [[[x0 y0] [x1 y1]] [x2 y2]]. unfold edge_neighbour, point_reflection. rsimp.
  repeat split; f_equal; field.
Qed.

Lemma edge_neighbour_unique (k : nat) (t n : rtri) :
  edge_neighbour k t n -> n = nth k [refl0 t; refl1 t; refl2 t] (refl2 t).
Proof.
  destruct t as [[[x0 y0] [x1 y1]] [x2 y2]], n as [[[a0 b0] [a1 b1]] [a2 b2]].
  unfold edge_neighbour, point_reflection. destruct k as [|[|k]]; rsimp.
  - intros (E1 & E2 & E3). injection E1 as -> ->. injection E2 as -> ->. injection E3 as F1 F2.
    cbn [nth]. replace a0 with (x1 + x2 - x0) by lra. replace b0 with (y1 + y2 - y0) by lra. reflexivity.
  - intros (E1 & E2 & E3). injection E1 as -> ->. injection E2 as -> ->. injection E3 as F1 F2.
    cbn [nth]. replace a1 with (x0 + x2 - x1) by lra. replace b1 with (y0 + y2 - y1) by lra. reflexivity.
  - intros (E1 & E2 & E3). injection E1 as -> ->. injection E2 as -> ->. injection E3 as F1 F2.
    replace a2 with (x0 + x1 - x2) by lra. replace b2 with (y0 + y1 - y2) by lra.
    cbn [nth]. destruct k as [|k]; [reflexivity|destruct k; reflexivity].
Qed.

Lemma self_or_neighbour_iff (t n : rtri) :
  self_or_neighbour t n <-> (n = refl0 t \/ n = refl1 t \/ n = refl2 t \/ n = t).
Proof.
  unfold self_or_neighbour. destruct (refl_edge_neighbour t) as (R0 & R1 & R2). split.
  - intros [H|[H|[H|H]]]; auto; apply edge_neighbour_unique in H; cbn [nth] in H; auto.
  - intros [H|[H|[H|H]]]; subst n; auto.
Qed.

Lemma neighborhood_members {O : NumOps} (ts : list (@tri O)) n :
  In n (neighborhood_triangles ts) <->
  exists t, In t ts /\ (n = refl0 t \/ n = refl1 t \/ n = refl2 t \/ n = t).
Proof.
  unfold neighborhood_triangles. rewrite !in_app_iff, !in_map_iff. split.
  - intros [[t [E H]]|[[t [E H]]|[[t [E H]]|H]]]; [exists t|exists t|exists t|exists n]; split; auto.
  - intros [t [H [E|[E|[E|E]]]]]; subst n.
    + left; exists t; auto.
    + right; left; exists t; auto.
    + right; right; left; exists t; auto.
    + right; right; right; auto.
Qed.

Lemma neighborhood_spec (ts : list rtri) n :
  In n (neighborhood_triangles ts) <-> exists t, In t ts /\ self_or_neighbour t n.
Proof.
  rewrite neighborhood_members. split; intros [t [H K]]; exists t; split; auto; apply self_or_neighbour_iff; auto.
Qed.

Definition perm3 {A} (s r : A * A * A) : Prop :=
  let '(a, b, c) := r in
  s = (a, b, c) \/ s = (a, c, b) \/ s = (b, a, c) \/ s = (b, c, a) \/ s = (c, a, b) \/ s = (c, b, a).

Lemma triple_eq {A} (a b c a' b' c' : A) : a = a' -> b = b' -> c = c' -> (a, b, c) = (a', b', c').
Proof. intros -> -> ->. reflexivity. Qed.
Ltac try_disj :=
  match goal with
  | |- _ \/ _ => (left; solve [apply triple_eq; lia]) || (right; try_disj)
  | |- _ => solve [apply triple_eq; lia]
  end.

Lemma sort3_perm (r : idx3) : perm3 (sort3 r) r.
Proof.
  destruct r as [[a b] c]. unfold perm3, sort3, i0, i1, i2. cbn [fst snd].
  destruct (Nat.min_spec b c) as [[? ->]|[? ->]]; destruct (Nat.max_spec b c) as [[? ->]|[? ->]]; try lia;
  match goal with |- context [Nat.min a ?x] => destruct (Nat.min_spec a x) as [[? ->]|[? ->]] end;
  match goal with |- context [Nat.max a ?x] => destruct (Nat.max_spec a x) as [[? ->]|[? ->]] end;
  try lia; try_disj.
Qed.

Lemma row_tri_perm (u : list rpt) (s r : idx3) : perm3 s r -> tri_perm (row_tri u s) (row_tri u r).
Proof.
  destruct r as [[a b] c]. unfold perm3, tri_perm, row_tri, i0, i1, i2. cbn [fst snd].
  intros [H|[H|[H|[H|[H|H]]]]]; subst s; cbn [fst snd]; auto 10.
Qed.

Lemma idx3_eqb_eq (r s : idx3) : idx3_eqb r s = true <-> r = s.
Proof.
  destruct r as [[a b] c], s as [[d e] f]. unfold idx3_eqb, i0, i1, i2. cbn [fst snd].
  rewrite !andb_true_iff, !Nat.eqb_eq. split; [intros [[-> ->] ->]; reflexivity|intros E; injection E; auto].
Qed.

Lemma a_neighborhood_exact (A : @atri ROps) :
  same_triangle_set (a_triangles (a_neighborhood A)) (neighborhood_triangles (a_triangles A)).
Proof.
  unfold a_neighborhood. set (ts := neighborhood_triangles (a_triangles A)).
  pose proof (reindex_triangles ts) as RT.
  set (r := reindex ts) in *. unfold a_triangles in *. cbn [fst snd] in *. split.
  - intros s Hs. apply in_map_iff in Hs. destruct Hs as [q [Es Hq]].
    apply (proj1 (in_unique idx3_ltb idx3_eqb idx3_eqb_eq _ _)) in Hq. apply in_map_iff in Hq. destruct Hq as [r0 [Eq Hr0]].
    exists (row_tri (snd r) r0). split.
    + rewrite <- RT. apply in_map. exact Hr0.
    + subst s q. apply row_tri_perm. apply sort3_perm.
  - intros t Ht. rewrite <- RT in Ht. apply in_map_iff in Ht. destruct Ht as [r0 [Et Hr0]].
    exists (row_tri (snd r) (sort3 r0)). split.
    + apply in_map. apply (proj2 (in_unique idx3_ltb idx3_eqb idx3_eqb_eq _ _)). apply in_map. exact Hr0.
    + subst t. apply row_tri_perm. apply sort3_perm.
Qed.

(* ------------------------------------------------------------------ selections and the two representations *)
Lemma nth_error_map_nth {A B} (f : A -> B) (l : list A) (d : A) i :
  (i < length l)%nat -> nth_error (map f l) i = Some (f (nth i l d)).
Proof.
  revert i. induction l as [|x l IH]; intros i H; cbn in H; [lia|].
  destruct i; cbn; [reflexivity|]. apply IH. lia.
Qed.

Lemma a_for_indexes_triangles (A : @atri ROps) (sel : list nat) :
  Forall (fun i => (i < length (fst A))%nat) sel ->
  map Some (a_triangles (a_for_indexes A sel)) = map (nth_error (a_triangles A)) sel.
Proof.
  intros H. unfold a_for_indexes. rewrite reindex_triangles. unfold a_triangles. rewrite !map_map.
  apply map_ext_in. intros i Hi. rewrite Forall_forall in H.
  symmetry. apply nth_error_map_nth. apply H. exact Hi.
Qed.

Lemma c_tri_params {O : NumOps} (h : T O) (S1 S2 : cs O) c :
  c_side S1 = c_side S2 -> c_xoff S1 = c_xoff S2 -> c_yoff S1 = c_yoff S2 -> c_flipped S1 = c_flipped S2 ->
  c_tri h S1 c = c_tri h S2 c.
Proof. intros E1 E2 E3 E4. unfold c_tri, c_centre. rewrite E1, E2, E3, E4. reflexivity. Qed.

Lemma c_for_indexes_triangles {O : NumOps} (h : T O) (S : cs O) (sel : list nat) :
  Forall (fun i => (i < length (c_coords S))%nat) sel ->
  map Some (c_triangles h (c_for_indexes S sel)) = map (nth_error (c_triangles h S)) sel.
Proof.
  intros H. unfold c_triangles. cbn [c_for_indexes c_coords]. rewrite !map_map.
  apply map_ext_in. intros i Hi. rewrite Forall_forall in H.
  rewrite (nth_error_map_nth _ _ (0, 0)%Z) by (apply H; exact Hi).
  apply f_equal. apply c_tri_params; reflexivity.
Qed.

Lemma c_representations_agree (h : T ROps) (S : cs ROps) :
  a_triangles (c_with_vertices h S (snd (c_repr h S))) = c_triangles h S.
Proof.
  unfold c_with_vertices. rewrite <- surjective_pairing. unfold c_repr. apply reindex_triangles.
Qed.

Lemma c_repr_idx_ok (h : T ROps) (S : cs ROps) r :
  In r (fst (c_repr h S)) ->
  (i0 r < length (snd (c_repr h S)) /\ i1 r < length (snd (c_repr h S)) /\ i2 r < length (snd (c_repr h S)))%nat.
Proof. apply reindex_idx_ok. Qed.

Lemma in_where_from (l : list bool) : forall k i,
  In i (where_from k l) <-> exists j, i = (k + j)%nat /\ nth_error l j = Some true.
Proof.
  induction l as [|b l IH]; intros k i; cbn [where_from].
  - split; [intros []|intros [j [_ H]]; destruct j; discriminate].
  - destruct b.
    + cbn [In]. rewrite IH. split.
      * intros [H|[j [E H]]]; [exists 0%nat; split; [lia|reflexivity]|exists (S j); split; [lia|exact H]].
      * intros [[|j] [E H]]; [left; lia|right; exists j; split; [lia|exact H]].
    + rewrite IH. split.
      * intros [j [E H]]. exists (S j). split; [lia|exact H].
      * intros [[|j] [E H]]; [discriminate|exists j; split; [lia|exact H]].
Qed.

Lemma in_where_true (l : list bool) i : In i (where_true l) <-> nth_error l i = Some true.
Proof.
  unfold where_true. rewrite in_where_from. split; [intros [j [-> H]]; exact H|intros H; exists i; auto].
Qed.

Lemma a_containing_spec {O : NumOps} (A : @atri O) (s : shape O) i :
  In i (a_containing A s) <-> exists t, nth_error (a_triangles A) i = Some t /\ shape_mask s t = true.
Proof.
  unfold a_containing. rewrite in_where_true, nth_error_map.
  destruct (nth_error (a_triangles A) i) as [t|]; cbn [option_map].
  - split; [intros H; exists t; split; congruence|intros [t' [E H]]; congruence].
  - split; [discriminate|intros [t' [E _]]; discriminate].
Qed.

Lemma c_containing_spec (h : T ROps) (S : cs ROps) (s : shape ROps) i :
  In i (c_containing h S s) <-> exists t, nth_error (c_triangles h S) i = Some t /\ shape_mask s t = true.
Proof. unfold c_containing. rewrite a_containing_spec, c_representations_agree. reflexivity. Qed.

(* ------------------------------------------------------------------ the integer-lattice representation *)
Lemma pair_eq {A B} (a a' : A) (b b' : B) : a = a' -> b = b' -> (a, b) = (a', b').
Proof. intros -> ->. reflexivity. Qed.

Lemma parity_shift (x y k : Z) : ((2 * x + 2 * y + k) mod 2 = k mod 2)%Z.
Proof. replace (2 * x + 2 * y + k)%Z with (k + (x + y) * 2)%Z by ring. apply Z_mod_plus_full. Qed.

Lemma flip_child (x y dx dy : Z) :
  flip_of true (zadd (dbl (x, y)) (dx, dy)) = Z.even (dx + dy).
Proof.
  unfold flip_of, zadd, dbl. cbn [fst snd].
  replace (2 * x + dx + (2 * y + dy))%Z with (2 * x + 2 * y + (dx + dy))%Z by ring.
  rewrite parity_shift, Zmod_even. destruct (Z.even (dx + dy)); reflexivity.
Qed.

Ltac ptri_eq := apply triple_eq; apply pair_eq; change (T ROps) with R; field.
Ltac tri_perm_solve :=
  unfold tri_perm;
  first [ left; solve [ptri_eq] | right; left; solve [ptri_eq] | right; right; left; solve [ptri_eq]
        | right; right; right; left; solve [ptri_eq] | right; right; right; right; left; solve [ptri_eq]
        | right; right; right; right; right; solve [ptri_eq] ].

Lemma flip_dbl (x y : Z) : flip_of true (dbl (x, y)) = true.
Proof.
  unfold flip_of, dbl. cbn [fst snd]. replace (2 * x + 2 * y)%Z with (2 * x + 2 * y + 0)%Z by ring.
  rewrite parity_shift. reflexivity.
Qed.

Ltac csimp :=
  unfold c_tri, c_centre, flip_sign, zadd, dbl;
  cbn [c_up_sample c_flipped c_side c_xoff c_yoff fst snd];
  rsimp; rewrite ?plus_IZR, ?mult_IZR, ?opp_IZR.

Lemma coord_children_geometry (h : T ROps) (S : cs ROps) (c : zpt) :
  let S' := c_up_sample h S in
  let t := c_tri h S c in
  Forall2 tri_perm (map (c_tri h S') (lattice_children (flip_of (c_flipped S) c) c))
          (if flip_of (c_flipped S) c then [child_d t; child_b t; child_a t; child_c t]
           else [child_c t; child_a t; child_b t; child_d t]).
Proof.
  destruct c as [x y]. destruct S as [cs s xo yo fl]. cbn zeta. cbn [c_flipped].
  unfold lattice_children.
  destruct (flip_of fl (x, y)) eqn:D; cbn [map]; (constructor; [|constructor; [|constructor; [|constructor; [|constructor]]]]).
  all: unfold c_tri at 1; cbn [c_up_sample c_flipped]; rewrite ?flip_child, ?flip_dbl; cbn [Z.even Z.add Z.opp Pos.add Pos.succ Z.pos_sub Pos.pred_double Z.succ_double Z.pred_double Z.double].
  all: unfold c_tri; cbn [c_flipped]; rewrite ?D.
  all: csimp.
  all: tri_perm_solve.
Qed.

Lemma flip_neighbour (fl : bool) (c : zpt) (dx dy : Z) :
  Z.even (dx + dy) = false -> flip_of fl (zadd c (dx, dy)) = negb (flip_of fl c).
Proof.
  intros H. destruct c as [x y]. unfold flip_of, zadd. cbn [fst snd].
  replace (x + dx + (y + dy))%Z with ((x + y) + (dx + dy))%Z by ring.
  rewrite !Zmod_even, Z.even_add, H. destruct (Z.even (x + y)), fl; reflexivity.
Qed.

Lemma coord_neighbours_geometry (h : T ROps) (S : cs ROps) (c : zpt) :
  let t := c_tri h S c in
  Forall2 tri_perm (map (c_tri h S) (lattice_neighbours (flip_of (c_flipped S) c) c))
          (if flip_of (c_flipped S) c then [t; refl1 t; refl2 t; refl0 t] else [t; refl2 t; refl1 t; refl0 t]).
Proof.
  destruct c as [x y]. destruct S as [cs s xo yo fl]. cbn zeta. cbn [c_flipped].
  unfold lattice_neighbours.
  destruct (flip_of fl (x, y)) eqn:D; cbn [map]; (constructor; [|constructor; [|constructor; [|constructor; [|constructor]]]]).
  all: try (unfold tri_perm; destruct (c_tri _ _ _) as [[a b] d]; left; reflexivity).
  all: unfold c_tri at 1; cbn [c_flipped]; rewrite flip_neighbour by reflexivity; rewrite D; cbn [negb].
  all: unfold c_tri; cbn [c_flipped]; rewrite ?D.
  all: csimp.
  all: tri_perm_solve.
Qed.

(* ---- list level ---- *)
Lemma Forall2_in_l {A B} (R : A -> B -> Prop) l1 l2 x :
  Forall2 R l1 l2 -> In x l1 -> exists y, In y l2 /\ R x y.
Proof.
  induction 1 as [|a b l1 l2 H HF IH]; intros Hx; [destruct Hx|].
  destruct Hx as [->|Hx]; [exists b; cbn; auto|]. destruct (IH Hx) as [y [Hy Hr]]. exists y. cbn. auto.
Qed.
Lemma Forall2_in_r {A B} (R : A -> B -> Prop) l1 l2 y :
  Forall2 R l1 l2 -> In y l2 -> exists x, In x l1 /\ R x y.
Proof.
  induction 1 as [|a b l1 l2 H HF IH]; intros Hy; [destruct Hy|].
  destruct Hy as [->|Hy]; [exists a; cbn; auto|]. destruct (IH Hy) as [x [Hx Hr]]. exists x. cbn. auto.
Qed.

Lemma in_map_filter {A B} (f : A -> B) (p : A -> bool) l y :
  In y (map f (filter p l)) <-> exists x, In x l /\ p x = true /\ y = f x.
Proof.
  rewrite in_map_iff. split.
  - intros [x [E H]]. apply filter_In in H. exists x. intuition.
  - intros [x [H [P E]]]. exists x. split; auto. apply filter_In. auto.
Qed.

Lemma in_filter_ex {A} (p : A -> bool) l y :
  In y (filter p l) <-> exists x, In x l /\ p x = true /\ y = x.
Proof.
  rewrite filter_In. split; [intros [H P]; exists y; auto|intros [x [H [P ->]]]; auto].
Qed.

Lemma c_up_coords_members {O : NumOps} (h : T O) (S : cs O) c' :
  In c' (c_coords (c_up_sample h S)) <->
  exists c, In c (c_coords S) /\ In c' (lattice_children (flip_of (c_flipped S) c) c).
Proof.
  cbn [c_up_sample c_coords]. rewrite !in_app_iff.
  rewrite !in_map_filter. unfold lattice_children. split.
  - intros [[H|[H|[H|H]]]|[H|[H|[H|H]]]]; destruct H as [c [Hc [P E]]]; exists c; split; auto;
      try (apply negb_true_iff in P); rewrite P; subst c'; cbn; auto.
  - intros [c [Hc H]]. destruct (flip_of (c_flipped S) c) eqn:P; cbn [In] in H.
    + right. destruct H as [H|[H|[H|[H|[]]]]]; subst c'.
      * left. exists c. auto.
      * right; left. exists c. auto.
      * right; right; left. exists c. auto.
      * right; right; right. exists c. auto.
    + left. destruct H as [H|[H|[H|[H|[]]]]]; subst c'.
      * left. exists c. rewrite P. auto.
      * right; left. exists c. rewrite P. auto.
      * right; right; left. exists c. rewrite P. auto.
      * right; right; right. exists c. rewrite P. auto.
Qed.

Lemma zpt_eqb_eq (p q : zpt) : zpt_eqb p q = true <-> p = q.
Proof.
  destruct p as [a b], q as [c d]. unfold zpt_eqb. cbn [fst snd].
  rewrite andb_true_iff, !Z.eqb_eq. split; [intros [-> ->]; reflexivity|intros E; injection E; auto].
Qed.

Lemma c_nbr_coords_members {O : NumOps} (S : cs O) c' :
  In c' (c_coords (c_neighborhood S)) <->
  exists c, In c (c_coords S) /\ In c' (lattice_neighbours (flip_of (c_flipped S) c) c).
Proof.
  cbn [c_neighborhood c_coords]. rewrite (in_unique zpt_ltb zpt_eqb zpt_eqb_eq). rewrite !in_app_iff.
  rewrite !in_map_filter, !in_filter_ex. unfold lattice_neighbours. split.
  - intros [[H|[H|[H|H]]]|[H|[H|[H|H]]]]; destruct H as [c [Hc [P E]]]; exists c; split; auto;
      try (apply negb_true_iff in P); rewrite P; subst c'; cbn; auto.
  - intros [c [Hc H]]. destruct (flip_of (c_flipped S) c) eqn:P; cbn [In] in H.
    + right. destruct H as [H|[H|[H|[H|[]]]]]; subst c'.
      * left. exists c. auto.
      * right; left. exists c. auto.
      * right; right; left. exists c. auto.
      * right; right; right. exists c. auto.
    + left. destruct H as [H|[H|[H|[H|[]]]]]; subst c'.
      * left. exists c. rewrite P. auto.
      * right; left. exists c. rewrite P. auto.
      * right; right; left. exists c. rewrite P. auto.
      * right; right; right. exists c. rewrite P. auto.
Qed.

Lemma c_up_sample_exact (h : T ROps) (S : cs ROps) :
  same_triangle_set (c_triangles h (c_up_sample h S)) (up_sample_triangles (c_triangles h S)).
Proof.
  unfold c_triangles. split.
  - intros s Hs. apply in_map_iff in Hs. destruct Hs as [c' [Es Hc']].
    apply c_up_coords_members in Hc'. destruct Hc' as [c [Hc Hin]].
    pose proof (coord_children_geometry h S c) as G. cbn zeta in G.
    destruct (Forall2_in_l _ _ _ s G) as [u [Hu Hp]]; [subst s; apply in_map; exact Hin|].
    exists u. split; auto. apply up_sample_members. exists (c_tri h S c). split; [apply in_map; exact Hc|].
    destruct (flip_of (c_flipped S) c); cbn [In] in Hu; intuition.
  - intros u Hu. apply up_sample_members in Hu. destruct Hu as [t [Ht Hu]].
    apply in_map_iff in Ht. destruct Ht as [c [Et Hc]]. subst t.
    pose proof (coord_children_geometry h S c) as G. cbn zeta in G.
    destruct (Forall2_in_r _ _ _ u G) as [s [Hs Hp]].
    { destruct (flip_of (c_flipped S) c); cbn [In]; intuition. }
    exists s. split; auto. apply in_map_iff in Hs. destruct Hs as [c' [Es Hc']].
    apply in_map_iff. exists c'. split; auto. apply c_up_coords_members. exists c. auto.
Qed.

Lemma c_neighborhood_exact (h : T ROps) (S : cs ROps) :
  same_triangle_set (c_triangles h (c_neighborhood S)) (neighborhood_triangles (c_triangles h S)).
Proof.
  unfold c_triangles. split.
  - intros s Hs. apply in_map_iff in Hs. destruct Hs as [c' [Es Hc']].
    apply c_nbr_coords_members in Hc'. destruct Hc' as [c [Hc Hin]].
    pose proof (coord_neighbours_geometry h S c) as G. cbn zeta in G.
    rewrite (c_tri_params h (c_neighborhood S) S c') in Es by reflexivity.
    destruct (Forall2_in_l _ _ _ s G) as [u [Hu Hp]]; [subst s; apply in_map; exact Hin|].
    exists u. split; auto. apply neighborhood_members. exists (c_tri h S c). split; [apply in_map; exact Hc|].
    destruct (flip_of (c_flipped S) c); cbn [In] in Hu; intuition.
  - intros u Hu. apply neighborhood_members in Hu. destruct Hu as [t [Ht Hu]].
    apply in_map_iff in Ht. destruct Ht as [c [Et Hc]]. subst t.
    pose proof (coord_neighbours_geometry h S c) as G. cbn zeta in G.
    destruct (Forall2_in_r _ _ _ u G) as [s [Hs Hp]].
    { destruct (flip_of (c_flipped S) c); cbn [In]; intuition. }
    exists s. split; auto. apply in_map_iff in Hs. destruct Hs as [c' [Es Hc']].
    apply in_map_iff. exists c'. split.
    + rewrite (c_tri_params h (c_neighborhood S) S c') by reflexivity. exact Es.
    + apply c_nbr_coords_members. exists c. auto.
Qed.

(* ------------------------------------------------------------------ containment *)
Lemma point_mask_degenerate (p : rpt) (t : rtri) : signed2 t = 0 -> point_mask p t = false.
Proof.
  destruct t as [[[x1 y1] [x2 y2]] [x3 y3]], p as [px py]. unfold point_mask, bary_mask. rsimp. cbn [eqb leb ROps].
  intros D. destruct (Reqb _ 0) eqn:E; [reflexivity|]. rbool. exfalso. apply E. lra.
Qed.

Lemma point_mask_iff_inside (p : rpt) (t : rtri) :
  nondegenerate t -> (point_mask p t = true <-> inside t p).
Proof.
  destruct t as [[[x1 y1] [x2 y2]] [x3 y3]], p as [px py]. unfold nondegenerate, point_mask, bary_mask, inside.
  rsimp. cbn [eqb leb ROps]. intros D.
  set (den := (y2 - y3) * (x1 - x3) + (x3 - x2) * (y1 - y3)).
  assert (Dn : den <> 0) by (unfold den; intros X; apply D; lra).
  destruct (Reqb den 0) eqn:E; rbool; [contradiction|].
  rewrite !andb_true_iff, !Rleb_true. split.
  - intros [[[[[A0 A1] B0] B1] C0] C1].
    eexists _, _, _. split; [exact A0|]. split; [exact B0|]. split; [exact C0|]. split; [lra|].
    f_equal; unfold den; field; exact Dn.
  - intros (a & b & c & Ha & Hb & Hc & Hs & Hp). injection Hp as Hx Hy.
    assert (Ea : ((y2 - y3) * (px - x3) + (x3 - x2) * (py - y3)) / den = a).
    { subst px py. replace c with (1 - a - b) by lra. unfold den. field. exact Dn. }
    assert (Eb : ((y3 - y1) * (px - x3) + (x1 - x3) * (py - y3)) / den = b).
    { subst px py. replace c with (1 - a - b) by lra. unfold den. field. exact Dn. }
    rewrite Ea, Eb. repeat split; lra.
Qed.

Lemma shape_mask_if_reference_inside (s : shape ROps) (t : rtri) :
  point_mask (shape_ref s) t = true -> shape_mask s t = true.
Proof.
  intros H. destruct s; cbn [shape_mask shape_ref] in *; unfold tri_shape_mask; rewrite ?H, ?orb_true_r; reflexivity.
Qed.

(* the orientation test used by the correspondence checker agrees with the convex-hull definition *)
Lemma spec_inside_iff (p : rpt) (t : rtri) :
  @spec_inside ROps p t = true <-> nondegenerate t /\ inside t p.
Proof.
  destruct t as [[[x0 y0] [x1 y1]] [x2 y2]], p as [px py]. unfold nondegenerate, spec_inside, edge_fn, inside.
  rsimp. cbn [eqb leb ROps].
  set (o := (x1 - x0) * (y2 - y0) - (y1 - y0) * (x2 - x0)).
  set (d0 := (x1 - x0) * (py - y0) - (y1 - y0) * (px - x0)).
  set (d1 := (x2 - x1) * (py - y1) - (y2 - y1) * (px - x1)).
  set (d2 := (x0 - x2) * (py - y2) - (y0 - y2) * (px - x2)).
  assert (So : d0 + d1 + d2 = o) by (unfold d0, d1, d2, o; ring).
  assert (Eo : (x1 - x0) * (y2 - y0) - (x2 - x0) * (y1 - y0) = o) by (unfold o; ring).
  rewrite Eo. rewrite andb_true_iff, negb_true_iff, orb_true_iff, !andb_true_iff, !Rleb_true, Reqb_false. split.
  - intros [No [[[P0 P1] P2]|[[P0 P1] P2]]]; split; auto.
    + assert (Po : 0 < o) by lra.
      exists (d1 / o), (d2 / o), (d0 / o).
      split; [apply Rmult_le_pos; [lra|apply Rlt_le, Rinv_0_lt_compat; lra]|].
      split; [apply Rmult_le_pos; [lra|apply Rlt_le, Rinv_0_lt_compat; lra]|].
      split; [apply Rmult_le_pos; [lra|apply Rlt_le, Rinv_0_lt_compat; lra]|].
      split; [rewrite <- So; field; lra|].
      f_equal; unfold d0, d1, d2; fold o; unfold o; field; fold o; lra.
    + assert (Po : 0 < - o) by lra.
      exists (- d1 / - o), (- d2 / - o), (- d0 / - o).
      split; [apply Rmult_le_pos; [lra|apply Rlt_le, Rinv_0_lt_compat; lra]|].
      split; [apply Rmult_le_pos; [lra|apply Rlt_le, Rinv_0_lt_compat; lra]|].
      split; [apply Rmult_le_pos; [lra|apply Rlt_le, Rinv_0_lt_compat; lra]|].
      split; [rewrite <- So; field; lra|].
      f_equal; unfold d0, d1, d2; fold o; unfold o; field; fold o; lra.
  - intros [No (a & b & c & Ha & Hb & Hc & Hs & Hp)]. split; [exact No|]. injection Hp as Hx Hy.
    assert (E0 : d0 = o * c) by (unfold d0, o; subst px py; replace a with (1 - b - c) by lra; ring).
    assert (E1 : d1 = o * a) by (unfold d1, o; subst px py; replace c with (1 - a - b) by lra; ring).
    assert (E2 : d2 = o * b) by (unfold d2, o; subst px py; replace c with (1 - a - b) by lra; ring).
    rewrite E0, E1, E2.
    destruct (Rle_dec 0 o) as [P|P].
    + left. repeat split; apply Rmult_le_pos; lra.
    + right. assert (Q : 0 <= - o) by lra.
      repeat split; match goal with |- o * ?z <= 0 => replace (o * z) with (- ((- o) * z)) by ring;
                        assert (0 <= (- o) * z) by (apply Rmult_le_pos; lra); lra end.
Qed.

(* ------------------------------------------------------------------ areas in the lattice representation *)
Lemma c_tri_signed2 (h : T ROps) (S : cs ROps) (c : zpt) : signed2 (c_tri h S c) = - (c_side S * c_side S * h).
Proof.
  destruct c as [x y], S as [cs s xo yo fl]. unfold c_tri, c_centre, flip_sign. cbn [c_flipped c_side c_xoff c_yoff fst snd].
  destruct (flip_of fl (x, y)); rsimp; field.
Qed.

Lemma c_area_is_total_area (h : T ROps) (S : cs ROps) :
  0 <= h -> c_area h S = total_area (c_triangles h S).
Proof.
  intros Hh. unfold c_area, c_triangles, c_len, ofNat. rsimp.
  induction (c_coords S) as [|c l IH]; cbn [map total_area length].
  - cbn. lra.
  - rewrite Nat2Z.inj_succ, succ_IZR. rewrite <- IH. unfold tri_area. rewrite c_tri_signed2.
    rewrite Rabs_Ropp, Rabs_right; [lra|].
    apply Rle_ge. apply Rmult_le_pos; [apply Rle_0_sqr|exact Hh].
Qed.

Lemma filter_partition_length {A} (p : A -> bool) l :
  (length (filter (fun x => negb (p x)) l) + length (filter p l) = length l)%nat.
Proof. induction l as [|x l IH]; cbn; [reflexivity|]. destruct (p x); cbn; lia. Qed.

Lemma c_up_sample_len {O : NumOps} (h : T O) (S : cs O) : c_len (c_up_sample h S) = (4 * c_len S)%nat.
Proof.
  unfold c_len. cbn [c_up_sample c_coords]. rewrite !app_length, !map_length.
  pose proof (filter_partition_length (flip_of (c_flipped S)) (c_coords S)). lia.
Qed.

Lemma c_up_sample_area (h : T ROps) (S : cs ROps) : c_area h (c_up_sample h S) = c_area h S.
Proof.
  unfold c_area. rewrite c_up_sample_len. cbn [c_up_sample c_side]. unfold ofNat. rsimp.
  rewrite Nat2Z.inj_mul, mult_IZR. cbn [Z.of_nat Pos.of_succ_nat Pos.succ]. field.
Qed.

(* ------------------------------------------------------------------ statements as used in Props/C20.v *)
Lemma area_conserved (ts : list rtri) : @area ROps (up_sample_triangles ts) = @area ROps ts.
Proof. rewrite !area_is_total_area. exact (up_sample_area ts). Qed.

Lemma vertices_preserved (ts : list rtri) (t : rtri) (p : rpt) :
  In t ts -> is_corner p t -> exists c, In c (up_sample_triangles ts) /\ is_corner p c.
Proof.
  intros Ht Hp. destruct (corners_kept t p Hp) as [c [Hc Hpc]].
  exists c. split; [apply up_sample_members4; exists t; auto|exact Hpc].
Qed.

Lemma shape_mask_if_reference_point_inside (s : shape ROps) (t : rtri) :
  nondegenerate t -> inside t (shape_ref s) -> shape_mask s t = true.
Proof. intros D H. apply shape_mask_if_reference_inside. apply point_mask_iff_inside; assumption. Qed.

(* ------------------------------------------------------------------ more consequences *)
Lemma tri_perm_corner (s t : rtri) (p : rpt) : tri_perm s t -> is_corner p t -> is_corner p s.
Proof.
  destruct t as [[a b] c]. unfold tri_perm, is_corner, v0, v1, v2. cbn [fst snd].
  intros [H|[H|[H|[H|[H|H]]]]]; subst s; cbn [fst snd]; intuition.
Qed.

Lemma c_vertices_preserved (h : T ROps) (S : cs ROps) (t : rtri) (p : rpt) :
  In t (c_triangles h S) -> is_corner p t ->
  exists c, In c (c_triangles h (c_up_sample h S)) /\ is_corner p c.
Proof.
  intros Ht Hp. destruct (vertices_preserved _ t p Ht Hp) as [u [Hu Hpu]].
  destruct (c_up_sample_exact h S) as [_ H2]. destruct (H2 u Hu) as [s [Hs Hperm]].
  exists s. split; auto. apply (tri_perm_corner s u p Hperm Hpu).
Qed.

(* the executable specifications used by the correspondence checker, at the reals, are the Prop-level ones *)
Lemma spec_children_is_subdivision (t : rtri) : same_triangle_set (@spec_children ROps t) (subdivision t).
Proof.
  destruct t as [[[x0 y0] [x1 y1]] [x2 y2]]. unfold same_triangle_set, spec_children, subdivision, lin2. rsimp. split.
  - intros s [H|[H|[H|[H|[]]]]]; subst s.
    + eexists. split; [left; reflexivity|]. tri_perm_solve.
    + eexists. split; [right; left; reflexivity|]. tri_perm_solve.
    + eexists. split; [right; right; left; reflexivity|]. tri_perm_solve.
    + eexists. split; [right; right; right; left; reflexivity|]. tri_perm_solve.
  - intros s [H|[H|[H|[H|[]]]]]; subst s.
    + eexists. split; [left; reflexivity|]. tri_perm_solve.
    + eexists. split; [right; left; reflexivity|]. tri_perm_solve.
    + eexists. split; [right; right; left; reflexivity|]. tri_perm_solve.
    + eexists. split; [right; right; right; left; reflexivity|]. tri_perm_solve.
Qed.

Lemma spec_neighbours_are_neighbours (t n : rtri) : In n (@spec_neighbours ROps t) <-> self_or_neighbour t n.
Proof.
  rewrite self_or_neighbour_iff.
  destruct t as [[[x0 y0] [x1 y1]] [x2 y2]]. unfold spec_neighbours, reflect_through_mid. rsimp. cbn [In].
  assert (E : forall a b c : R, 2 * (1 / 2 * (a + b)) - c = a + b - c) by (intros; field).
  rewrite !E, (Rplus_comm x2 x0), (Rplus_comm y2 y0). intuition.
Qed.

(* ------------------------------------------------------------------ the lattice children partition the finer lattice *)
Lemma flip_adjacent (fl : bool) (x y : Z) : flip_of fl (x + 1, y)%Z = negb (flip_of fl (x, y)).
Proof.
  pose proof (flip_neighbour fl (x, y) 1 0 eq_refl) as H. unfold zadd in H. cbn [fst snd] in H.
  replace (y + 0)%Z with y in H by ring. exact H.
Qed.

Local Opaque Z.mul Z.add.
Lemma lattice_children_distinct (down : bool) (c : zpt) : NoDup (lattice_children down c).
Proof.
  destruct c as [x y]. unfold lattice_children, zadd, dbl. cbn [fst snd].
  destruct down; repeat constructor; cbn [In]; intros H;
    repeat (destruct H as [H|H]; [injection H; lia|]); exact H.
Qed.

Lemma lattice_child_unique_parent (fl : bool) (c1 c2 c' : zpt) :
  In c' (lattice_children (flip_of fl c1) c1) -> In c' (lattice_children (flip_of fl c2) c2) -> c1 = c2.
Proof.
  destruct c1 as [x1 y1], c2 as [x2 y2]. unfold lattice_children, zadd, dbl. cbn [fst snd].
  destruct (flip_of fl (x1, y1)) eqn:D1; destruct (flip_of fl (x2, y2)) eqn:D2; cbn [In];
  intros [H|[H|[H|[H|[]]]]] [K|[K|[K|[K|[]]]]]; subst c'; injection K as Kx Ky;
  first
  [ exfalso; lia
  | assert (Ex : x2 = x1) by lia; assert (Ey : y2 = y1) by lia; subst x2 y2; first [reflexivity|congruence]
  | assert (Ex : x2 = (x1 + 1)%Z) by lia; assert (Ey : y2 = y1) by lia; subst x2 y2;
    rewrite flip_adjacent, D1 in D2; discriminate
  | assert (Ex : x1 = (x2 + 1)%Z) by lia; assert (Ey : y2 = y1) by lia; subst x1 y2;
    rewrite flip_adjacent, D2 in D1; discriminate ].
Qed.
Local Transparent Z.mul Z.add.

(* ------------------------------------------------------------------ index ranges (the guard under which numpy does not raise) *)
Lemma idx_in_range_iff {P} (A : list idx3 * list P) :
  idx_in_range A = true <->
  forall r, In r (fst A) -> (i0 r < length (snd A) /\ i1 r < length (snd A) /\ i2 r < length (snd A))%nat.
Proof.
  unfold idx_in_range. rewrite forallb_forall. split; intros H r Hr; specialize (H r Hr).
  - rewrite !andb_true_iff, !Nat.ltb_lt in H. tauto.
  - rewrite !andb_true_iff, !Nat.ltb_lt. tauto.
Qed.

Lemma reindex_in_range (ts : list rtri) : idx_in_range (reindex ts) = true.
Proof. apply idx_in_range_iff. apply reindex_idx_ok. Qed.

Lemma sort3_range (r : idx3) n : (i0 r < n /\ i1 r < n /\ i2 r < n)%nat ->
  (i0 (sort3 r) < n /\ i1 (sort3 r) < n /\ i2 (sort3 r) < n)%nat.
Proof. destruct r as [[a b] c]. unfold sort3, i0, i1, i2. cbn [fst snd]. lia. Qed.

Lemma a_outputs_in_range (A : @atri ROps) :
  idx_in_range (a_up_sample A) = true /\ idx_in_range (a_neighborhood A) = true
  /\ forall sel, idx_in_range (a_for_indexes A sel) = true.
Proof.
  split; [apply reindex_in_range|]. split; [|intros sel; apply reindex_in_range].
  unfold a_neighborhood. apply idx_in_range_iff. cbn [fst snd]. intros r Hr.
  apply (proj1 (in_unique idx3_ltb idx3_eqb idx3_eqb_eq _ _)) in Hr. apply in_map_iff in Hr.
  destruct Hr as [r0 [E Hr0]]. subst r. apply sort3_range. apply reindex_idx_ok. exact Hr0.
Qed.

Lemma c_repr_in_range (h : T ROps) (S : cs ROps) : idx_in_range (c_repr h S) = true.
Proof. apply reindex_in_range. Qed.

Lemma nth_In_default {A} (l : list A) i d : (i < length l)%nat -> In (nth i l d) l.
Proof. apply nth_In. Qed.

(* with indices in range every corner of every triangle is one of the vertices: the default is never used *)
Lemma a_triangles_corners {O : NumOps} (A : @atri O) t :
  idx_in_range A = true -> In t (a_triangles A) ->
  In (v0 t) (snd A) /\ In (v1 t) (snd A) /\ In (v2 t) (snd A).
Proof.
  intros H Ht. unfold a_triangles in Ht. apply in_map_iff in Ht. destruct Ht as [r [E Hr]]. subst t.
  destruct (proj1 (idx_in_range_iff A) H r Hr) as (H0 & H1 & H2).
  unfold row_tri, getv, v0, v1, v2. cbn [fst snd]. repeat split; apply nth_In; assumption.
Qed.

Lemma a_triangles_checked_ok {O : NumOps} (A : @atri O) :
  idx_in_range A = true -> a_triangles_checked A = Ok (a_triangles A).
Proof. intros H. unfold a_triangles_checked. rewrite H. reflexivity. Qed.
Lemma a_triangles_checked_raise {O : NumOps} (A : @atri O) :
  idx_in_range A = false -> a_triangles_checked A = Raise IndexError.
Proof. intros H. unfold a_triangles_checked. rewrite H. reflexivity. Qed.

(* guarded forms of the ArrayTriangles statements *)
Lemma a_up_sample_triangles_g (A : @atri ROps) :
  idx_in_range A = true -> a_triangles (a_up_sample A) = up_sample_triangles (a_triangles A).
Proof. intros _. apply a_up_sample_triangles. Qed.
Lemma a_neighborhood_exact_g (A : @atri ROps) :
  idx_in_range A = true ->
  same_triangle_set (a_triangles (a_neighborhood A)) (neighborhood_triangles (a_triangles A)).
Proof. intros _. apply a_neighborhood_exact. Qed.
Lemma a_for_indexes_triangles_g (A : @atri ROps) (sel : list nat) :
  idx_in_range A = true -> Forall (fun i => (i < length (fst A))%nat) sel ->
  map Some (a_triangles (a_for_indexes A sel)) = map (nth_error (a_triangles A)) sel.
Proof. intros _. apply a_for_indexes_triangles. Qed.
Lemma a_containing_spec_g (A : @atri ROps) (s : shape ROps) i :
  idx_in_range A = true ->
  (In i (a_containing A s) <-> exists t, nth_error (a_triangles A) i = Some t /\ shape_mask s t = true).
Proof. intros _. apply a_containing_spec. Qed.

(* ------------------------------------------------------------------ np.unique returns strictly increasing rows *)
Section UniqueSorted.
  Context {A : Type} (ltb eqb : A -> A -> bool).
  Hypothesis eqb_eq : forall x y, eqb x y = true <-> x = y.
  Hypothesis ltb_irrefl : forall x, ltb x x = false.
  Hypothesis ltb_trans : forall x y z, ltb x y = true -> ltb y z = true -> ltb x z = true.
  Hypothesis ltb_total : forall x y, ltb x y = false -> eqb x y = false -> ltb y x = true.
  Let lt (x y : A) : Prop := ltb x y = true.

  Lemma ins_sorted p l : StronglySorted lt l -> StronglySorted lt (ins ltb eqb p l).
  Proof.
    induction 1 as [|q l Hs IH Hq]; cbn [ins]; [repeat constructor|].
    destruct (ltb p q) eqn:L.
    - constructor; [constructor; assumption|]. constructor; [exact L|].
      rewrite Forall_forall in *. intros x Hx. apply (ltb_trans p q x L). apply Hq. exact Hx.
    - destruct (eqb p q) eqn:E; [constructor; assumption|].
      constructor; [exact IH|]. rewrite Forall_forall in *. intros x Hx.
      apply (in_ins ltb eqb eqb_eq) in Hx. destruct Hx as [->|Hx]; [apply ltb_total; assumption|apply Hq; exact Hx].
  Qed.
  Lemma unique_sorted l : StronglySorted lt (unique ltb eqb l).
  Proof. unfold unique. induction l as [|x l IH]; cbn [fold_right]; [constructor|apply ins_sorted; exact IH]. Qed.
  Lemma sorted_nodup l : StronglySorted lt l -> NoDup l.
  Proof.
    induction 1 as [|q l Hs IH Hq]; constructor; [|exact IH].
    intros Hin. rewrite Forall_forall in Hq. specialize (Hq q Hin). unfold lt in Hq. rewrite ltb_irrefl in Hq. discriminate.
  Qed.
  Lemma unique_nodup l : NoDup (unique ltb eqb l).
  Proof. apply sorted_nodup. apply unique_sorted. Qed.
End UniqueSorted.

Lemma idx3_order :
  (forall x, idx3_ltb x x = false) /\
  (forall x y z, idx3_ltb x y = true -> idx3_ltb y z = true -> idx3_ltb x z = true) /\
  (forall x y, idx3_ltb x y = false -> idx3_eqb x y = false -> idx3_ltb y x = true).
Proof.
  unfold idx3_ltb, idx3_eqb, i0, i1, i2. repeat split.
  - intros [[a b] c]. cbn [fst snd]. rewrite !Nat.ltb_irrefl, !Nat.eqb_refl. reflexivity.
  - intros [[a b] c] [[d e] f] [[g h] i]. cbn [fst snd].
    rewrite !orb_true_iff, !andb_true_iff, !orb_true_iff, !andb_true_iff, !Nat.ltb_lt, !Nat.eqb_eq. lia.
  - intros [[a b] c] [[d e] f]. cbn [fst snd].
    rewrite !orb_false_iff, !andb_false_iff, !orb_false_iff, !andb_false_iff,
            !orb_true_iff, !andb_true_iff, !orb_true_iff, !andb_true_iff, !Nat.ltb_lt, !Nat.ltb_ge, !Nat.eqb_eq, !Nat.eqb_neq. lia.
Qed.

Lemma zpt_order :
  (forall x, zpt_ltb x x = false) /\
  (forall x y z, zpt_ltb x y = true -> zpt_ltb y z = true -> zpt_ltb x z = true) /\
  (forall x y, zpt_ltb x y = false -> zpt_eqb x y = false -> zpt_ltb y x = true).
Proof.
  unfold zpt_ltb, zpt_eqb. repeat split.
  - intros [a b]. cbn [fst snd]. rewrite !Z.ltb_irrefl, !Z.eqb_refl. reflexivity.
  - intros [a b] [d e] [g h]. cbn [fst snd].
    rewrite !orb_true_iff, !andb_true_iff, !Z.ltb_lt, !Z.eqb_eq. lia.
  - intros [a b] [d e]. cbn [fst snd].
    rewrite !orb_false_iff, !andb_false_iff, !orb_true_iff, !andb_true_iff, !Z.ltb_lt, !Z.ltb_ge, !Z.eqb_eq, !Z.eqb_neq. lia.
Qed.

Lemma pt_order :
  (forall x : rpt, @pt_ltb ROps x x = false) /\
  (forall x y z : rpt, @pt_ltb ROps x y = true -> @pt_ltb ROps y z = true -> @pt_ltb ROps x z = true) /\
  (forall x y : rpt, @pt_ltb ROps x y = false -> @pt_eqb ROps x y = false -> @pt_ltb ROps y x = true).
Proof.
  unfold pt_ltb, pt_eqb. cbn [ltb eqb ROps]. repeat split.
  - intros [a b]. cbn [fst snd].
    rewrite orb_false_iff, andb_false_iff, !Rltb_false. split; [lra|right; lra].
  - intros [a b] [d e] [g h]. cbn [fst snd].
    rewrite !orb_true_iff, !andb_true_iff, !Rltb_true, !Reqb_true. lra.
  - intros [a b] [d e]. cbn [fst snd].
    rewrite !orb_false_iff, !andb_false_iff, !orb_true_iff, !andb_true_iff, !Rltb_true, !Rltb_false, !Reqb_true, !Reqb_false. lra.
Qed.

(* de-duplicated outputs contain no repeated rows *)
Lemma a_neighborhood_rows_distinct (A : @atri ROps) :
  NoDup (fst (a_neighborhood A)) /\ NoDup (snd (a_neighborhood A)).
Proof.
  destruct idx3_order as (I1 & I2 & I3). destruct pt_order as (P1 & P2 & P3).
  unfold a_neighborhood, reindex. cbn [fst snd]. split.
  - apply (unique_nodup idx3_ltb idx3_eqb idx3_eqb_eq I1 I2 I3).
  - apply (unique_nodup _ _ pt_eqb_eq P1 P2 P3).
Qed.
Lemma reindex_vertices_distinct (ts : list rtri) : NoDup (snd (reindex ts)).
Proof. destruct pt_order as (P1 & P2 & P3). apply (unique_nodup _ _ pt_eqb_eq P1 P2 P3). Qed.
Lemma c_neighborhood_coords_distinct {O : NumOps} (S : cs O) : NoDup (c_coords (c_neighborhood S)).
Proof. destruct zpt_order as (Z1 & Z2 & Z3). apply (unique_nodup zpt_ltb zpt_eqb zpt_eqb_eq Z1 Z2 Z3). Qed.

(* ------------------------------------------------------------------ up-sampling distinct cells gives distinct cells *)
Lemma NoDup_app_intro {A} (l1 l2 : list A) :
  NoDup l1 -> NoDup l2 -> (forall x, In x l1 -> In x l2 -> False) -> NoDup (l1 ++ l2).
Proof.
  induction 1 as [|a l1 Ha Hl IH]; intros H2 Hd; cbn [app]; [exact H2|].
  constructor.
  - rewrite in_app_iff. intros [H|H]; [contradiction|]. apply (Hd a); cbn; auto.
  - apply IH; auto. intros x Hx. apply Hd. cbn. auto.
Qed.

Lemma NoDup_map_filter {A B} (f : A -> B) (p : A -> bool) l :
  (forall x y, f x = f y -> x = y) -> NoDup l -> NoDup (map f (filter p l)).
Proof.
  intros Hinj Hl. apply FinFun.Injective_map_NoDup; [exact Hinj|]. apply NoDup_filter. exact Hl.
Qed.

Local Opaque Z.mul Z.add.
Lemma child_offset_injective (d : zpt) (c1 c2 : zpt) : zadd (dbl c1) d = zadd (dbl c2) d -> c1 = c2.
Proof.
  destruct c1 as [x1 y1], c2 as [x2 y2], d as [dx dy]. unfold zadd, dbl. cbn [fst snd].
  intros E. injection E as Ex Ey. f_equal; lia.
Qed.
Lemma dbl_injective (c1 c2 : zpt) : dbl c1 = dbl c2 -> c1 = c2.
Proof.
  destruct c1 as [x1 y1], c2 as [x2 y2]. unfold dbl. cbn [fst snd]. intros E. injection E as Ex Ey. f_equal; lia.
Qed.

Ltac block_clash :=
  match goal with
  | H1 : exists c, In c _ /\ _ = true /\ ?x = _, H2 : exists c, In c _ /\ _ = true /\ ?x = _ |- False =>
      let c1 := fresh "c" in let c2 := fresh "c" in
      let x1 := fresh "x" in let y1 := fresh "y" in let x2 := fresh "x" in let y2 := fresh "y" in
      destruct H1 as [c1 [_ [P1 E1]]]; destruct H2 as [c2 [_ [P2 E2]]];
      rewrite E1 in E2; clear E1; destruct c1 as [x1 y1], c2 as [x2 y2];
      unfold zadd, dbl in E2; cbn [fst snd] in E2; injection E2 as Ex Ey;
      try rewrite negb_true_iff in P1; try rewrite negb_true_iff in P2;
      first
      [ exfalso; lia
      | assert (Fx : x2 = x1) by lia; assert (Fy : y2 = y1) by lia; subst x2 y2; congruence
      | assert (Fx : x2 = (x1 + 1)%Z) by lia; assert (Fy : y2 = y1) by lia; subst x2 y2;
        rewrite flip_adjacent, P1 in P2; discriminate
      | assert (Fx : x1 = (x2 + 1)%Z) by lia; assert (Fy : y2 = y1) by lia; subst x1 y2;
        rewrite flip_adjacent, P2 in P1; discriminate ]
  end.

Lemma c_up_sample_coords_distinct {O : NumOps} (h : T O) (S : cs O) :
  NoDup (c_coords S) -> NoDup (c_coords (c_up_sample h S)).
Proof.
  intros HN. cbn [c_up_sample c_coords].
  repeat (apply NoDup_app_intro);
    try (apply NoDup_map_filter; [first [exact dbl_injective | intros c1 c2; apply child_offset_injective]|exact HN]).
  all: intros x; rewrite ?in_app_iff, ?in_map_filter; intros H1 H2.
  all: repeat match goal with H : _ \/ _ |- _ => destruct H as [H|H] end.
  all: block_clash.
Qed.
Local Transparent Z.mul Z.add.
