(* C06, mesh-API layer -- mappers built by aa.mesh.Rectangular(shape) / aa.mesh.Delaunay() .mapper_grids_from with a
   BorderRelocator and / or a preloaded relocated grid (Model/C06h.v: held_data, held_mesh, rect_mesh_api, del_mesh_api).
   The relocation is C18's model (Model/C18.v); what is proved here is the part C06 needs: whatever the relocation does to
   the coordinates, the grids the MapperGrids object holds have the lengths of the grids handed in (one entry per
   sub-pixel / per vertex), the rectangular mesh is the overlay of the HELD grid, and therefore every theorem about a
   mapper (row sums, non-negativity, entry = claimed interpolation, cell containment) holds for the mapper of the mesh
   API, stated on the held grids. *)
From Coq Require Import ZArith List Bool Arith Lia Reals Lra.
From PAV Require Import Base.Res Base.Check Base.NumOps Base.Sum Model.C06 Proofs.C06 Model.C06h.
From PAV Require Model.C18.
Import ListNotations.
Local Open Scope R_scope.

Section Lengths.
  Context {O : NumOps}.
  Notation pt := (T O * T O)%type.

  Lemma relocated_with_length (sbs : list nat) (grid target out : list pt) :
    @C18.relocated_with O sbs grid target = Ok out -> length out = length target.
  Proof.
    unfold C18.relocated_with. destruct sbs as [|s0 st]; cbv beta iota.
    - intros H. injection H as <-. reflexivity.
    - match goal with |- context [match ?x with Ok _ => _ | Raise _ => _ end] => destruct x as [border|e] end; [|discriminate].
      unfold C18.relocated_grid_via_jit_from. destruct border as [|b0 bt]; cbv beta iota; [discriminate|].
      intros H. injection H as <-. apply map_length.
  Qed.

  Lemma relocated_grid_from_length (m : mask) (ss : list nat) (grid out : list pt) :
    @C18.relocated_grid_from O m ss grid = Ok out -> length out = length grid.
  Proof.
    unfold C18.relocated_grid_from. match goal with |- context [match ?x with Ok _ => _ | Raise _ => _ end] => destruct x as [sbs|e] end; [|discriminate].
    apply relocated_with_length.
  Qed.

  Lemma relocated_mesh_grid_from_length (m : mask) (ss : list nat) (grid mesh out : list pt) :
    @C18.relocated_mesh_grid_from O m ss grid mesh = Ok out -> length out = length mesh.
  Proof.
    unfold C18.relocated_mesh_grid_from. match goal with |- context [match ?x with Ok _ => _ | Raise _ => _ end] => destruct x as [sbs|e] end; [|discriminate].
    apply relocated_with_length.
  Qed.

  (* the grid a preloaded call is judged on is the preloaded one *)
  Definition source_of (preload : option (list pt)) (data : list pt) : list pt :=
    match preload with Some p => p | None => data end.

  Lemma held_data_length rel preload (data g' : list pt) :
    @held_data O rel preload data = Ok g' -> length g' = length (source_of preload data).
  Proof.
    unfold held_data, source_of. destruct preload as [p|].
    - intros H. injection H as <-. reflexivity.
    - destruct rel as [[m ss]|].
      + apply relocated_grid_from_length.
      + intros H. injection H as <-. reflexivity.
  Qed.

  (* a preloaded grid is passed on as it is, whatever the relocator *)
  Lemma held_data_preloaded rel (p data : list pt) : @held_data O rel (Some p) data = Ok p.
  Proof. reflexivity. Qed.
  (* without relocator and preload the caller's grid is passed on as it is *)
  Lemma held_data_plain (data : list pt) : @held_data O None None data = Ok data.
  Proof. reflexivity. Qed.

  Lemma held_mesh_length rel (g' mesh v' : list pt) :
    @held_mesh O rel g' mesh = Ok v' -> length v' = length mesh.
  Proof.
    unfold held_mesh. destruct rel as [[m ss]|].
    - apply relocated_mesh_grid_from_length.
    - intros H. injection H as <-. reflexivity.
  Qed.

  Lemma del_mesh_api_lengths rel preload (data mesh g' v' : list pt) :
    @del_mesh_api O rel preload data mesh = Ok (g', v') ->
    @held_data O rel preload data = Ok g' /\ @held_mesh O rel g' mesh = Ok v' /\
    length g' = length (source_of preload data) /\ length v' = length mesh.
  Proof.
    unfold del_mesh_api, res_bind, res_map. destruct (held_data rel preload data) as [g|e] eqn:Eg; [|discriminate].
    destruct (held_mesh rel g mesh) as [v|e] eqn:Ev; [|discriminate].
    intros H. injection H as <- <-. split; [reflexivity|]. split; [exact Ev|]. split.
    - apply (held_data_length rel preload data g Eg).
    - apply (held_mesh_length rel g mesh v Ev).
  Qed.

  Lemma rect_mesh_api_inv rel preload shape (data : list pt) buffer g' mesh psw :
    @rect_mesh_api O rel preload shape data buffer = Ok (g', mesh, psw) ->
    @held_data O rel preload data = Ok g' /\ mesh = overlay shape g' buffer /\ psw = rect_psw mesh g' /\
    length g' = length (source_of preload data).
  Proof.
    unfold rect_mesh_api, res_map. destruct (held_data rel preload data) as [g|e] eqn:Eg; [|discriminate].
    intros H. injection H as <- <- <-. split; [reflexivity|]. split; [reflexivity|]. split; [reflexivity|].
    apply (held_data_length rel preload data g Eg).
  Qed.
End Lengths.

(* ---------------------------------------------------------------- the rectangular mapper of the mesh API *)
(* for every relocator (or none), every preloaded grid (or none), every mask / sub-size map >= 1 / mesh shape / buffer > 0:
   if the call returns, the MapperGrids holds a grid g' with one entry per sub-pixel, the mesh is the overlay of g' (NOT
   of the caller's grid), pix_sub_weights is computed from g' on that mesh, and the mapping matrix is row-stochastic,
   non-negative and equals the claimed interpolation: entry (i, p) = sum over the sub-pixels s of pixel i of (1/sub_i^2)
   times the indicator that cell p of the mesh of g's extent contains the HELD point g'[s]; and every held point lies
   in exactly one cell of that mesh, the one whose index is listed *)
Theorem rect_mesh_api_mapper : forall rel preload m subs (data : list (R * R)) n0 n1 b g' mesh psw,
  length subs = count_unmasked m -> (forall i, (i < length subs)%nat -> (1 <= nth i subs 0)%nat) ->
  length (@source_of ROps preload data) = total_sub subs -> (0 < n0)%Z -> (0 < n1)%Z -> 0 < b ->
  @rect_mesh_api ROps rel preload (n0, n1) data b = Ok (g', mesh, psw) ->
  let P := Z.to_nat (n0 * n1) in
  @held_data ROps rel preload data = Ok g' /\ length g' = total_sub subs
  /\ mesh = @overlay ROps (n0, n1) g' b /\ psw = @rect_psw ROps mesh g'
  /\ (exists M, @mapping_matrix ROps (fst (fst psw)) (snd (fst psw)) (snd psw) P (count_unmasked m) (slim_for_sub m subs)
                  (@sub_fractions ROps subs) = Ok M
      /\ mat_shape (count_unmasked m) P M
      /\ (forall i, (i < count_unmasked m)%nat -> sumR (map (fun p => @mget ROps M i p) (seq 0 P)) = 1)
      /\ (forall i p, (i < count_unmasked m)%nat -> (p < P)%nat -> 0 <= @mget ROps M i p)
      /\ (forall i p, (i < count_unmasked m)%nat -> (p < P)%nat ->
            @mget ROps M i p = sumR (map (fun s => 1 / INR (sq_n (nth i subs 0%nat))
                                                   * @rect_weight ROps (@geom_of_extent ROps (n0, n1) g' b) (nth s g' (0, 0)) p)
                                         (block subs i))))
  /\ (forall q, In q g' ->
        let rc := @pixel_rc ROps mesh q in
        (0 <= fst rc < n0)%Z /\ (0 <= snd rc < n1)%Z /\ @pixel_index ROps mesh q = (fst rc * n1 + snd rc)%Z /\
        forall r c, @cell_contains ROps (@geom_of_extent ROps (n0, n1) g' b) r c q = true <-> (r, c) = rc).
Proof.
  intros rel preload m subs data n0 n1 b g' mesh psw Hsubs Hge Hlen Hn0 Hn1 Hb Hcall P.
  destruct (rect_mesh_api_inv rel preload (n0, n1) data b g' mesh psw Hcall) as [Hheld [Hmesh [Hpsw Hl]]].
  assert (Hg : length g' = total_sub subs) by (rewrite Hl; exact Hlen).
  split; [exact Hheld|]. split; [exact Hg|]. split; [exact Hmesh|]. split; [exact Hpsw|]. split.
  - subst psw mesh. exact (rect_mapper_matrix m subs g' n0 n1 b Hsubs Hge Hg Hn0 Hn1 Hb).
  - intros q Hq. subst mesh. exact (overlay_pixel_index n0 n1 g' b Hn0 Hn1 Hb q Hq).
Qed.

(* ---------------------------------------------------------------- the Delaunay mapper of the mesh API *)
(* the MapperGrids holds (g', v') with one entry per sub-pixel / per vertex handed in; relative to the oracle's contract
   on the HELD grids (the triangulation is built on v', find_simplex is asked about g') the mapping matrix is
   row-stochastic, non-negative and equals the claimed interpolation on (g', v') *)
Theorem del_mesh_api_mapper : forall rel preload m subs (data mesh : list (R * R)) g' v' simplices simplex_for,
  length subs = count_unmasked m -> (forall i, (i < length subs)%nat -> (1 <= nth i subs 0)%nat) ->
  length (@source_of ROps preload data) = total_sub subs -> mesh <> [] ->
  @del_mesh_api ROps rel preload data mesh = Ok (g', v') ->
  length simplex_for = length g' ->
  (forall row, In row simplices ->
    exists a b c, row = [a; b; c] /\ (0 <= a < Z.of_nat (length v'))%Z /\ (0 <= b < Z.of_nat (length v'))%Z
                  /\ (0 <= c < Z.of_nat (length v'))%Z
                  /\ @cross ROps (vtxR v' row 0) (vtxR v' row 1) (vtxR v' row 2) <> 0) ->
  (forall t, In t simplex_for -> t = (-1)%Z \/ (0 <= t < Z.of_nat (length simplices))%Z) ->
  let mp := fst (@del_mappings ROps g' simplex_for simplices v') in
  let sz := snd (@del_mappings ROps g' simplex_for simplices v') in
  let P := length v' in
  length g' = total_sub subs /\ length v' = length mesh
  /\ exists M, @mapping_matrix ROps mp sz (@del_weights ROps g' v' mp) P (count_unmasked m) (slim_for_sub m subs)
                 (@sub_fractions ROps subs) = Ok M
      /\ mat_shape (count_unmasked m) P M
      /\ (forall i, (i < count_unmasked m)%nat -> sumR (map (fun p => @mget ROps M i p) (seq 0 P)) = 1)
      /\ (forall i p, (i < count_unmasked m)%nat -> (p < P)%nat -> 0 <= @mget ROps M i p)
      /\ (forall i p, (i < count_unmasked m)%nat -> (p < P)%nat ->
            @mget ROps M i p = sumR (map (fun s => 1 / INR (sq_n (nth i subs 0%nat)) * del_w g' v' simplices simplex_for s p)
                                         (block subs i))).
Proof.
  intros rel preload m subs data mesh g' v' simplices simplex_for Hsubs Hge Hlen Hmesh Hcall Hsf Hsimp Hidx mp sz P.
  destruct (del_mesh_api_lengths rel preload data mesh g' v' Hcall) as [_ [_ [Lg Lv]]].
  assert (Hg : length g' = total_sub subs) by (rewrite Lg; exact Hlen).
  assert (Hv : v' <> []).
  { intros E. rewrite E in Lv. cbn in Lv. destruct mesh; [congruence|discriminate]. }
  split; [exact Hg|]. split; [exact Lv|].
  exact (del_mapper_matrix m subs g' v' simplices simplex_for Hsubs Hge Hg Hsf Hv Hsimp Hidx).
Qed.
