(* C13 -- direct Fourier transform (TransformerDFT), preloaded variant, adjoint, interferometer normal equations.
   Executable model of
     autoarray/operators/transformer_util.py   preload_real_transforms, preload_imag_transforms,
        visibilities_via_preload_jit_from, visibilities_jit, image_via_jit_from,
        transformed_mapping_matrix_via_preload_jit_from, transformed_mapping_matrix_jit (with their sparsity test)
     autoarray/operators/transformer.py        TransformerDFT.__init__ (grid in radians of the unmasked pixel centres,
        preloaded tables), visibilities_from, image_from, transform_mapping_matrix
     autoarray/inversion/inversion/interferometer/inversion_interferometer_util.py
        data_vector_via_transformed_mapping_matrix_from, mapped_reconstructed_visibilities_from
     autoarray/inversion/inversion/inversion_util.py  curvature_matrix_via_mapping_matrix_from (np.dot is the oracle
        [gram]), curvature_matrix_with_added_to_diag_from
     autoarray/inversion/inversion/interferometer/mapping.py  data_vector, curvature_matrix
     autoarray/inversion/inversion/abstract.py  param ranges / no_regularization_index_list, hstack of the operated matrices
   Complex numbers are pairs (re, im); an (n x m) array is a list of n rows, its dimensions that cannot be read off a
   list of rows (m when n = 0) are explicit arguments.  grid rows are (y, x); uv rows are (u, v).
   Trigonometry: NumOps has cos2pi / sin2pi with the argument in TURNS, so np.cos(-2.0*np.pi*s) is [cos2pi (opp s)].
   No proofs here. *)
From Coq Require Import ZArith List Bool QArith Qabs.
From PAV Require Import Base.Res Base.Check Base.NumOps Base.Sum Model.C13Lib.
Import ListNotations.

Definition mask := list (list bool).
Definition enum {A} (l : list A) : list (nat * A) := combine (seq 0 (length l)) l.
Definition rectn {A} (n : nat) (M : list (list A)) : bool := forallb (fun r => Nat.eqb (length r) n) M.

Section Model.
  Context {O : NumOps}.
  Notation T := (T O).
  Definition cx := (T * T)%type.
  Definition czero : cx := (zero, zero).

  (* grid_radians[i,1] * uv[k,0] + grid_radians[i,0] * uv[k,1] *)
  Definition phase (g uvk : T * T) : T := add O (mul O (snd g) (fst uvk)) (mul O (fst g) (snd uvk)).
  Definition cosm (s : T) : T := cos2pi O (opp O s).     (* np.cos(-2.0 * np.pi * s) *)
  Definition sinm (s : T) : T := sin2pi O (opp O s).     (* np.sin(-2.0 * np.pi * s) *)

  (* ---------------- preload_real_transforms / preload_imag_transforms: zeros, then [i,k] += f(...) -------- *)
  Definition preload_table (f : T -> T) (grid uv : list (T * T)) : list (list T) :=
    map (fun g => map (fun uvk => add O zero (f (phase g uvk))) uv) grid.
  Definition preload_real := preload_table cosm.
  Definition preload_imag := preload_table sinm.

  (* ---------------- visibilities_via_preload_jit_from: K = preloaded_reals.shape[1] ---------------- *)
  (* the (index, value) updates [visibilities[k] += image[i] * table[i,k]] in loop order (i outer, k inner) *)
  Definition entries_tab (img : list T) (tab : list (list T)) : list (nat * T) :=
    flat_map (fun ir => map (fun kt => (fst kt, mul O (fst ir) (snd kt))) (enum (snd ir))) (combine img tab).
  Definition visibilities_via_preload (K : nat) (img : list T) (preR preI : list (list T)) : list cx :=
    combine (scatter (entries_tab img preR) (zeros K)) (scatter (entries_tab img preI) (zeros K)).

  (* ---------------- visibilities_jit ---------------- *)
  Definition entries_dir (f : T -> T) (img : list T) (grid uv : list (T * T)) : list (nat * T) :=
    flat_map (fun ig => map (fun ku => (fst ku, mul O (fst ig) (f (phase (snd ig) (snd ku))))) (enum uv)) (combine img grid).
  Definition visibilities_jit (img : list T) (grid uv : list (T * T)) : list cx :=
    combine (scatter (entries_dir cosm img grid uv) (zeros (length uv)))
            (scatter (entries_dir sinm img grid uv) (zeros (length uv))).

  (* ---------------- image_via_jit_from(n_pixels, grid, uv, visibilities[K,2]) ---------------- *)
  Definition image_pixel (uv : list (T * T)) (vis : list cx) (g : T * T) : T :=
    fold_left (fun acc kv =>
        sub O (add O acc (mul O (fst (snd kv)) (cos2pi O (phase g (fst kv)))))
              (mul O (snd (snd kv)) (sin2pi O (phase g (fst kv))))) (combine uv vis) zero.
  Definition image_via (n : nat) (grid uv : list (T * T)) (vis : list cx) : res (list T) :=
    if Nat.ltb (length grid) n then
      match uv with [] => Ok (zeros n) | _ => Raise IndexError end      (* grid_radians[image_1d_index] out of range *)
    else Ok (map (image_pixel uv vis) (firstn n grid)).

  (* ---------------- transformed_mapping_matrix(_via_preload)_jit_from: sparsity test [value != 0] -------- *)
  Definition column (M : list (list T)) (j : nat) : list T := map (fun row => nth j row zero) M.
  Definition entries_tab_nz (col : list T) (tab : list (list T)) : list (nat * T) :=
    flat_map (fun vt => if eqb O (fst vt) zero then []
                        else map (fun kt => (fst kt, mul O (fst vt) (snd kt))) (enum (snd vt))) (combine col tab).
  Definition entries_dir_nz (f : T -> T) (col : list T) (grid uv : list (T * T)) : list (nat * T) :=
    flat_map (fun vg => if eqb O (fst vg) zero then []
                        else map (fun ku => (fst ku, mul O (fst vg) (f (phase (snd vg) (snd ku))))) (enum uv)) (combine col grid).
  (* out[k][j] from the per-column accumulators *)
  Definition from_columns {A} (d : A) (K : nat) (cols : list (list A)) : list (list A) :=
    map (fun k => map (fun col => nth k col d) cols) (seq 0 K).
  Definition tmm_via_preload (K P : nat) (M preR preI : list (list T)) : list (list cx) :=
    from_columns czero K
      (map (fun j => combine (scatter (entries_tab_nz (column M j) preR) (zeros K))
                             (scatter (entries_tab_nz (column M j) preI) (zeros K))) (seq 0 P)).
  Definition tmm_jit (P : nat) (M : list (list T)) (grid uv : list (T * T)) : list (list cx) :=
    from_columns czero (length uv)
      (map (fun j => combine (scatter (entries_dir_nz cosm (column M j) grid uv) (zeros (length uv)))
                             (scatter (entries_dir_nz sinm (column M j) grid uv) (zeros (length uv)))) (seq 0 P)).

  (* ---------------- data_vector_via_transformed_mapping_matrix_from ---------------- *)
  Definition sqT (x : T) : T := mul O x x.                          (* x ** 2.0 *)
  Definition data_vector (P : nat) (TM : list (list cx)) (vis noise : list cx) : list T :=
    scatter (flat_map (fun rvn =>
        let '(row, (v, n)) := rvn in
        map (fun jt => (fst jt, add O (div O (mul O (fst v) (fst (snd jt))) (sqT (fst n)))
                                      (div O (mul O (snd v) (snd (snd jt))) (sqT (snd n))))) (enum row))
      (combine TM (combine vis noise))) (zeros P).

  (* ---------------- curvature_matrix_via_mapping_matrix_from: array = M / noise[:,None]; np.dot(array.T, array) ---- *)
  Definition dotv (a b : list T) : T := sumT (map (fun p => mul O (fst p) (snd p)) (combine a b)).
  Definition gram (P : nat) (A : list (list T)) : list (list T) :=
    map (fun i => map (fun j => dotv (column A i) (column A j)) (seq 0 P)) (seq 0 P).
  Definition curvature_via_mapping (P : nat) (M : list (list T)) (noise : list T) : list (list T) :=
    gram P (map (fun rn => map (fun x => div O x (snd rn)) (fst rn)) (combine M noise)).
  Definition madd (A B : list (list T)) : list (list T) :=
    map (fun ab => map (fun xy => add O (fst xy) (snd xy)) (combine (fst ab) (snd ab))) (combine A B).
  (* curvature_matrix_with_added_to_diag_from: for i in list: F[i,i] += value *)
  Definition add_to_diag (F : list (list T)) (idx : list nat) (value : T) : list (list T) :=
    fold_left (fun F i => upd_set F i (upd_add (nth i F []) i value)) idx F.
  (* InversionInterferometerMapping.curvature_matrix *)
  Definition curvature_matrix (P : nat) (TM : list (list cx)) (noise : list cx) (noreg : list nat) (value : T) : list (list T) :=
    let F := madd (curvature_via_mapping P (map (map fst) TM) (map fst noise))
                  (curvature_via_mapping P (map (map snd) TM) (map snd noise)) in
    match noreg with [] => F | _ => add_to_diag F noreg value end.

  (* shape / domain predicates used as theorem hypotheses (the generators satisfy them) *)
  Definition noise_pos (noise : list cx) : bool := forallb (fun n => ltb O zero (fst n) && ltb O zero (snd n)) noise.
  Definition scales_ok (sy sx : T) : bool := negb (eqb O sy zero) && negb (eqb O sx zero).

  (* ---------------- mapped_reconstructed_visibilities_from ---------------- *)
  Definition recon_visibilities (TM : list (list cx)) (s : list T) : list cx :=
    map (fun row => fold_left (fun acc st =>
            (add O (fst acc) (mul O (fst st) (fst (snd st))), add O (snd acc) (mul O (fst st) (snd (snd st)))))
          (combine s row) czero) TM.

  (* ---------------- AbstractInversion: param ranges, no_regularization_index_list, np.hstack ---------------- *)
  (* objs: (params, has_regularization) per linear object *)
  Fixpoint noreg_from (count : nat) (objs : list (nat * bool)) : list nat :=
    match objs with
    | [] => []
    | (p, r) :: t => (if r then [] else seq count p) ++ noreg_from (count + p) t
    end.
  Definition noreg_index_list := noreg_from 0.
  Fixpoint hstack {A} (K : nat) (Ms : list (list (list A))) : list (list A) :=
    match Ms with
    | [] => repeat [] K
    | M :: t => map (fun ab => fst ab ++ snd ab) (combine M (hstack K t))
    end.

  (* ---------------- TransformerDFT ---------------- *)
  (* Mask2D geometry: shape from the mask, pixel scales (sy, sx), origin (oy, ox) *)
  Record geom := { g_mask : mask; g_sy : T; g_sx : T; g_oy : T; g_ox : T }.
  Definition Hn (m : mask) : nat := length m.
  Definition Wn (m : mask) : nat := length (hd [] m).
  (* grid_2d_slim_via_mask_from: row-major scan; centres = ((H-1)/2 + oy/sy, (W-1)/2 - ox/sx) *)
  Definition grid_slim (G : geom) : list (T * T) :=
    let m := g_mask G in
    let cy := add O (div O (ofZ O (Z.of_nat (Hn m) - 1)) two) (div O (g_oy G) (g_sy G)) in
    let cx_ := sub O (div O (ofZ O (Z.of_nat (Wn m) - 1)) two) (div O (g_ox G) (g_sx G)) in
    flat_map (fun yr => flat_map (fun xb =>
        if (snd xb : bool) then []
        else [(mul O (opp O (sub O (ofNat (fst yr)) cy)) (g_sy G), mul O (sub O (ofNat (fst xb)) cx_) (g_sx G))])
      (enum (snd yr))) (enum m).
  (* Grid2D.in_radians: (grid * np.pi) / 648000.0 ; [pi_] is the value of np.pi (PI in theorems) *)
  Definition to_rad (pi_ : T) (c : T) : T := div O (mul O c pi_) (ofZ O 648000).
  Definition grid_radians (pi_ : T) (G : geom) : list (T * T) :=
    map (fun g => (to_rad pi_ (fst g), to_rad pi_ (snd g))) (grid_slim G).

  Definition tr_visibilities (pi_ : T) (G : geom) (uv : list (T * T)) (preload : bool) (img : list T) : list cx :=
    let grid := grid_radians pi_ G in
    if preload then visibilities_via_preload (length uv) img (preload_real grid uv) (preload_imag grid uv)
    else visibilities_jit img grid uv.
  (* image_from: n_pixels = grid.shape[0]; the slim result is what Array2D(values=native, mask).slim returns *)
  Definition tr_image (pi_ : T) (G : geom) (uv : list (T * T)) (vis : list cx) : res (list T) :=
    let grid := grid_radians pi_ G in image_via (length grid) grid uv vis.
  Definition tr_mapping_matrix (pi_ : T) (G : geom) (uv : list (T * T)) (preload : bool) (P : nat) (M : list (list T)) : list (list cx) :=
    let grid := grid_radians pi_ G in
    if preload then tmm_via_preload (length uv) P M (preload_real grid uv) (preload_imag grid uv)
    else tmm_jit P M grid uv.

  (* InversionInterferometerMapping on a list of linear objects (P_i, mapping matrix M_i, has regularization) *)
  Definition inv_operated (pi_ : T) (G : geom) uv preload (objs : list (nat * list (list T) * bool)) : list (list cx) :=
    hstack (length uv) (map (fun o => tr_mapping_matrix pi_ G uv preload (fst (fst o)) (snd (fst o))) objs).
  Definition inv_P (objs : list (nat * list (list T) * bool)) : nat := fold_right (fun o a => (fst (fst o) + a)%nat) 0%nat objs.
  Definition inv_noreg (objs : list (nat * list (list T) * bool)) : list nat :=
    noreg_index_list (map (fun o => (fst (fst o), snd o)) objs).
  Definition inv_data_vector pi_ G uv preload objs (data noise : list cx) : list T :=
    data_vector (inv_P objs) (inv_operated pi_ G uv preload objs) data noise.
  Definition inv_curvature pi_ G uv preload objs (noise : list cx) (value : T) : list (list T) :=
    curvature_matrix (inv_P objs) (inv_operated pi_ G uv preload objs) noise (inv_noreg objs) value.
  (* InversionInterferometerMapping.mapped_reconstructed_data_dict: for the i-th linear object,
     mapped_reconstructed_visibilities_from(operated_mapping_matrix_list[i], reconstruction[param_range_i]);
     source_quantity_dict_from cuts the reconstruction into consecutive slices of [params] entries *)
  Fixpoint split_params (ps : list nat) (s : list T) : list (list T) :=
    match ps with [] => [] | p :: t => firstn p s :: split_params t (skipn p s) end.
  Definition inv_recon_dict (pi_ : T) (G : geom) uv preload (objs : list (nat * list (list T) * bool)) (s : list T) : list (list cx) :=
    map (fun os => recon_visibilities (tr_mapping_matrix pi_ G uv preload (fst (fst (fst os))) (snd (fst (fst os)))) (snd os))
        (combine objs (split_params (map (fun o => fst (fst o)) objs) s)).
  (* SimulatorInterferometer(noise_sigma=None).via_image_from(image): transformer_class(uv_wavelengths, image.mask) -- the
     preload argument left at its default (on) -- .visibilities_from(image); no noise is added *)
  Definition sim_data (pi_ : T) (G : geom) (uv : list (T * T)) (img : list T) : list cx := tr_visibilities pi_ G uv true img.


  (* ---------------- histories: several TransformerDFT objects alive in one process ---------------- *)
  (* what a TransformerDFT instance keeps after __init__: self.grid, self.uv_wavelengths, and (preload_transform=True)
     self.preload_real_transforms / self.preload_imag_transforms.  Every later call reads ONLY this state and its argument. *)
  Record tobj := { t_grid : list (T * T); t_uv : list (T * T); t_pre : option (list (list T) * list (list T)) }.
  Definition t_new (pi_ : T) (G : geom) (uv : list (T * T)) (preload : bool) : tobj :=
    let grid := grid_radians pi_ G in
    {| t_grid := grid; t_uv := uv;
       t_pre := if preload then Some (preload_real grid uv, preload_imag grid uv) else None |}.
  Definition t_vis (t : tobj) (img : list T) : list cx :=
    match t_pre t with
    | Some RI => visibilities_via_preload (length (t_uv t)) img (fst RI) (snd RI)
    | None => visibilities_jit img (t_grid t) (t_uv t)
    end.
  Definition t_image (t : tobj) (vis : list cx) : res (list T) :=
    image_via (length (t_grid t)) (t_grid t) (t_uv t) vis.
  Definition t_tmm (t : tobj) (P : nat) (M : list (list T)) : list (list cx) :=
    match t_pre t with
    | Some RI => tmm_via_preload (length (t_uv t)) P M (fst RI) (snd RI)
    | None => tmm_jit P M (t_grid t) (t_uv t)
    end.
  (* one step of a history: construct a transformer (appended to the store of live objects) or call a method of the
     i-th live object with the CURRENT contents of the argument (however the caller produced them: fresh, derived by
     arithmetic, edited in place, the same array object as in an earlier call) *)
  Inductive hstep :=
  | HNew (G : geom) (uv : list (T * T)) (preload : bool)
  | HVis (i : nat) (img : list T)
  | HImage (i : nat) (vis : list cx)
  | HTmm (i P : nat) (M : list (list T)).
  Inductive hout :=
  | ONew (grid : list (T * T))
  | OVis (v : list cx)
  | OImage (r : res (list T))
  | OTmm (m : list (list cx))
  | OBad.                                   (* no such live object: never generated *)
  Definition on_obj {A} (store : list A) (i : nat) (f : A -> hout) : hout :=
    match nth_error store i with Some t => f t | None => OBad end.
  Fixpoint run_hist (pi_ : T) (store : list tobj) (steps : list hstep) : list hout :=
    match steps with
    | [] => []
    | HNew G uv p :: r => let t := t_new pi_ G uv p in ONew (t_grid t) :: run_hist pi_ (store ++ [t]) r
    | HVis i img :: r => on_obj store i (fun t => OVis (t_vis t img)) :: run_hist pi_ store r
    | HImage i vis :: r => on_obj store i (fun t => OImage (t_image t vis)) :: run_hist pi_ store r
    | HTmm i P M :: r => on_obj store i (fun t => OTmm (t_tmm t P M)) :: run_hist pi_ store r
    end.
  Definition geom_ok (G : geom) : bool := rectn (Wn (g_mask G)) (g_mask G) && scales_ok (g_sy G) (g_sx G).
  Definition hist_geoms_ok (steps : list hstep) : bool :=
    forallb (fun s => match s with HNew G _ _ => geom_ok G | _ => true end) steps.

  (* =========================== independent specification =========================== *)
  (* V_k = sum_p I_p exp(-2 pi i (x_p u_k + y_p v_k)) = sum_p I_p cos(phi) - i sum_p I_p sin(phi) *)
  Definition dft_spec (img : list T) (grid uv : list (T * T)) : list cx :=
    map (fun uvk => (sumT (map (fun ig => mul O (fst ig) (cos2pi O (phase (snd ig) uvk))) (combine img grid)),
                     opp O (sumT (map (fun ig => mul O (fst ig) (sin2pi O (phase (snd ig) uvk))) (combine img grid))))) uv.
  (* complex arithmetic and the operator A[k][p] = exp(-2 pi i phi_pk) as a matrix *)
  Definition cadd (a b : cx) : cx := (add O (fst a) (fst b), add O (snd a) (snd b)).
  Definition cmul (a b : cx) : cx :=
    (sub O (mul O (fst a) (fst b)) (mul O (snd a) (snd b)), add O (mul O (fst a) (snd b)) (mul O (snd a) (fst b))).
  Definition cconj (a : cx) : cx := (fst a, opp O (snd a)).
  Definition ofre (x : T) : cx := (x, zero).
  Definition csum (l : list cx) : cx := (sumT (map fst l), sumT (map snd l)).
  Definition dft_entry (g uvk : T * T) : cx := (cos2pi O (phase g uvk), opp O (sin2pi O (phase g uvk))).
  Definition dft_matrix (grid uv : list (T * T)) : list (list cx) := map (fun uvk => map (fun g => dft_entry g uvk) grid) uv.
  Definition cmatvec (A : list (list cx)) (x : list cx) : list cx :=
    map (fun row => csum (map (fun ax => cmul (fst ax) (snd ax)) (combine row x))) A.
  Definition ctranspose_conj (P : nat) (A : list (list cx)) : list (list cx) :=
    map (fun p => map (fun row => cconj (nth p row czero)) A) (seq 0 P).
  (* real part of A^H V *)
  Definition adjoint_re_spec (grid uv : list (T * T)) (vis : list cx) : list T :=
    map fst (cmatvec (ctranspose_conj (length grid) (dft_matrix grid uv)) vis).
  (* the via-preload routines on ARBITRARY tables: V_k = sum_i img_i (R[i][k] + i I[i][k]) *)
  Definition tab_spec (K : nat) (img : list T) (preR preI : list (list T)) : list cx :=
    map (fun k => (sumT (map (fun ir => mul O (fst ir) (nth k (snd ir) zero)) (combine img preR)),
                   sumT (map (fun ir => mul O (fst ir) (nth k (snd ir) zero)) (combine img preI)))) (seq 0 K).
  Definition table_spec (f : T -> T) (grid uv : list (T * T)) : list (list T) :=
    map (fun g => map (fun uvk => f (phase g uvk)) uv) grid.
  (* column-wise: out[.][j] = operator applied to column j *)
  Definition columns_spec (P : nat) (op : list T -> list cx) (M : list (list T)) (out : list (list cx)) (eq : cx -> cx -> bool) : bool :=
    forallb (fun j => list_eqb eq (map (fun row => nth j row czero) out) (op (column M j))) (seq 0 P).
  (* D_j = sum_k Vr_k Tr_kj / Nr_k^2 + Vi_k Ti_kj / Ni_k^2 ;  F_ij = sum_k Tr_ki Tr_kj / Nr_k^2 + Ti_ki Ti_kj / Ni_k^2 *)
  Definition D_spec (P : nat) (TM : list (list cx)) (vis noise : list cx) : list T :=
    map (fun j => sumT (map (fun rvn =>
        let '(row, (v, n)) := rvn in
        add O (div O (mul O (fst v) (fst (nth j row czero))) (mul O (fst n) (fst n)))
              (div O (mul O (snd v) (snd (nth j row czero))) (mul O (snd n) (snd n))))
      (combine TM (combine vis noise)))) (seq 0 P).
  Definition F_spec (P : nat) (TM : list (list cx)) (noise : list cx) (noreg : list nat) (value : T) : list (list T) :=
    map (fun i => map (fun j =>
      add O (sumT (map (fun rn =>
                let '(row, n) := rn in
                add O (div O (mul O (fst (nth i row czero)) (fst (nth j row czero))) (mul O (fst n) (fst n)))
                      (div O (mul O (snd (nth i row czero)) (snd (nth j row czero))) (mul O (snd n) (snd n))))
             (combine TM noise)))
            (if Nat.eqb i j then mul O (ofNat (count_occ Nat.eq_dec noreg i)) value else zero))
      (seq 0 P)) (seq 0 P).
  Definition recon_spec (TM : list (list cx)) (s : list T) : list cx := cmatvec TM (map ofre s).
  (* unmasked pixel centres, set-theoretically: filter of all (row, col), y = ((H-1)/2 - row) sy + oy, x = (col - (W-1)/2) sx + ox *)
  Definition centres_spec (pi_ : T) (G : geom) : list (T * T) :=
    let m := g_mask G in
    map (fun rc => (to_rad pi_ (add O (mul O (sub O (div O (ofZ O (Z.of_nat (Hn m) - 1)) two) (ofNat (fst rc))) (g_sy G)) (g_oy G)),
                    to_rad pi_ (add O (mul O (sub O (ofNat (snd rc)) (div O (ofZ O (Z.of_nat (Wn m) - 1)) two)) (g_sx G)) (g_ox G))))
      (filter (fun rc => negb (nth (snd rc) (nth (fst rc) m []) true))
              (flat_map (fun r => map (fun c => (r, c)) (seq 0 (Wn m))) (seq 0 (Hn m)))).
  (* the operator applied to every column of M, as a K x P matrix *)
  Definition tmm_spec (P : nat) (M : list (list T)) (grid uv : list (T * T)) : list (list cx) :=
    from_columns czero (length uv) (map (fun j => dft_spec (column M j) grid uv) (seq 0 P)).
  (* per linear object: (the operator applied to the columns of its matrix) times its slice of the reconstruction *)
  Definition recon_dict_spec (centres uv : list (T * T)) (objs : list (nat * list (list T) * bool)) (s : list T) : list (list cx) :=
    map (fun os => recon_spec (tmm_spec (fst (fst (fst os))) (snd (fst (fst os))) centres uv) (snd os))
        (combine objs (split_params (map (fun o => fst (fst o)) objs) s)).
  (* the pure function of the current contents: every step's outcome depends only on the (mask geometry, baselines) the
     addressed object was constructed from and on the argument of THIS call -- not on preload, not on earlier steps *)
  Fixpoint pure_hist (pi_ : T) (ds : list (geom * list (T * T))) (steps : list hstep) : list hout :=
    match steps with
    | [] => []
    | HNew G uv p :: r => ONew (centres_spec pi_ G) :: pure_hist pi_ (ds ++ [(G, uv)]) r
    | HVis i img :: r =>
        on_obj ds i (fun d => OVis (dft_spec img (centres_spec pi_ (fst d)) (snd d))) :: pure_hist pi_ ds r
    | HImage i vis :: r =>
        on_obj ds i (fun d => OImage (Ok (adjoint_re_spec (centres_spec pi_ (fst d)) (snd d) vis))) :: pure_hist pi_ ds r
    | HTmm i P M :: r =>
        on_obj ds i (fun d => OTmm (tmm_spec P M (centres_spec pi_ (fst d)) (snd d))) :: pure_hist pi_ ds r
    end.
End Model.

(* =========================== correspondence cases =========================== *)
Definition qv := list Q.
Definition qm := list (list Q).
Definition qc := (Q * Q)%type.
Definition tol : Q := 1 # 1000000000.
(* Every routine here is LINEAR in one argument (image, column, visibilities, reconstruction) with coefficients of
   magnitude <= 1 (cos, sin) or given tables, so the natural error scale of an output entry is the l1 norm of that
   argument (times the coefficient bound): |a - b| <= 1e-9 * scale.  This is a RELATIVE comparison: an image / column /
   visibility vector whose entries are all ~1e-12 is compared to ~1e-21 (an absolute 1e-9 would make it invisible), one
   with entries ~1e12 to ~1e3.  scale = 0 (all-zero argument) demands exact equality. *)
Definition s_close (s a b : Q) : bool := Qle_bool (Qabs (a - b)) (tol * s).
Definition cs_close (s : Q) (a b : qc) : bool := s_close s (fst a) (fst b) && s_close s (snd a) (snd b).
Definition qv_close_s (s : Q) := list_eqb (s_close s).
Definition cv_close_s (s : Q) := list_eqb (cs_close s).
Definition l1 (v : qv) : Q := fold_right (fun x a => Qred (Qabs x + a)) 0 v.
Definition l1c (v : list qc) : Q := fold_right (fun x a => Qred (Qabs (fst x) + Qabs (snd x) + a)) 0 v.
Definition cabs (p : qc) : qc := (Qabs (fst p), Qabs (snd p)).
(* element-wise comparison with one scale per element; all three lists must have the same length *)
Fixpoint list_eqb_s {S A} (f : S -> A -> A -> bool) (ss : list S) (x y : list A) : bool :=
  match ss, x, y with
  | [], [], [] => true
  | s :: ss', a :: x', b :: y' => f s a b && list_eqb_s f ss' x' y'
  | _, _, _ => false
  end.
Definition qv_close_ss := list_eqb_s s_close.
Definition cv_close_ss := list_eqb_s cs_close.
(* K x P matrices, one scale per COLUMN *)
Definition cm_close_cols (ss : list Q) := list_eqb (cv_close_ss ss).
Definition col_scales (P : nat) (M : qm) : list Q := map (fun j => l1 (@column QOpsT M j)) (seq 0 P).
Definition tabmax (R I : qm) : Q :=
  fold_right (fun r a => fold_right (fun x b => if Qle_bool (Qabs x) b then b else Qabs x) a r) 0 (R ++ I).
(* the preload tables themselves are cos / sin values: absolute 1e-9 *)
Definition q_close (a b : Q) : bool := s_close 1 a b.
Definition qm_close := list_eqb (list_eqb q_close).
(* the grid in radians (values ~1e-5) is compared to 1e-12 RELATIVE *)
Definition q_rel (a b : Q) : bool := Qle_bool (Qabs (a - b)) ((1 # 1000000000000) * Qabs b).
Definition cv_rel := list_eqb (fun a b : qc => q_rel (fst a) (fst b) && q_rel (snd a) (snd b)).

Definition obj := (nat * qm * bool)%type.

Inductive case :=
| KPreload (grid uv : list qc) (outR outI : qm)                                   (* preload_real/imag_transforms *)
| KVisPre (K : nat) (img : qv) (preR preI : qm) (out : list qc)                   (* visibilities_via_preload_jit_from *)
| KVis (img : qv) (grid uv : list qc) (out : list qc)                             (* visibilities_jit *)
| KImage (n : nat) (grid uv : list qc) (vis : list qc) (out : res qv)             (* image_via_jit_from *)
| KTmmPre (K P : nat) (M preR preI : qm) (out : list (list qc))                   (* transformed_mapping_matrix_via_preload_jit_from *)
| KTmm (P : nat) (M : qm) (grid uv : list qc) (out : list (list qc))              (* transformed_mapping_matrix_jit *)
| KData (P : nat) (TM : list (list qc)) (vis noise : list qc) (out : qv)          (* data_vector_via_transformed_mapping_matrix_from *)
| KRecon (TM : list (list qc)) (s : qv) (out : list qc)                           (* mapped_reconstructed_visibilities_from *)
| KTGrid (pi_ : Q) (G : @geom QOpsT) (out : list qc)                              (* TransformerDFT(...).grid *)
| KTVis (pi_ : Q) (G : @geom QOpsT) (uv : list qc) (preload : bool) (img : qv) (out : list qc)
| KTImage (pi_ : Q) (G : @geom QOpsT) (uv : list qc) (vis : list qc) (out : qv)
| KTTmm (pi_ : Q) (G : @geom QOpsT) (uv : list qc) (preload : bool) (P : nat) (M : qm) (out : list (list qc))
| KInv (pi_ : Q) (G : @geom QOpsT) (uv : list qc) (preload : bool) (objs : list obj) (data noise : list qc) (value : Q)
       (outT : list (list qc)) (outD : qv) (outF : qm)
(* InversionInterferometerMapping.mapped_reconstructed_data_dict: s is the reconstruction the implementation solved for (an
   INPUT here: the solver is not part of this property), outs the per-object reconstructed visibilities *)
| KInvRecon (pi_ : Q) (G : @geom QOpsT) (uv : list qc) (preload : bool) (objs : list obj) (s : qv) (outs : list (list qc))
(* a history of TransformerDFT objects and method calls in ONE interpreter, with what each step returned *)
| KHist (pi_ : Q) (steps : list (@hstep QOpsT)) (outs : list (@hout QOpsT)).

(* scales *)
Definition data_scales (P : nat) (TM : list (list qc)) (vis noise : list qc) : list Q :=
  @D_spec QOpsT P (map (map cabs) TM) (map cabs vis) noise.
Definition recon_scales (TM : list (list qc)) (s : qv) : list Q :=
  map (fun p : qc => Qred (fst p + snd p)) (@recon_spec QOpsT (map (map cabs) TM) (map Qabs s)).
Definition all_columns (objs : list obj) : list qv :=
  flat_map (fun o => map (fun j => @column QOpsT (snd (fst o)) j) (seq 0 (fst (fst o)))) objs.
Definition noreg_spec (objs : list obj) : list nat :=
  flat_map (fun io => if (snd io : bool) then [] else [fst io])
    (enum (flat_map (fun o : obj => repeat (snd o) (fst (fst o))) objs)).
Definition inv_col_scales (objs : list obj) : list Q := map l1 (all_columns objs).
Definition inv_D_scales (objs : list obj) (data noise : list qc) : list Q :=
  let w := fold_right (fun vn a => Qred (Qabs (fst (fst vn)) / (fst (snd vn) * fst (snd vn))
                                         + Qabs (snd (fst vn)) / (snd (snd vn) * snd (snd vn)) + a)) 0 (combine data noise) in
  map (fun c => Qred (c * w)) (inv_col_scales objs).
Definition inv_F_scales (objs : list obj) (noise : list qc) (value : Q) : list (list Q) :=
  let w := fold_right (fun n a => Qred (1 / (fst n * fst n) + 1 / (snd n * snd n) + a)) 0 noise in
  let cs := inv_col_scales objs in
  let nr := noreg_spec objs in
  map (fun ic => map (fun jc => Qred (snd ic * snd jc * w
                     + (if Nat.eqb (fst ic) (fst jc) then inject_Z (Z.of_nat (count_occ Nat.eq_dec nr (fst ic))) * Qabs value else 0)))
                     (enum cs)) (enum cs).
Definition qm_close_ss : list (list Q) -> qm -> qm -> bool := list_eqb_s qv_close_ss.
(* one scale per linear object: sum_j l1(column j of its matrix) * |s_j| bounds every entry of T_i s_i *)
Definition recon_obj_scales (objs : list obj) (s : qv) : list Q :=
  map (fun os : obj * qv =>
         fold_right (fun cs a => Qred (fst cs * Qabs (snd cs) + a)) 0
                    (combine (col_scales (fst (fst (fst os))) (snd (fst (fst os)))) (snd os)))
      (combine objs (@split_params QOpsT (map (fun o : obj => fst (fst o)) objs) s)).
Definition cvs_close_ss : list Q -> list (list qc) -> list (list qc) -> bool := list_eqb_s cv_close_s.

Definition res_close_s (s : Q) (x y : res qv) : bool := res_eqb (qv_close_s s) x y.

(* histories: step by step, each outcome compared independently on the scale of ITS argument *)
Definition hout_close (st : @hstep QOpsT) (a b : @hout QOpsT) : bool :=
  match st, a, b with
  | HNew _ _ _, ONew g1, ONew g2 => cv_rel g1 g2
  | HVis _ img, OVis v1, OVis v2 => cv_close_s (l1 img) v1 v2
  | HImage _ vis, OImage r1, OImage r2 => res_close_s (l1c vis) r1 r2
  | HTmm _ P M, OTmm m1, OTmm m2 => cm_close_cols (col_scales P M) m1 m2
  | _, _, _ => false
  end.
Fixpoint hist_close (steps : list (@hstep QOpsT)) (x y : list (@hout QOpsT)) : bool :=
  match steps, x, y with
  | [], [], [] => true
  | st :: steps', a :: x', b :: y' => hout_close st a b && hist_close steps' x' y'
  | _, _, _ => false
  end.

Definition agree (k : case) : bool :=
  match k with
  | KPreload grid uv outR outI =>
      qm_close (@preload_real QOpsT grid uv) outR && qm_close (@preload_imag QOpsT grid uv) outI
  | KVisPre K img preR preI out =>
      cv_close_s (l1 img * tabmax preR preI) (@visibilities_via_preload QOpsT K img preR preI) out
  | KVis img grid uv out => cv_close_s (l1 img) (@visibilities_jit QOpsT img grid uv) out
  | KImage n grid uv vis out => res_close_s (l1c vis) (@image_via QOpsT n grid uv vis) out
  | KTmmPre K P M preR preI out =>
      cm_close_cols (map (fun c => c * tabmax preR preI) (col_scales P M)) (@tmm_via_preload QOpsT K P M preR preI) out
  | KTmm P M grid uv out => cm_close_cols (col_scales P M) (@tmm_jit QOpsT P M grid uv) out
  | KData P TM vis noise out => qv_close_ss (data_scales P TM vis noise) (@data_vector QOpsT P TM vis noise) out
  | KRecon TM s out => cv_close_ss (recon_scales TM s) (@recon_visibilities QOpsT TM s) out
  | KTGrid pi_ G out => cv_rel (@grid_radians QOpsT pi_ G) out
  | KTVis pi_ G uv preload img out => cv_close_s (l1 img) (@tr_visibilities QOpsT pi_ G uv preload img) out
  | KTImage pi_ G uv vis out => res_close_s (l1c vis) (@tr_image QOpsT pi_ G uv vis) (Ok out)
  | KTTmm pi_ G uv preload P M out => cm_close_cols (col_scales P M) (@tr_mapping_matrix QOpsT pi_ G uv preload P M) out
  | KInv pi_ G uv preload objs data noise value outT outD outF =>
      (* inv_data_vector / inv_curvature unfolded so that the operated matrix is evaluated once *)
      let TM := @inv_operated QOpsT pi_ G uv preload objs in
      cm_close_cols (inv_col_scales objs) TM outT
      && qv_close_ss (inv_D_scales objs data noise) (@data_vector QOpsT (@inv_P QOpsT objs) TM data noise) outD
      && qm_close_ss (inv_F_scales objs noise value)
           (@curvature_matrix QOpsT (@inv_P QOpsT objs) TM noise (@inv_noreg QOpsT objs) value) outF
  | KInvRecon pi_ G uv preload objs s outs =>
      cvs_close_ss (recon_obj_scales objs s) (@inv_recon_dict QOpsT pi_ G uv preload objs s) outs
  | KHist pi_ steps outs => hist_close steps (@run_hist QOpsT pi_ [] steps) outs
  end.

(* the specification applied to the implementation's outputs; never calls the model routines *)
Definition spec_ok (k : case) : bool :=
  match k with
  | KPreload grid uv outR outI =>
      qm_close outR (@table_spec QOpsT (fun s => cos2pi QOpsT s) grid uv)
      && qm_close outI (@table_spec QOpsT (fun s => opp QOpsT (sin2pi QOpsT s)) grid uv)
  | KVisPre K img preR preI out => cv_close_s (l1 img * tabmax preR preI) out (@tab_spec QOpsT K img preR preI)
  | KVis img grid uv out => cv_close_s (l1 img) out (@dft_spec QOpsT img grid uv)
  | KImage n grid uv vis out =>
      match out with
      | Ok o => Nat.leb n (length grid) && qv_close_s (l1c vis) o (@adjoint_re_spec QOpsT (firstn n grid) uv vis)
                || (Nat.ltb (length grid) n && Nat.eqb (length uv) 0 && qv_close_s 0 o (repeat 0%Q n))
      | Raise e => Nat.ltb (length grid) n && negb (Nat.eqb (length uv) 0) && exn_eqb e IndexError
      end
  | KTmmPre K P M preR preI out =>
      cm_close_cols (map (fun c => c * tabmax preR preI) (col_scales P M)) out
        (@from_columns qc (0, 0) K (map (fun j => @tab_spec QOpsT K (@column QOpsT M j) preR preI) (seq 0 P)))
  | KTmm P M grid uv out => cm_close_cols (col_scales P M) out (@tmm_spec QOpsT P M grid uv)
  | KData P TM vis noise out => qv_close_ss (data_scales P TM vis noise) out (@D_spec QOpsT P TM vis noise)
  | KRecon TM s out => cv_close_ss (recon_scales TM s) out (@recon_spec QOpsT TM s)
  | KTGrid pi_ G out => cv_rel (@centres_spec QOpsT pi_ G) out
  | KTVis pi_ G uv preload img out => cv_close_s (l1 img) out (@dft_spec QOpsT img (@centres_spec QOpsT pi_ G) uv)
  | KTImage pi_ G uv vis out => qv_close_s (l1c vis) out (@adjoint_re_spec QOpsT (@centres_spec QOpsT pi_ G) uv vis)
  | KTTmm pi_ G uv preload P M out =>
      cm_close_cols (col_scales P M) out (@tmm_spec QOpsT P M (@centres_spec QOpsT pi_ G) uv)
  | KInv pi_ G uv preload objs data noise value outT outD outF =>
      let cols := all_columns objs in
      let P := length cols in
      let TMs := @from_columns qc (0, 0) (length uv)
                   (map (fun col => @dft_spec QOpsT col (@centres_spec QOpsT pi_ G) uv) cols) in
      cm_close_cols (inv_col_scales objs) outT TMs
      && qv_close_ss (inv_D_scales objs data noise) outD (@D_spec QOpsT P TMs data noise)
      && qm_close_ss (inv_F_scales objs noise value) outF (@F_spec QOpsT P TMs noise (noreg_spec objs) value)
  | KInvRecon pi_ G uv preload objs s outs =>
      cvs_close_ss (recon_obj_scales objs s) outs (@recon_dict_spec QOpsT (@centres_spec QOpsT pi_ G) uv objs s)
  | KHist pi_ steps outs => @hist_geoms_ok QOpsT steps && hist_close steps outs (@pure_hist QOpsT pi_ [] steps)
  end.

Definition check (k : case) : nat := verdict (agree k) (spec_ok k).
