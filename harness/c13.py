"""C13 -- direct Fourier transform, preloaded variant, adjoint, interferometer normal equations."""
import sys, types

# pylops is not installed: TransformerDFT only needs it as a base class.  Minimal stand-in, installed BEFORE autoarray
# is imported (no change to /repo).
if "pylops" not in sys.modules:
    _m = types.ModuleType("pylops")
    class LinearOperator:          # noqa
        def __init__(self, dtype=None, shape=None, explicit=False, **kw):
            pass
    _m.LinearOperator = LinearOperator
    _m.__verif_standin__ = True
    sys.modules["pylops"] = _m

import random
import numpy as np
from fractions import Fraction
from harness.common import cz, cq, cnat, cbool, clist, ctup, cres, import_aa, frac, exn_name

ID = "C13"
GEN = []
PROPS = "Props/C13.v"
COQ_CHECK = ("Model.C13", "check")
COQ_FALLBACK = None
COQ_IMPORTS = "From PAV Require Import Base.NumOps Model.C13Lib."
SHARD = 40
RULE = ("util level (autoarray.util.transformer / inversion_interferometer_util functions called directly): grids of 0-12 "
        "(y,x) points and 0-8 (u,v) baselines, either on the half-integer lattice (every phase a multiple of a quarter turn: "
        "exact trig table) or on a 1/16 lattice (generic phases); zero and repeated baselines; images / matrix COLUMNS / visibility "
        "vectors / reconstructions = (integer or quarter) * 2^e with e in {0, -7 .. -200, +20 .. +100} per vector (entries within a "
        "vector spread over at most 2^-20), signed mapping matrices with zeros, noise maps {1/2,1,2,4} * 2^{0, +-20, +-50}, arbitrary "
        "integer preload tables incl. 0 x K tables; image_via_jit_from with n_pixels <, =, > grid rows; batches come in sibling pairs "
        "with identical shapes; every 2-D argument as C-ordered, Fortran-ordered or a strided view; every function is called twice "
        "(results must be identical) and every argument must be unchanged afterwards. All comparisons are RELATIVE to the l1 norm "
        "of the linear argument (1e-9). Budgets: quick 44 util batches (8 ops each) + 40 geometries + 28 histories; thorough 440 + 500 + 280. "
        "Class level: Mask2D of shape up to 5x5 (non-square, 0..16 unmasked pixels incl. outer ring, fully masked, single pixel), "
        "pixel scales (sy,sx) in {1/4..3} independently, origins k/4, baselines up to 2e5 wavelengths (phases of several turns), "
        "TransformerDFT(preload on/off).visibilities_from / image_from / transform_mapping_matrix with slim- and native-stored "
        "images, InversionInterferometerMapping(DatasetInterface(Visibilities, VisibilitiesNoiseMap, TransformerDFT), 1-3 linear "
        "objects with/without regularization, explicit or config-default diagonal value).data_vector / curvature_matrix / "
        "operated_mapping_matrix (read in both orders, twice, and through a second inversion), aa.Inversion factory, plus a SIBLING "
        "inversion through the same transformer object (rows of M / data / noise rotated, regularization flags flipped). "
        "RARE STATES are a regular part of every stream (all value vectors come from one generator): images / matrix columns / "
        "real and imaginary parts of visibilities, data and reconstructions that cancel exactly (sum == 0.0 with non-zero l1 norm: "
        "+a/-a dipoles and generic signed vectors closed by minus their sum), constant vectors, vectors without a positive entry, "
        "all-zero, single non-zero entry, integers with 30-50 significant bits (exact as int64 / float64, not as float32); purely real / purely imaginary / im = -re / im = re visibilities; matrices with an all-zero "
        "row, a column equal to or minus another, every row cancelling, one-hot 0/1 matrices; noise maps all ones / constant / "
        "constant with real != imaginary; baseline sets all zero / u = 0 / v = 0 / u = v / +- pairs; util grids on one axis / one point "
        "repeated / point-symmetric; tables with a zero baseline column or imaginary = -real. INPUT KINDS: the same values as int64 / "
        "float32 / complex64 / bool arrays (one narrow argument per call, only where every value survives the round trip), "
        "Visibilities built from a complex128 / complex64 array, a (K,2) float array, a list of pairs, a list of complex, as a "
        "VisibilitiesNoiseMap or a user subclass; Mask2D from an array / list / inverted array + invert=True / all_false / scalar "
        "pixel scale / origin omitted / user subclass; user subclasses of Array2D, TransformerDFT, Interferometer; preload_transform "
        "omitted; MockLinearObjFuncList objects. ENTRY POINTS added: aa.Interferometer(transformer_class=TransformerDFT) as the "
        "inversion's dataset, SimulatorInterferometer(noise off).via_image_from, mapped_reconstructed_data_dict (after the solve; "
        "F, D, T re-read after it), settings / preloads omitted (shared default objects) or one caller-owned object for all "
        "inversions of the case; every default-argument object of these entry points is fingerprinted before and after each case. "
        "Histories (one Coq case each, every step compared with the model independently): 2-4 TransformerDFT objects alive in one "
        "interpreter that differ in exactly ONE construction ingredient (mask shifted by one pixel / permuted / one pixel moved / "
        "point-reflected / reshaped with the same row-major bytes / transposed / one pixel more or fewer, pixel scales swapped, origin "
        "moved, one baseline changed / order reversed / negated, preload flipped, identical twin), the ingredient being a new object, "
        "the same Mask2D / ndarray object shared, or the caller's Mask2D / uv array EDITED IN PLACE before the next construction; "
        "then 1-3 kinds of call per live object, often doubled with a sibling argument (the same object again, the same object "
        "edited in place, values rotated / negated / scaled by 2^-k / one entry changed, equal values in a new object), arguments "
        "shared between sibling transformers, images slim / native / store_native / derived by arithmetic, matrices C / F / strided, "
        "uv as int or float arrays; calls of different objects interleaved. Python-side relations: preload on = off, native = slim "
        "storage, adjoint dot test, column-wise transform, arguments unchanged, second call identical. Non-trivial = at least 2 "
        "pixels and one non-zero baseline (histories: at least 2 objects and 2 calls); distinct = distinct JSON input.")
EXHAUSTIVE = {}
TRUSTED = ["hand-written Gallina model coq/Model/C13.v (scatter loops, sparsity test, preload tables, grid of unmasked pixel centres, "
           "normal equations), tied to /repo by this correspondence run: model and specification are evaluated inside Coq (vm_compute) "
           "on the exact rational values of the doubles the implementation received and compared with its outputs to 1e-9 "
           "RELATIVE to the l1 norm of the linear argument (image, column, visibilities, ...; all-zero argument: exact); preload "
           "tables to 1e-9 absolute, the grid to 1e-12 relative",
           "execution device QOpsT (coq/Model/C13Lib.v): cos/sin of a rational number of turns, exact at quarter turns, otherwise a "
           "10-term Taylor polynomials in 2^-60 fixed point (error < 1e-16); never used in a theorem",
           "numpy element-wise arithmetic, np.dot (Gram product), np.hstack, complex accumulation as two real accumulations; "
           "np.cos/np.sin/np.pi accurate to a few ulp",
           "minimal stand-in for the absent optional module pylops (base class only), installed by harness/c13.py"]
ASSUMPTIONS = ["real arithmetic (no rounding): theorems over R with the real cos, sin, PI; correspondence under tolerance 1e-9",
               "NUFFT transformer and the interferometer w-tilde path are out of scope (library / code absent)",
               "Array2D / Visibilities / Mask2D glue (slim/native storage, in_array) is correspondence-only"]

PI = Fraction(float(np.pi))
SCALES = [Fraction(1, 4), Fraction(1, 2), Fraction(1), Fraction(3, 2), Fraction(2), Fraction(3)]
NOISE = [Fraction(1, 2), Fraction(1), Fraction(2), Fraction(4)]

# ----------------------------------------------------------------------------- printing
def F(x): return Fraction(x)
def cqv(v): return clist([cq(x) for x in v])
def cqm(M): return clist([cqv(r) for r in M])
def cqc(p): return ctup([cq(p[0]), cq(p[1])])
def ccv(v): return clist([cqc(p) for p in v])
def ccm(M): return clist([ccv(r) for r in M])
def cmask(m): return clist([clist([cbool(b) for b in r]) for r in m])
def cgeom(g): return f"(@Build_geom QOpsT {cmask(g['m'])} {cq(F(g['sy']))} {cq(F(g['sx']))} {cq(F(g['oy']))} {cq(F(g['ox']))})"
def fl(v): return [float(x) for x in v]
def flm(M): return [[float(x) for x in r] for r in M]
def S(x): return str(Fraction(x))
def Sv(v): return [S(x) for x in v]
def Sm(M): return [Sv(r) for r in M]
def Fv(v): return [Fraction(x) for x in v]
def Fm(M): return [Fv(r) for r in M]
def arr2(M, ncols):
    a = np.array(flm(M), dtype=float)
    return a.reshape((len(M), ncols))
def cplx(v): return np.array([complex(float(a), float(b)) for a, b in v], dtype=complex).reshape((len(v),))
def cvout(a): return [(frac(z.real), frac(z.imag)) for z in np.asarray(a).ravel()]
def cmout(a): return [[(frac(z.real), frac(z.imag)) for z in r] for r in np.asarray(a)]
def rvout(a): return [frac(x) for x in np.asarray(a).ravel()]
def rmout(a): return [[frac(x) for x in r] for r in np.asarray(a)]
def short(x): return str(x)[:400]

# ----------------------------------------------------------------------------- generators
# magnitudes: a whole image / column / visibility vector is scaled by an exact power of two 2^e (tiny: below every
# plausible absolute threshold 1e-3 .. 1e-60; huge), entries inside it spread over at most 2^-20 so that no entry is
# negligible against the l1 norm at the 1e-9 relative tolerance
EXPS = [0, 0, 0, 0, 0, -7, -10, -14, -20, -24, -27, -30, -34, -40, -50, -60, -100, -200, 20, 40, 100]
def rexp(rng, on=True): return rng.choice(EXPS) if on else 0
def rval(rng, sparse=False):
    if sparse and rng.random() < 0.4: return Fraction(0)
    if rng.random() < 0.3: return Fraction(rng.randint(-20, 20), 4)
    return Fraction(rng.randint(-9, 9))
# (h) rare states constructed deliberately, a regular part of EVERY stream (util, class, inversion, histories), because
# every linear argument is drawn through rvals / rcv / rmat: vectors whose entries CANCEL EXACTLY (sum == 0.0 in floating
# point although the l1 norm is not: a +a/-a dipole, or a generic signed vector whose last entry is minus the sum of
# the others), constant vectors, vectors without a positive entry, all-zero vectors, a single non-zero entry.  A shortcut
# that tests sum / mean / max / any(> 0) / "all entries equal" instead of "all entries are zero" shows on them.
SPECIALS = ["cancel", "cancel", "cancel", "dipole", "dipole", "const", "nonpos", "zero", "single", "wide"]
class Quota:
    """no stream is left to chance: per stream key, at least one linear argument in five cancels exactly (where the size allows)"""
    def __init__(self): self.n = {}; self.c = {}; self.w = {}
    def want(self, rng, key, size):
        self.n[key] = self.n.get(key, 0) + 1
        if size >= 2 and self.c.get(key, 0) * 5 < self.n[key]:
            self.c[key] = self.c.get(key, 0) + 1; return rng.choice(["cancel", "dipole"])
        if size >= 1 and (self.w.get(key, 0) + 1) * 7 <= self.n[key]:          # and one in seven holds wide integers
            self.w[key] = self.w.get(key, 0) + 1; return "wide"
        return None
QUOTA = Quota()
def rvals(rng, n, sparse=False, e=0, special=None, spread=True, p_special=0.45, q=None):
    if special is None and q is not None: special = QUOTA.want(rng, q, n)
    def one(sp):
        sub = (rng.choice([0, 0, 0, 0, -10, -20]) if e != 0 or rng.random() < 0.15 else 0) if spread else 0
        return rval(rng, sp) * Fraction(2) ** (e + sub)
    def nz():
        while True:
            v = one(False)
            if v != 0: return v
    if special is None and n >= 1 and rng.random() < p_special: special = rng.choice(SPECIALS)
    if special in ("cancel", "dipole") and n < 2: special = "const"
    if special == "dipole":
        out = [Fraction(0)] * n; i, j = rng.sample(range(n), 2); a = nz(); out[i] = a; out[j] = -a
        return out
    if special == "cancel":          # the sum of <= 12 numbers k * 2^(e-22 .. e), |k| <= 80, is a double: exact cancellation
        out = [one(sparse) for _ in range(n - 1)]
        if all(v == 0 for v in out): out[0] = nz()
        out.append(-sum(out)); rng.shuffle(out)
        return out
    if special == "const":
        a = nz(); return [a] * n
    if special == "nonpos":
        out = [-abs(one(sparse)) for _ in range(n)]
        if all(v == 0 for v in out): out[rng.randrange(n)] = -abs(nz())
        return out
    if special == "wide":             # integers with 30-50 significant bits: exact as int64 / float64, NOT as float32
        return [Fraction(rng.choice([-1, 1]) * (rng.getrandbits(rng.randint(30, 50)) | 1)) if rng.random() < 0.8 else Fraction(0) for _ in range(n)]
    if special == "zero": return [Fraction(0)] * n
    if special == "single":
        out = [Fraction(0)] * n; out[rng.randrange(n)] = nz(); return out
    return [one(sparse) for _ in range(n)]
def rmat(rng, n, P, mag=True, q=None, mode=None):
    """n x P signed matrix with zeros; every COLUMN has its own magnitude and is, independently, generic or one of the
       special vectors (exactly cancelling, constant, non-positive, zero, single entry); matrix-level rare states: an
       all-zero row (a pixel that maps nowhere), a column that is minus / equal to another one, every ROW cancelling
       exactly, a one-hot 0/1 matrix (what a mapper produces; also passed as int / bool)"""
    mode = mode or rng.choice(["cols"] * 7 + ["negcol", "dupcol", "rowcancel", "rowcancel", "onehot", "onehot"])
    if mode == "onehot" and P >= 1 and n >= 1:
        return [[Fraction(int(j == rng.randrange(P))) for j in range(P)] if rng.random() < 0.85 else [Fraction(0)] * P for _ in range(n)]
    if mode == "rowcancel" and P >= 2 and n >= 1:
        e = rexp(rng, mag)
        cols = [rvals(rng, n, sparse=True, e=e, special="") for _ in range(P - 1)]
        cols.append([-sum(c[i] for c in cols) for i in range(n)])
    else:
        forced = QUOTA.want(rng, q, n if P >= 1 else 0) if q is not None else None
        jf = rng.randrange(P) if forced else None
        cols = [rvals(rng, n, sparse=True, e=rexp(rng, mag), special=forced if j == jf else None) for j in range(P)]
        if mode in ("negcol", "dupcol") and P >= 2 and (not forced or q is None):
            a, b = rng.sample(range(P), 2); cols[b] = [(-v if mode == "negcol" else v) for v in cols[a]]
    M = [[cols[j][i] for j in range(P)] for i in range(n)]
    if n >= 2 and rng.random() < 0.12: M[rng.randrange(n)] = [Fraction(0)] * P
    return M
def rcv(rng, n, e=0, q=None):
    """complex vector as (re, im) pairs; the two parts are independent (each generic or special), or the rare states:
       purely imaginary / purely real entries, im = -re (re + im cancels in every entry), im = re"""
    r = rng.random()
    forced = QUOTA.want(rng, q, n) if q is not None else None
    if forced == "wide": return list(zip(rvals(rng, n, special="wide"), rvals(rng, n, special="wide")))
    if forced: r = 0.34
    if n >= 1 and r < 0.07: return [(Fraction(0), b) for b in rvals(rng, n, e=e, special="")]
    if n >= 1 and r < 0.14: return [(a, Fraction(0)) for a in rvals(rng, n, e=e, special="")]
    if n >= 1 and r < 0.20: return [(a, -a) for a in rvals(rng, n, e=e)]
    if n >= 1 and r < 0.24: return [(a, a) for a in rvals(rng, n, e=e)]
    if n >= 2 and r < 0.35:           # the COMPLEX sum is exactly zero: both parts cancel
        return list(zip(rvals(rng, n, e=e, special=rng.choice(["cancel", "dipole"])), rvals(rng, n, e=e, special=rng.choice(["cancel", "dipole", "zero"]))))
    return list(zip(rvals(rng, n, e=e), rvals(rng, n, e=e)))
def rnoise(rng, n, e=0):
    r = rng.random()
    if r < 0.08: return [(Fraction(1), Fraction(1))] * n                      # all ones: weights that "need no division"
    if r < 0.16:
        c = rng.choice(NOISE) * Fraction(2) ** e; return [(c, c)] * n          # one sigma everywhere, real = imaginary
    if r < 0.24:
        a, b = rng.sample(NOISE, 2); return [(a * Fraction(2) ** e, b * Fraction(2) ** e)] * n     # constant, real != imaginary
    return [(rng.choice(NOISE) * Fraction(2) ** e, rng.choice(NOISE) * Fraction(2) ** e) for _ in range(n)]
# (f) input kinds: the same VALUES through another dtype (only where every value survives the round trip, so that the
# case stays exact): int64, float32 / complex64, bool
def flat(v):
    for x in v:
        if isinstance(x, (list, tuple)): yield from flat(x)
        else: yield Fraction(x)
def fits(vals, kind):
    vals = list(flat(vals))
    if kind == "f8": return True
    if kind == "i8": return all(v.denominator == 1 and abs(v) < 2 ** 53 for v in vals)
    if kind == "b1": return all(v in (0, 1) for v in vals)
    if kind == "f4":
        try:
            with np.errstate(all="ignore"):
                return all(Fraction(float(np.float32(float(v)))) == v for v in vals)
        except (OverflowError, ValueError): return False
    return False
def pick_dt(rng, vals, kinds=("i8", "f4"), p=0.4):
    if "b1" in kinds and fits(vals, "b1") and any(True for _ in flat(vals)):       # a 0/1 matrix: mostly passed as bool / int
        return rng.choice(["b1", "b1", "i8", "f4", "f8"])
    if "i8" in kinds and fits(vals, "i8") and any(abs(v) > 2 ** 26 and not fits([v], "f4") for v in flat(vals)) and rng.random() < 0.7:
        return "i8"                                                                 # wide integers: mostly passed as int64
    k = rng.choice(list(kinds)) if rng.random() < p else "f8"
    return k if fits(vals, k) else "f8"
NOISE_EXPS = [0, 0, 0, -20, 20, -50, 50]

def rgrid_uv(rng, npix, K, lattice):
    """lattice 'quarter': coordinates and baselines multiples of 1/2 -> phases multiples of 1/4 turn (exact trig);
       'sixteenth': generic dyadic phases"""
    if lattice == "quarter":
        grid = [(Fraction(rng.randint(-6, 6), 2), Fraction(rng.randint(-6, 6), 2)) for _ in range(npix)]
        uv = [(Fraction(rng.randint(-6, 6), 2), Fraction(rng.randint(-6, 6), 2)) for _ in range(K)]
    else:
        grid = [(Fraction(rng.randint(-24, 24), 16), Fraction(rng.randint(-24, 24), 16)) for _ in range(npix)]
        uv = [(Fraction(rng.randint(-40, 40), 16), Fraction(rng.randint(-40, 40), 16)) for _ in range(K)]
    if K >= 2 and rng.random() < 0.35: uv[rng.randrange(K)] = (Fraction(0), Fraction(0))         # zero baseline
    if K >= 2 and rng.random() < 0.35: uv[rng.randrange(K)] = uv[rng.randrange(K)]               # repeated baseline
    uv = uv_special(rng, uv)
    r = rng.random()                                  # rare grids: every point on one axis / one point repeated / symmetric pairs
    if npix >= 1 and r < 0.06: grid = [(Fraction(0), x) for _, x in grid]
    elif npix >= 1 and r < 0.12: grid = [(y, Fraction(0)) for y, _ in grid]
    elif npix >= 2 and r < 0.16: grid = [grid[0]] * npix
    elif npix >= 2 and r < 0.22: grid = [grid[i // 2] if i % 2 == 0 else (-grid[i // 2][0], -grid[i // 2][1]) for i in range(npix)]
    return grid, uv
def uv_special(rng, uv):
    """rare baseline sets: all zero, u = 0 for every baseline, v = 0 for every baseline, u = v, +-pairs (Hermitian)"""
    K = len(uv); r = rng.random()
    if K >= 1 and r < 0.05: return [(Fraction(0), Fraction(0))] * K
    if K >= 1 and r < 0.11: return [(Fraction(0), v) for _, v in uv]
    if K >= 1 and r < 0.17: return [(u, Fraction(0)) for u, _ in uv]
    if K >= 1 and r < 0.20: return [(u, u) for u, _ in uv]
    if K >= 2 and r < 0.26: return [uv[i // 2] if i % 2 == 0 else (-uv[i // 2][0], -uv[i // 2][1]) for i in range(K)]
    return uv

def rmask(rng, maxdim=5, maxpix=16):
    H, W = rng.randint(1, maxdim), rng.randint(1, maxdim)
    style = rng.choice(["random", "random", "random", "full", "single", "ring", "empty"])
    if style == "full": m = [[False] * W for _ in range(H)]
    elif style == "empty": m = [[True] * W for _ in range(H)]
    elif style == "single":
        m = [[True] * W for _ in range(H)]; m[rng.randrange(H)][rng.randrange(W)] = False
    elif style == "ring": m = [[not (y in (0, H - 1) or x in (0, W - 1)) for x in range(W)] for y in range(H)]
    else:
        p = rng.choice([0.2, 0.5, 0.8])
        m = [[rng.random() > p for _ in range(W)] for _ in range(H)]
    while sum(1 for r in m for b in r if not b) > maxpix:
        m[rng.randrange(H)][rng.randrange(W)] = True
    return m

def rgeom(rng):
    m = rmask(rng)
    sy = rng.choice(SCALES); sx = sy if rng.random() < 0.4 else rng.choice(SCALES)
    oy, ox = (Fraction(0), Fraction(0)) if rng.random() < 0.5 else (Fraction(rng.randint(-6, 6), 4), Fraction(rng.randint(-6, 6), 4))
    return {"m": m, "sy": S(sy), "sx": S(sx), "oy": S(oy), "ox": S(ox)}

def ruv_class(rng, K):
    style = rng.choice(["big", "big", "mixed", "small"])
    uv = []
    for _ in range(K):
        if style == "small": uv.append((Fraction(rng.randint(-9, 9)), Fraction(rng.randint(-9, 9))))
        elif style == "mixed" and rng.random() < 0.5: uv.append((Fraction(rng.randint(-50, 50), 4), Fraction(rng.randint(-50, 50), 4)))
        else: uv.append((Fraction(rng.randint(-200, 200) * 1000), Fraction(rng.randint(-200, 200) * 1000 + rng.randint(0, 999))))
    if K >= 2 and rng.random() < 0.35: uv[rng.randrange(K)] = (Fraction(0), Fraction(0))
    if K >= 2 and rng.random() < 0.35: uv[rng.randrange(K)] = uv[rng.randrange(K)]
    return uv_special(rng, uv)

def npix_of(m): return sum(1 for r in m for b in r if not b)
LAYOUTS = ["c", "c", "f", "view"]

def gen_util(tier, rng):
    n = 440 if tier == "thorough" else 44
    util_ops = ["preload", "vispre", "vis", "image", "tmmpre", "tmm", "data", "recon"]
    first = None
    for i in range(n):
        # batches come in sibling PAIRS with identical shapes (npix, K, P); the second batch keeps all ingredients of the first
        # except ONE group (the linear arguments, or the grid / tables, or the baselines / noise): a result remembered under a
        # key that omits that ingredient (shapes only, shapes + checksum of the matrix, ...) shows in the second batch
        lattice = "quarter" if (i // 2) % 2 else "sixteenth"
        if i % 2 == 0 or first is None:
            shapes = (rng.choice([0, 1, 2, 3, 5, 8, 12]), rng.choice([0, 1, 2, 3, 5, 8]), rng.choice([0, 1, 2, 3, 4]))
            keep = set()
        else:
            shapes = first["shapes"]; keep = rng.choice([{"values"}, {"values", "uv"}, {"grid", "uv"}, {"grid", "values"}, set()])
        npix, K, P = shapes
        grid, uv = rgrid_uv(rng, npix, K, lattice)
        cur = {"shapes": shapes, "grid": [Sv(g) for g in grid], "uv": [Sv(u) for u in uv]}
        def pick(name, group, make):
            """ingredient [name] of this batch: the first batch's if its group is kept, else fresh"""
            cur[name] = first[name] if group in keep and first is not None and name in first else make()
            return cur[name]
        if "grid" in keep: cur["grid"] = first["grid"]
        if "uv" in keep: cur["uv"] = first["uv"]
        # (f) the grid / the baselines as float32 or int64 arrays where their values allow it (lattice products stay exact)
        base = {"grid": cur["grid"], "uv": cur["uv"], "lattice": lattice,
                "gdt": pick_dt(rng, cur["grid"], ("f4", "i8"), 0.25), "udt": pick_dt(rng, cur["uv"], ("f4", "i8"), 0.3)}
        # np.pi is a Python float: float32 * float32 * (-2.0 * np.pi) stays float32 (cos evaluated in single precision, a
        # property of the INPUT dtype, not a defect): never both narrow
        if base["gdt"] == "f4" and base["udt"] == "f4": base["udt"] = "f8"
        def tabs(op):
            # tables with generic small-integer entries, or rare tables: a column (baseline) of zeros, real = -imaginary
            def make():
                R = [[Fraction(rng.randint(-4, 4)) for _ in range(K)] for _ in range(npix)]
                I = [[Fraction(rng.randint(-4, 4)) for _ in range(K)] for _ in range(npix)]
                r = rng.random()
                if K >= 1 and r < 0.1:
                    k = rng.randrange(K)
                    for row in R + I: row[k] = Fraction(0)
                elif r < 0.2: I = [[-x for x in row] for row in R]
                return Sm(R), Sm(I)
            if "grid" in keep and first is not None and op + "R" in first: cur[op + "R"], cur[op + "I"] = first[op + "R"], first[op + "I"]
            else: cur[op + "R"], cur[op + "I"] = make()
            return cur[op + "R"], cur[op + "I"]
        for op in util_ops:
            d = dict(base, op=op, lay=rng.choice(LAYOUTS))
            if op in ("vis",):
                d["img"] = pick("vis_img", "values", lambda: Sv(rvals(rng, npix, sparse=(i % 3 == 0), e=rexp(rng), q="u.vis")))
                d["dt"] = pick_dt(rng, d["img"])
            elif op in ("vispre", "tmmpre"):
                for k in ("grid", "uv", "gdt", "udt"): d.pop(k)
                d["K"] = K
                d["preR"], d["preI"] = tabs(op)
                if op == "vispre": d["img"] = pick("vispre_img", "values", lambda: Sv(rvals(rng, npix, sparse=(i % 3 == 0), e=rexp(rng), q="u.vispre")))
                else:
                    d["P"] = P; d["M"] = pick("tmmpre_M", "values", lambda: Sm(rmat(rng, npix, P, q="u.tmmpre")))
                # at most ONE of (linear argument, tables) in a narrower dtype: the other stays float64
                if rng.random() < 0.5: d["dt"] = pick_dt(rng, d.get("img", d.get("M")), ("i8", "f4", "b1") if op == "tmmpre" else ("i8", "f4"))
                else: d["tdt"] = pick_dt(rng, [d["preR"], d["preI"]], ("i8", "f4"), 0.3)
            elif op == "image":
                r = rng.random()
                d["n"] = npix if r < 0.7 else (rng.randint(0, npix) if r < 0.85 else npix + rng.randint(1, 2))
                d["vis"] = pick("image_vis", "values", lambda: [Sv(v) for v in rcv(rng, K, e=rexp(rng), q="u.image")])
                d["dt"] = pick_dt(rng, d["vis"])
            elif op == "tmm":
                d["P"] = P; d["M"] = pick("tmm_M", "values", lambda: Sm(rmat(rng, npix, P, q="u.tmm")))
                d["dt"] = pick_dt(rng, d["M"], ("i8", "f4", "b1"))
            elif op == "data":
                e1, e2, e3 = rexp(rng), rexp(rng), rng.choice(NOISE_EXPS)
                d = {"op": op, "P": P, "TM": pick("data_TM", "grid", lambda: [[Sv(c) for c in rcv(rng, P, e=e1)] for _ in range(K)]),
                     "vis": pick("data_vis", "values", lambda: [Sv(v) for v in rcv(rng, K, e=e2, q="u.data")]),
                     "noise": pick("data_noise", "uv", lambda: [Sv(v) for v in rnoise(rng, K, e=e3)]), "lay": d["lay"]}
                d["vdt"] = pick_dt(rng, d["vis"], ("f4",), 0.25); d["ndt"] = pick_dt(rng, d["noise"], ("f4",), 0.25)
            elif op == "recon":
                d = {"op": op, "P": P, "TM": pick("recon_TM", "grid", lambda: [[Sv(c) for c in rcv(rng, P, e=rexp(rng))] for _ in range(K)]),
                     "s": pick("recon_s", "values", lambda: Sv(rvals(rng, P, e=rexp(rng), q="u.recon"))), "lay": d["lay"]}
                d["dt"] = pick_dt(rng, d["s"])
            yield d
        if i % 2 == 0: first = cur

# (f) input kinds / construction variety at the class layer.  Every field is optional (absent = the plain form), so that
# older corpus replays keep their meaning.
VFORMS = ["c16", "c16", "c8", "pairs_arr", "pairs_list", "clist", "noise_cls", "sub"]
RR_FORMS = ["sub", "c16", "noise_cls", "pairs_arr", "c8", "clist", "pairs_list"]
def pick_vform(rng, vals, p=0.5, rr=None):
    """how a Visibilities argument is built: complex128 / complex64 ndarray, (K,2) float ndarray, list of [re, im], list of
       Python complex, an instance of the library SUBCLASS VisibilitiesNoiseMap, an instance of a user subclass"""
    if len(vals) == 0: return "c16"
    if rr is not None: f = RR_FORMS[rr % len(RR_FORMS)]          # round-robin: every form a regular part of the stream
    elif rng.random() >= p: return "c16"
    else: f = rng.choice(VFORMS)
    return f if f != "c8" or fits(vals, "f4") else "c16"
def mask_how(rng):
    return {"form": rng.choice(["nd", "nd", "list", "invert", "all_false"]), "scalar": rng.random() < 0.5,
            "omit_origin": rng.random() < 0.5, "sub": rng.random() < 0.25}
def gen_class(tier, rng):
    m = 500 if tier == "thorough" else 40
    ninv = 0
    for i in range(m):
        g = rgeom(rng); npix = npix_of(g["m"])
        K = rng.choice([0, 1, 2, 3, 4, 6, 8]) if i % 7 == 0 else rng.choice([1, 2, 3, 4, 6, 8])
        uv = ruv_class(rng, K)
        base = {"geom": g, "uv": [Sv(u) for u in uv]}
        def kinds():          # drawn afresh for every case of this geometry
            return {"mhow": mask_how(rng) if rng.random() < 0.6 else None, "tsub": rng.random() < 0.2,
                    "udt": pick_dt(rng, base["uv"], ("i8", "f4"), 0.35)}
        def pre(b):           # preload_transform: True, False, or the argument omitted (the default, on)
            return None if b and rng.random() < 0.35 else b
        if i % 9 == 0: yield dict(base, op="tgrid", **kinds())
        img = Sv(rvals(rng, npix, sparse=(i % 3 == 0), e=rexp(rng), q="c.tvis"))
        yield dict(base, op="tvis", preload=pre(bool(i % 2)), native=bool((i // 2) % 2), img=img,
                   idt=pick_dt(rng, img), isub=rng.random() < 0.2, ind=rng.random() < 0.5, **kinds())
        if i % 10 == 5 and npix > 0:
            # (f) directed: an int64 image / matrix with 30-50 significant bits, slim stored, through BOTH branches (preload on /
            # off): a buffer or conversion that narrows the input (float32, int32) loses >= 1e-8 relative
            wimg = Sv(rvals(rng, npix, special="wide")); wM = Sm([rvals(rng, 2, special="wide") for _ in range(npix)])
            for pb in (True, False):
                yield dict(base, op="tvis", preload=pb, native=False, img=wimg, idt=pick_dt(rng, wimg, ("i8",), 1.0), isub=False, ind=True, **kinds())
                yield dict(base, op="ttmm", preload=pb, P=2, M=wM, lay="c", dt=pick_dt(rng, wM, ("i8",), 1.0), **kinds())
        vis = [Sv(v) for v in rcv(rng, K, e=rexp(rng), q="c.timage")]
        yield dict(base, op="timage", preload=pre(bool(i % 2)), vis=vis, vform=pick_vform(rng, vis, rr=i),
                   dot_img=Sv(rvals(rng, npix, e=rexp(rng))), **kinds())
        P = rng.choice([0, 1, 2, 3, 4]) if i % 5 == 0 else rng.choice([1, 2, 3])
        if True:                      # also the fully masked geometry (0 x P matrix)
            M = Sm(rmat(rng, npix, P, q="c.ttmm"))
            yield dict(base, op="ttmm", preload=pre(bool((i // 2) % 2)), P=P, M=M, lay=rng.choice(LAYOUTS),
                       dt=pick_dt(rng, M, ("i8", "f4", "b1")), **kinds())
        if i % 2 == 1:
            # sibling entry point: SimulatorInterferometer(noise off).via_image_from builds its own TransformerDFT over
            # image.mask; the simulated data are the transform of the image
            img = Sv(rvals(rng, npix, sparse=(i % 3 == 0), e=rexp(rng), p_special=0.7, q="c.sim"))
            yield dict(base, op="sim", img=img, tclass=rng.choice(["default", "explicit", "sub"]), native=rng.random() < 0.3,
                       **dict(kinds(), tsub=False))
        if npix > 0 and K > 0 and (tier == "thorough" or i % 2 == 0):
            nobj = rng.choice([1, 1, 2, 3])
            objs = []
            for _ in range(nobj):
                Pi = 2 if (i // 2) % 4 == 1 else rng.choice([1, 1, 2, 3])
                # one inversion in four has an object whose columns cancel one another exactly (col_b = -col_a: the
                # transformed columns, the stacked matrix and D cancel too, F does not)
                Mo = Sm(rmat(rng, npix, Pi, mag=(i % 4 == 0), mode="negcol")) if Pi >= 2 and (i // 2) % 4 == 1 else \
                     Sm(rmat(rng, npix, Pi, mag=(i % 4 == 0), q="c.inv.M"))
                objs.append({"P": Pi, "M": Mo, "reg": rng.random() < 0.5, "dt": pick_dt(rng, Mo, ("i8", "f4", "b1"), 0.3),
                             "cls": rng.choice(["obj", "obj", "funclist"])})
            value = rng.choice(["default", "default", "1/8", "1", "2", "0"])
            en = rng.choice(NOISE_EXPS)
            data = [Sv(v) for v in rcv(rng, K, e=rexp(rng), q="c.inv.data")]; noise = [Sv(v) for v in rnoise(rng, K, e=en)]
            # the dataset: DatasetInterface around a caller-built transformer, or aa.Interferometer(transformer_class=
            # TransformerDFT) which builds its own (preload left at its default), or a user subclass of Interferometer
            dskind = ["interface", "interferometer", "interface", "interferometer_sub"][ninv % 4]; ninv += 1
            yield dict(base, op="inv", preload=bool(i % 2) if dskind == "interface" else True, objs=objs, data=data,
                       noise=noise, value=value, factory=bool(i % 3 == 0),
                       sibling=rng.choice(["M", "data", "noise", "reg"]) if i % 4 in (0, 2) else None,
                       dskind=dskind, settings="omitted" if value == "default" and rng.random() < 0.5 else "explicit",
                       dform=pick_vform(rng, data, rr=ninv), nform=pick_vform(rng, noise, rr=ninv // 2 + 3), recon=True,
                       preloads=rng.choice(["omitted", "explicit"]), sib_inplace=rng.random() < 0.5, **kinds())

# ---- histories: sibling transformers (differing in exactly ONE construction ingredient) alive in one interpreter, method
# ---- calls interleaved, arguments reused / derived / edited in place
def mask_cells(m): return [(y, x) for y, r in enumerate(m) for x, b in enumerate(r) if not b]
def mask_from_cells(H, W, cells):
    cs = set(cells); return [[(y, x) not in cs for x in range(W)] for y in range(H)]
def mask_variant(rng, m, kind):
    H, W = len(m), len(m[0]); cells = mask_cells(m); allc = [(y, x) for y in range(H) for x in range(W)]
    if kind == "shift":                       # cyclic shift by one pixel: same pixel count
        dy, dx = rng.choice([(0, 1), (1, 0), (0, -1), (-1, 0), (1, 1)])
        return mask_from_cells(H, W, [((y + dy) % H, (x + dx) % W) for y, x in cells])
    if kind == "perm": return mask_from_cells(H, W, rng.sample(allc, len(cells)))
    if kind == "move1":
        free = [c for c in allc if c not in cells]
        if not free or not cells: return [r[:] for r in m]
        out = cells[:]; out[rng.randrange(len(out))] = rng.choice(free); return mask_from_cells(H, W, out)
    if kind == "flip": return [r[::-1] for r in m][::-1]        # point reflection: same count
    if kind == "reshape":                    # same row-major contents, shape (W, H)
        flat = [b for r in m for b in r]; return [flat[y * H:(y + 1) * H] for y in range(W)]
    if kind == "transpose": return [[m[y][x] for y in range(H)] for x in range(W)]
    if kind == "count":                      # one pixel more or fewer
        free = [c for c in allc if c not in cells]
        if free and (len(cells) <= 1 or rng.random() < 0.5): return mask_from_cells(H, W, cells + [rng.choice(free)])
        if len(cells) >= 2: return mask_from_cells(H, W, cells[:-1])
    return [r[:] for r in m]

SIB_KINDS = ["shift", "origin", "perm", "scales", "move1", "uv_one", "flip", "reshape", "uv_rev", "count", "transpose", "uv_neg",
             "same", "preload"]
MASK_KINDS = ("shift", "perm", "move1", "flip", "count", "reshape", "transpose")

def rot(l): return l[1:] + l[:1]
def sibling_values(rng, kind, vals):
    """an argument of the same shape that a too-coarse key (shape, sum, norm, first entry ...) cannot tell from [vals]"""
    mode = rng.choice(["rot", "rot", "edit1", "neg", "scaled", "equal", "equal"])
    if mode == "rot": return mode, rot(vals)
    if mode == "neg":
        if kind == "vis": return mode, Sv([-F(x) for x in vals])
        if kind == "tmm": return mode, Sm([[-F(x) for x in r] for r in vals])
        return mode, [Sv([-F(a), -F(b)]) for a, b in vals]
    if mode == "scaled":
        c = Fraction(2) ** rng.choice([-10, -27, -30, -40, -60, 20])
        if kind == "vis": return mode, Sv([F(x) * c for x in vals])
        if kind == "tmm": return mode, Sm([[F(x) * c for x in r] for r in vals])
        return mode, [Sv([F(a) * c, F(b) * c]) for a, b in vals]
    if mode == "edit1" and len(vals) > 0:
        k = rng.randrange(len(vals)); out = [v[:] if isinstance(v, list) else v for v in vals]
        if kind == "vis": out[k] = S(F(out[k]) * 3 + Fraction(1, 4) * (F(out[k]) == 0))
        elif kind == "tmm":
            if out[k]: out[k][0] = S(F(out[k][0]) * 3 + Fraction(1, 4) * (F(out[k][0]) == 0))
        else: out[k] = [out[k][1], S(F(out[k][0]) + 1)]
        return mode, out
    return "equal", vals

def gen_hist_one(rng, h=0):
    H, W = rng.choice([(1, 3), (2, 2), (2, 3), (3, 2), (3, 3), (2, 4), (4, 3), (3, 4)])
    if SIB_KINDS[h % len(SIB_KINDS)] in ("reshape", "transpose"): H, W = rng.choice([(2, 3), (3, 2), (2, 4), (4, 3), (3, 4)])
    n = rng.randint(1, min(H * W - 1, 5))
    m0 = mask_from_cells(H, W, rng.sample([(y, x) for y in range(H) for x in range(W)], n))
    sy = rng.choice(SCALES); sx = sy if rng.random() < 0.3 else rng.choice(SCALES)
    oy, ox = (Fraction(0), Fraction(0)) if rng.random() < 0.5 else (Fraction(rng.randint(-6, 6), 4), Fraction(rng.randint(-6, 6), 4))
    g0 = {"m": m0, "sy": S(sy), "sx": S(sx), "oy": S(oy), "ox": S(ox)}
    K = rng.choice([1, 2, 2, 3, 4])
    uv0 = [Sv(u) for u in ruv_class(rng, K)]
    steps = []
    masks, uvs, trs = [], [], []        # python-side object tables mirrored by run_hist
    def add_mask(g, edit=None):
        if edit is None:
            masks.append(g); steps.append({"s": "mask", "geom": g, "mhow": mask_how(rng) if rng.random() < 0.4 else None}); return len(masks) - 1
        masks[edit] = g; steps.append({"s": "mask", "geom": g, "edit": edit})
        for t in trs:
            if t["mask"] == edit: t["live"] = False
        return edit
    def add_uv(uv, edit=None):
        integral = all(Fraction(c).denominator == 1 for u in uv for c in u)
        if edit is None:
            uvs.append(uv); steps.append({"s": "uv", "uv": uv, "dtype": "int" if integral and rng.random() < 0.4 else
                                          "f4" if fits(uv, "f4") and rng.random() < 0.3 else "float",
                                          "lay": rng.choice(LAYOUTS)}); return len(uvs) - 1
        uvs[edit] = uv; steps.append({"s": "uv", "uv": uv, "edit": edit})
        for t in trs:
            if t["uv"] == edit: t["live"] = False
        return edit
    def add_tr(mk, uk, preload):
        trs.append({"mask": mk, "uv": uk, "live": True, "npix": npix_of(masks[mk]["m"]), "K": len(uvs[uk]), "geom": masks[mk]})
        steps.append({"s": "new", "mask": mk, "uv": uk, "preload": preload, "omit": bool(preload) and rng.random() < 0.3,
                      "tsub": rng.random() < 0.2})
    nid = [0]; last = {}; e_h = rexp(rng); called = set()
    def call(i, k, vals=None, mode=None, first=None):
        t = trs[i]; npix, Kt = t["npix"], t["K"]; nid[0] += 1
        st = {"s": k, "t": i, "id": nid[0]}
        if first is not None and mode in ("equal", "edit1", "rot") and rng.random() < 0.6:
            st["reuse"] = first["id"]                  # equal: the very same object again; edit1 / rot: edited in place
        if k == "vis":
            key = ("vis", npix); e = e_h if rng.random() < 0.6 else rexp(rng)
            if vals is None:
                if key in last and rng.random() < 0.5: vals = last[key]
                else: vals = Sv(rvals(rng, npix, sparse=rng.random() < 0.3, e=e, q="h.vis"))
            st.update(img=vals, how=rng.choice(["slim", "native", "store_native", "sum", "scaled", "sub", "dt"]), own_mask=rng.random() < 0.5,
                      dt=pick_dt(rng, vals, p=1.0))
        elif k == "tmm":
            if vals is None:
                P = rng.choice([1, 2, 2, 3]); key = ("tmm", npix, P)
                if key in last and rng.random() < 0.5: vals = last[key]
                else: vals = Sm(rmat(rng, npix, P, q="h.tmm"))
            else: P = first["P"]; key = ("tmm", npix, P)
            st.update(P=P, M=vals, how=rng.choice(["c", "f", "view"]), dt=pick_dt(rng, vals, ("i8", "f4", "b1"), 0.3))
        else:
            key = ("image", Kt)
            if vals is None:
                if key in last and rng.random() < 0.5: vals = last[key]
                else: vals = [Sv(v) for v in rcv(rng, Kt, e=e_h if rng.random() < 0.6 else rexp(rng), q="h.image")]
            st.update(vis=vals, how=rng.choice(["fresh", "sum", "form"]), vform=pick_vform(rng, vals, 1.0))
        last[key] = vals
        return st
    def emit_calls():
        """calls of every live transformer not called yet.  Per transformer: 1-3 kinds of call, often DOUBLED (a second call
        through the same object with a sibling argument: the same array object again, the same object edited in place, a
        rotation / negation / rescaling of the values, equal values in a new object).  First calls often take the values a
        sibling transformer was given.  The per-transformer sequences are merged at random (interleaved)."""
        seqs = []
        for i, t in enumerate(trs):
            if not t["live"] or i in called: continue
            called.add(i); seq = []
            kinds = rng.sample(["vis", "tmm", "image"], rng.choice([1, 2, 2, 3]))
            if "image" in kinds and len(kinds) == 1: kinds.append(rng.choice(["vis", "tmm"]))    # image_from alone never reads the tables
            for k in kinds:
                first = call(i, k); seq.append(first)
                if rng.random() < 0.5:
                    v0 = first["img"] if k == "vis" else first["M"] if k == "tmm" else first["vis"]
                    mode, v1 = sibling_values(rng, k, v0)
                    seq.append(call(i, k, vals=v1, mode=mode, first=first))
            seqs.append(seq)
        while any(seqs):
            q = rng.choice([q for q in seqs if q]); steps.append(q.pop(0))
    mk, uk = add_mask(g0), add_uv(uv0)
    # first round over the sibling kinds: tables preloaded; second round: alternating
    r = h % (2 * len(SIB_KINDS))
    pre0 = (rng.random() < 0.7) if h >= 2 * len(SIB_KINDS) else True if r < len(SIB_KINDS) else ((r - len(SIB_KINDS)) % 3 != 2)
    add_tr(mk, uk, pre0)
    nsib = rng.choice([1, 2, 2, 3])
    edit_at = rng.randrange(nsib) if h % 3 == 1 else None      # at most one in-place edit of a caller's object per history
    for si in range(nsib):
        src = rng.randrange(len(trs)) if si else 0
        if not trs[src]["live"]: src = max(i for i, t in enumerate(trs) if t["live"])
        g = masks[trs[src]["mask"]]; uv = uvs[trs[src]["uv"]]
        # the first sibling's kind goes round-robin over the histories so that every ingredient is varied alone several times
        kind = SIB_KINDS[h % len(SIB_KINDS)] if si == 0 else rng.choice(SIB_KINDS)
        if si == edit_at and kind not in MASK_KINDS[:5] + ("uv_one", "uv_rev", "uv_neg"):
            if si == 0: edit_at = 1 if nsib > 1 else None          # never replace the round-robin kind
            else: kind = rng.choice(["shift", "move1", "uv_one"])
        pre = pre0 if si == 0 or rng.random() < 0.75 else (not pre0)
        mk, uk = trs[src]["mask"], trs[src]["uv"]
        if kind in MASK_KINDS:
            g2 = dict(g, m=mask_variant(rng, g["m"], kind))
            same_shape = (len(g2["m"]), len(g2["m"][0])) == (len(g["m"]), len(g["m"][0]))
            if si == edit_at and same_shape:      # the caller edits ITS Mask2D in place, then builds the next transformer from it
                emit_calls(); mk = add_mask(g2, mk)
            else: mk = add_mask(g2)
        elif kind == "scales":
            g2 = dict(g, sy=g["sx"], sx=g["sy"]) if g["sy"] != g["sx"] else dict(g, sx=S(F(g["sx"]) * 2))
            mk = add_mask(g2)
        elif kind == "origin":
            g2 = dict(g, oy=S(F(g["oy"]) + Fraction(rng.choice([-2, -1, 1, 2]), 4)), ox=S(F(g["ox"]) + Fraction(rng.choice([-1, 0, 1]), 4)))
            mk = add_mask(g2)
        elif kind in ("uv_one", "uv_rev", "uv_neg"):
            uv2 = [list(u) for u in uv]
            if kind == "uv_one":
                k = rng.randrange(len(uv2)); uv2[k] = [S(F(uv2[k][0]) + rng.choice([-3, 1, 1000])), uv2[k][1]]
            elif kind == "uv_rev": uv2 = uv2[::-1] if len(uv2) > 1 and uv2 != uv2[::-1] else [[u[1], u[0]] for u in uv2]
            else: uv2 = [[S(-F(u[0])), S(-F(u[1]))] for u in uv2]
            if si == edit_at:
                emit_calls(); uk = add_uv(uv2, uk)
            else: uk = add_uv(uv2)
        elif kind == "preload": pre = not pre0
        elif kind == "same" and rng.random() < 0.5: mk = add_mask(dict(g))     # an equal but distinct Mask2D object
        add_tr(mk, uk, pre)
    emit_calls()
    return {"op": "hist", "steps": steps}

def gen_hist(tier, rng):
    for h in range(280 if tier == "thorough" else 28):
        yield gen_hist_one(rng, h)

def gen_inputs(tier, rng):
    QUOTA.__init__()
    yield from gen_util(tier, rng)
    yield from gen_class(tier, rng)
    yield from gen_hist(tier, rng)

# ----------------------------------------------------------------------------- running
def pairs(l): return [(Fraction(a), Fraction(b)) for a, b in l]
def lay(a, mode):
    """the same values through a different memory layout: C-contiguous, Fortran-ordered, or a strided view of a larger array"""
    a = np.array(a)
    if mode == "f" and a.ndim == 2: return np.asfortranarray(a)
    if mode == "view":
        if a.ndim == 2:
            big = np.full((a.shape[0] * 2 + 1, a.shape[1] * 2 + 1), 7, dtype=a.dtype); v = big[1::2, 1::2]
        else:
            big = np.full((a.shape[0] * 2 + 1,), 7, dtype=a.dtype); v = big[1::2]
        v[...] = a
        return v
    return a
RK = {"f8": np.float64, "f4": np.float32, "i8": np.int64, "b1": np.bool_}
CK = {"f8": np.complex128, "f4": np.complex64}
def as_dt(a, kind, table=RK):
    """the same values in another dtype; the harness itself checks that nothing was lost"""
    b = np.asarray(a).astype(table[kind or "f8"])
    if not np.array_equal(b.astype(np.asarray(a).dtype), np.asarray(a)): raise ValueError("harness: values do not fit dtype " + str(kind))
    return b
def grid_arr(g, mode="c", kind="f8"): return lay(as_dt(np.array(flm(g), dtype=float).reshape((len(g), 2)), kind), mode)
def same(a, b):
    a, b = np.asarray(a), np.asarray(b)
    return a.shape == b.shape and a.dtype == b.dtype and bool(np.all((a == b) | ((a != a) & (b != b))))

class Watch:
    """(d) the caller's arguments must hold the same values after the call; (a) a second identical call must return the same"""
    def __init__(self): self.items = []; self.ok = True; self.why = []
    def arg(self, name, a): self.items.append((name, a, np.array(a, copy=True))); return a
    def done(self):
        for name, a, snap in self.items:
            if not same(np.asarray(a), snap): self.ok = False; self.why.append("argument modified in place: " + name)
        self.items = []
    def twice(self, out, f):
        out2 = f()
        if not same(np.asarray(out), np.asarray(out2)): self.ok = False; self.why.append("second identical call returned a different result")
        self.done()

_SUB = {}
def subclasses(aa):
    """(f) trivial user subclasses of the accepted classes: dispatch on type(x) instead of isinstance shows on them"""
    if not _SUB:
        class VerifMask2D(aa.Mask2D): pass
        class VerifArray2D(aa.Array2D): pass
        class VerifVisibilities(aa.Visibilities): pass
        class VerifTransformerDFT(aa.TransformerDFT): pass
        class VerifInterferometer(aa.Interferometer): pass
        _SUB.update(mask=VerifMask2D, array=VerifArray2D, vis=VerifVisibilities, tr=VerifTransformerDFT, ds=VerifInterferometer)
    return _SUB
def mk_mask(aa, g, how=None):
    """Mask2D for the geometry g.  how (optional): the same mask through another constructor form -- a list of lists, the
       inverted array with invert=True, Mask2D.all_false (when nothing is masked), a scalar pixel scale (when sy = sx), the
       origin argument omitted (when it is (0, 0)), a user subclass"""
    how = how or {}
    H, W = len(g["m"]), len(g["m"][0])
    arr = np.array(g["m"], dtype=bool).reshape((H, W))
    sy, sx, oy, ox = float(F(g["sy"])), float(F(g["sx"])), float(F(g["oy"])), float(F(g["ox"]))
    cls = subclasses(aa)["mask"] if how.get("sub") else aa.Mask2D
    kw = {"pixel_scales": sy if how.get("scalar") and sy == sx else (sy, sx)}
    if not (how.get("omit_origin") and oy == 0.0 and ox == 0.0): kw["origin"] = (oy, ox)
    form = how.get("form", "nd")
    if form == "all_false" and not arr.any(): return cls.all_false(shape_native=(H, W), **kw)
    if form == "invert": return cls(mask=np.invert(arr), invert=True, **kw)
    if form == "list": return cls(mask=[[bool(b) for b in r] for r in g["m"]], **kw)
    return cls(mask=arr, **kw)
def mk_vis(aa, vals, form="c16", noise=False):
    """Visibilities (or VisibilitiesNoiseMap) holding vals = [(re, im)] through the constructor form [form]"""
    cls = aa.VisibilitiesNoiseMap if noise or form == "noise_cls" else subclasses(aa)["vis"] if form == "sub" else aa.Visibilities
    if form == "c8": a = as_dt(cplx(vals), "f4", CK)
    elif form == "pairs_arr": a = np.array(flm(vals), dtype=float).reshape((len(vals), 2))
    elif form == "pairs_list": a = flm(vals)
    elif form == "clist": a = [complex(float(x), float(y)) for x, y in vals]
    else: a = cplx(vals)
    V = cls(visibilities=a)
    if not (np.asarray(V).shape == (len(vals),) and np.array_equal(np.asarray(V), cplx(vals))):
        raise ValueError("harness: Visibilities form " + form + " does not carry the intended values")
    return V
def fingerprint(o, depth=3):
    """(g) value fingerprint of a (default-argument) object: its attributes, recursively"""
    if isinstance(o, np.ndarray): return ("nd", o.shape, str(o.dtype), o.tobytes())
    if isinstance(o, (list, tuple)): return tuple(fingerprint(x, depth) for x in o)
    if isinstance(o, dict): return tuple(sorted((str(k), fingerprint(v, depth)) for k, v in o.items()))
    if hasattr(o, "__dict__") and depth > 0 and not isinstance(o, type) and not callable(o):
        return (type(o).__name__,) + tuple(sorted((k, fingerprint(v, depth - 1)) for k, v in vars(o).items()))
    return repr(o)
def default_objects(aa):
    """the objects used as DEFAULT arguments by the entry points of this property (shared by all calls)"""
    import inspect
    from autoarray.inversion.inversion import factory
    from autoarray.inversion.inversion.interferometer.abstract import AbstractInversionInterferometer
    from autoarray.inversion.inversion.abstract import AbstractInversion
    fs = [aa.InversionInterferometerMapping.__init__, AbstractInversionInterferometer.__init__, AbstractInversion.__init__,
          factory.inversion_from, factory.inversion_interferometer_from, aa.Interferometer.__init__,
          aa.SimulatorInterferometer.__init__, aa.TransformerDFT.__init__]
    out = []
    for f in fs:
        for name, prm in inspect.signature(f).parameters.items():
            if prm.default is not inspect.Parameter.empty and hasattr(prm.default, "__dict__") and not isinstance(prm.default, type):
                out.append((f.__qualname__ + "." + name, prm.default))
    return out

def run_case(inp):
    aa = import_aa()
    from autoarray.operators import transformer_util as tu
    from autoarray.inversion.inversion.interferometer import inversion_interferometer_util as iu
    op = inp["op"]; L = inp.get("lay", "c"); DT = inp.get("dt")
    w = Watch()
    if "grid" in inp:
        grid = pairs(inp["grid"]); uv = pairs(inp["uv"])
        ga, ua = w.arg("grid", grid_arr(grid, L, inp.get("gdt"))), w.arg("uv", grid_arr(uv, L, inp.get("udt")))
        nontriv = len(grid) >= 2 and any(u != (0, 0) for u in uv)
    else:
        nontriv = True
    base = {"kind": op, "nontrivial": nontriv, "py_ok": None}
    def fin(d):
        if not w.ok: d["py_ok"] = False; d["detail"] = "; ".join(w.why)
        return d
    if op == "preload":
        R = tu.preload_real_transforms(grid_radians=ga, uv_wavelengths=ua)
        I = tu.preload_imag_transforms(ga, ua)
        w.twice(R, lambda: tu.preload_real_transforms(ga, ua))
        coq = f"(KPreload {ccv(grid)} {ccv(uv)} {cqm(rmout(R))} {cqm(rmout(I))})"
        return fin(dict(base, coq=coq, out=short([R.tolist(), I.tolist()])))
    if op == "vispre":
        K = inp["K"]; img = Fv(inp["img"]); preR = Fm(inp["preR"]); preI = Fm(inp["preI"])
        a = (w.arg("image", lay(as_dt(np.array(fl(img)), DT), L)), w.arg("preR", lay(as_dt(arr2(preR, K), inp.get("tdt")), L)),
             w.arg("preI", lay(as_dt(arr2(preI, K), inp.get("tdt")), L)))
        out = tu.visibilities_via_preload_jit_from(*a)
        w.twice(out, lambda: tu.visibilities_via_preload_jit_from(*a))
        coq = f"(KVisPre {cnat(K)} {cqv(img)} {cqm(preR)} {cqm(preI)} {ccv(cvout(out))})"
        return fin(dict(base, coq=coq, out=short(out.tolist()), nontrivial=len(img) >= 2 and K >= 1))
    if op == "vis":
        img = Fv(inp["img"]); ia = w.arg("image", lay(as_dt(np.array(fl(img)), DT), L))
        out = tu.visibilities_jit(ia, ga, ua)
        w.twice(out, lambda: tu.visibilities_jit(ia, ga, ua))
        return fin(dict(base, coq=f"(KVis {cqv(img)} {ccv(grid)} {ccv(uv)} {ccv(cvout(out))})", out=short(out.tolist())))
    if op == "image":
        vis = pairs(inp["vis"]); n = inp["n"]
        va = w.arg("visibilities", lay(as_dt(np.array(flm(vis), dtype=float).reshape((len(vis), 2)), DT), L))
        try:
            o = tu.image_via_jit_from(n, ga, ua, va); out = ("ok", rvout(o))
            w.twice(o, lambda: tu.image_via_jit_from(n, ga, ua, va))
        except Exception as e:
            out = ("raise", exn_name(e))
        return fin(dict(base, coq=f"(KImage {cnat(n)} {ccv(grid)} {ccv(uv)} {ccv(vis)} {cres(out, cqv)})", out=short(out)))
    if op == "tmmpre":
        K, P = inp["K"], inp["P"]; M = Fm(inp["M"]); preR = Fm(inp["preR"]); preI = Fm(inp["preI"])
        a = (w.arg("mapping_matrix", lay(as_dt(arr2(M, P), DT), L)), w.arg("preR", as_dt(arr2(preR, K), inp.get("tdt"))),
             w.arg("preI", as_dt(arr2(preI, K), inp.get("tdt"))))
        out = tu.transformed_mapping_matrix_via_preload_jit_from(*a)
        w.twice(out, lambda: tu.transformed_mapping_matrix_via_preload_jit_from(*a))
        coq = f"(KTmmPre {cnat(K)} {cnat(P)} {cqm(M)} {cqm(preR)} {cqm(preI)} {ccm(cmout(out))})"
        return fin(dict(base, coq=coq, out=short(out.tolist()), nontrivial=len(M) >= 2 and K >= 1 and P >= 1))
    if op == "tmm":
        P = inp["P"]; M = Fm(inp["M"]); ma = w.arg("mapping_matrix", lay(as_dt(arr2(M, P), DT), L))
        out = tu.transformed_mapping_matrix_jit(ma, ga, ua)
        w.twice(out, lambda: tu.transformed_mapping_matrix_jit(ma, ga, ua))
        return fin(dict(base, coq=f"(KTmm {cnat(P)} {cqm(M)} {ccv(grid)} {ccv(uv)} {ccm(cmout(out))})", out=short(out.tolist())))
    if op == "data":
        P = inp["P"]; TM = [pairs(r) for r in inp["TM"]]; vis = pairs(inp["vis"]); noise = pairs(inp["noise"])
        tm = w.arg("transformed_mapping_matrix", lay(np.array([[complex(float(a), float(b)) for a, b in r] for r in TM], dtype=complex).reshape((len(TM), P)), L))
        va, na = w.arg("visibilities", as_dt(cplx(vis), inp.get("vdt"), CK)), w.arg("noise_map", as_dt(cplx(noise), inp.get("ndt"), CK))
        out = iu.data_vector_via_transformed_mapping_matrix_from(tm, va, na)
        w.twice(out, lambda: iu.data_vector_via_transformed_mapping_matrix_from(tm, va, na))
        return fin(dict(base, coq=f"(KData {cnat(P)} {ccm(TM)} {ccv(vis)} {ccv(noise)} {cqv(rvout(out))})", out=short(out.tolist()),
                        nontrivial=P >= 1 and len(TM) >= 2))
    if op == "recon":
        P = inp["P"]; TM = [pairs(r) for r in inp["TM"]]; s = Fv(inp["s"])
        tm = w.arg("transformed_mapping_matrix", lay(np.array([[complex(float(a), float(b)) for a, b in r] for r in TM], dtype=complex).reshape((len(TM), P)), L))
        sa = w.arg("reconstruction", as_dt(np.array(fl(s)), DT))
        out = iu.mapped_reconstructed_visibilities_from(tm, sa)
        w.twice(out, lambda: iu.mapped_reconstructed_visibilities_from(tm, sa))
        return fin(dict(base, coq=f"(KRecon {ccm(TM)} {cqv(s)} {ccv(cvout(out))})", out=short(out.tolist()),
                        nontrivial=P >= 1 and len(TM) >= 2))
    if op == "hist": return run_hist(aa, inp, base)
    return run_class(aa, inp, base)

def close(a, b, scale, t=1e-12):
    """|a - b| <= t * scale element-wise (scale: the l1 norm of the linear argument, scalar or per column)"""
    a, b = np.asarray(a), np.asarray(b)
    return a.shape == b.shape and bool(np.all(np.abs(a - b) <= t * np.asarray(scale, dtype=float)))
def l1f(v): return float(sum(abs(Fraction(x)) for x in v))

def run_class(aa, inp, base):
    op = inp["op"]; g = inp["geom"]; uv = pairs(inp["uv"])
    mask = mk_mask(aa, g, inp.get("mhow"))
    npix = npix_of(g["m"])
    ua = as_dt(np.array(flm(uv), dtype=float).reshape((len(uv), 2)), inp.get("udt"))
    base["nontrivial"] = npix >= 2 and any(u != (0, 0) for u in uv)
    G = cgeom(g); U = ccv(uv); Pi = cq(PI)
    w = Watch(); w.arg("uv_wavelengths", ua); w.arg("real_space_mask", mask)
    defaults = default_objects(aa); fp0 = [fingerprint(d) for _, d in defaults]
    def tr(preload, sub=False, m=None):
        cls = subclasses(aa)["tr"] if sub else aa.TransformerDFT
        kw = {} if preload is None else {"preload_transform": preload}         # None: the argument omitted (default: on)
        return cls(uv_wavelengths=ua, real_space_mask=mask if m is None else m, **kw)
    pre_model = True if inp.get("preload") is None else inp["preload"]
    def fin(d):
        w.done()
        for (name, dobj), f0 in zip(defaults, fp0):
            if fingerprint(dobj) != f0: w.ok = False; w.why.append("shared default argument object modified: " + name)
        if not w.ok: d["py_ok"] = False; d["detail"] = "; ".join(w.why + [str(d.get("detail") or "")])
        return d
    if op == "tgrid":
        t = tr(False, inp.get("tsub"))
        out = [(frac(y), frac(x)) for y, x in np.array(t.grid).reshape((npix, 2))]
        ok = tuple(t.shape) == (len(uv), npix) and t.total_image_pixels == npix and t.total_visibilities == len(uv)
        return fin(dict(base, coq=f"(KTGrid {Pi} {G} {ccv(out)})", out=short(out), py_ok=ok))
    if op == "tvis":
        img = Fv(inp["img"]); sc = l1f(img)
        def image(native, plain=True):
            if plain: return aa.Array2D(values=fl(img), mask=mk_mask(aa, g)).native if native else aa.Array2D(values=fl(img), mask=mk_mask(aa, g))
            vals = as_dt(np.array(fl(img)), inp.get("idt"))                          # int64 / float32 / float64 values
            cls = subclasses(aa)["array"] if inp.get("isub") else aa.Array2D
            im = cls(values=vals if inp.get("ind") or inp.get("idt") not in (None, "f8") else fl(img), mask=mask)
            return im.native if native else im
        t = tr(inp["preload"], inp.get("tsub")); im0 = w.arg("image", image(inp["native"], plain=False))
        if not same(np.array(im0.slim, dtype=float), np.array(fl(img))): raise ValueError("harness: image does not carry the intended values")
        res = t.visibilities_from(image=im0); out = np.array(res)
        if not (isinstance(res, aa.Visibilities) and out.dtype == np.complex128 and out.shape == (len(uv),)):
            w.ok = False; w.why.append("visibilities_from: type / dtype / shape of the result")
        w.twice(out, lambda: np.array(t.visibilities_from(image=im0)))       # the same object evaluated twice
        # relations: preload on = off; native storage = slim storage (plain classes, plain float images)
        others = [np.array(aa.TransformerDFT(uv_wavelengths=np.array(flm(uv), dtype=float).reshape((len(uv), 2)), real_space_mask=mk_mask(aa, g),
                                             preload_transform=p_).visibilities_from(image=image(nat)))
                  for p_ in (True, False) for nat in (True, False)]
        ok = all(close(o, out, sc) for o in others)
        return fin(dict(base, coq=f"(KTVis {Pi} {G} {U} {cbool(pre_model)} {cqv(img)} {ccv(cvout(out))})", out=short(out.tolist()),
                        py_ok=ok, detail=None if ok else short([o.tolist() for o in others])))
    if op == "sim":
        # SimulatorInterferometer with the noise switched off: data = transform of the image through a TransformerDFT that the
        # simulator builds itself over image.mask (preload at its default)
        img = Fv(inp["img"])
        im = aa.Array2D(values=fl(img), mask=mask); im0 = w.arg("image", im.native if inp.get("native") else im)
        kw = {} if inp["tclass"] == "default" else {"transformer_class": subclasses(aa)["tr"] if inp["tclass"] == "sub" else aa.TransformerDFT}
        sim = aa.SimulatorInterferometer(uv_wavelengths=ua, exposure_time=1.0, noise_sigma=None, **kw)
        ds = sim.via_image_from(image=im0)
        out = np.array(ds.data)
        ds2 = sim.via_image_from(image=im0)                                     # the same simulator object again
        ok = (same(out, np.array(ds2.data)) and isinstance(ds.transformer, aa.TransformerDFT)
              and same(np.array(ds.noise_map), np.full((len(uv),), 0.1 + 0.1j))
              and same(np.array(ds.uv_wavelengths, dtype=float), np.array(flm(uv), dtype=float).reshape((len(uv), 2)))
              and same(np.array(ds.transformer.visibilities_from(image=im0)), out)
              and isinstance(ds.data, aa.Visibilities) and isinstance(ds.noise_map, aa.VisibilitiesNoiseMap))
        return fin(dict(base, coq=f"(KTVis {Pi} {G} {U} true {cqv(img)} {ccv(cvout(out))})", out=short(out.tolist()), py_ok=ok))
    if op == "timage":
        vis = pairs(inp["vis"])
        t = tr(inp["preload"], inp.get("tsub"))
        V = w.arg("visibilities", mk_vis(aa, vis, inp.get("vform", "c16")))
        res = t.image_from(visibilities=V)
        out = np.array(res.slim)
        w.twice(out, lambda: np.array(t.image_from(visibilities=V).slim))
        ok = res.shape_native == mask.shape_native and bool(np.all(np.array(res.native)[np.array(mask)] == 0.0))
        ok = ok and out.dtype == np.float64 and isinstance(res, aa.Array2D)
        # adjoint (dot) test: Re <V, A I> = <image_from(V), I>
        I = Fv(inp["dot_img"])
        AI = np.array(t.visibilities_from(image=aa.Array2D(values=fl(I), mask=mask)))
        lhs = float(np.sum(np.real(np.conj(cplx(vis)) * AI))); rhs = float(np.dot(out, np.array(fl(I)))) if npix else 0.0
        ok = ok and abs(lhs - rhs) <= 1e-9 * l1f([c for v in vis for c in v]) * l1f(I)
        return fin(dict(base, coq=f"(KTImage {Pi} {G} {U} {ccv(vis)} {cqv(rvout(out))})", out=short(out.tolist()), py_ok=ok,
                        detail=None if ok else short([lhs, rhs])))
    if op == "ttmm":
        P = inp["P"]; M = Fm(inp["M"]); Ma = w.arg("mapping_matrix", lay(as_dt(arr2(M, P), inp.get("dt")), inp.get("lay", "c")))
        cs = [l1f([r[j] for r in M]) for j in range(P)]
        t = tr(inp["preload"], inp.get("tsub"))
        out = t.transform_mapping_matrix(mapping_matrix=Ma)
        w.twice(out, lambda: t.transform_mapping_matrix(mapping_matrix=Ma))
        other = tr(not pre_model).transform_mapping_matrix(mapping_matrix=arr2(M, P))
        ok = out.shape == (len(uv), P) and out.dtype == np.complex128 and close(other, out, np.array(cs).reshape((1, P)))
        for j in range(P):     # column-wise: the operator applied to column j
            col = np.array(t.visibilities_from(image=aa.Array2D(values=arr2(M, P)[:, j], mask=mask)))
            ok = ok and close(out[:, j], col, cs[j])
        return fin(dict(base, coq=f"(KTTmm {Pi} {G} {U} {cbool(pre_model)} {cnat(P)} {cqm(M)} {ccm(cmout(out))})",
                        out=short(out.tolist()), py_ok=ok))
    if op == "inv":
        data = pairs(inp["data"]); noise = pairs(inp["noise"])
        dskind = inp.get("dskind", "interface")
        dv = w.arg("data", mk_vis(aa, data, inp.get("dform", "c16")))
        nv = w.arg("noise_map", mk_vis(aa, noise, inp.get("nform", "c16"), noise=True))
        if dskind == "interface":
            t = tr(inp["preload"], inp.get("tsub"))
            ds = aa.DatasetInterface(data=dv, noise_map=nv, transformer=t)
        else:      # the dataset class builds the transformer itself (preload_transform at its default)
            dcls = subclasses(aa)["ds"] if dskind == "interferometer_sub" else aa.Interferometer
            ds = dcls(data=dv, noise_map=nv, uv_wavelengths=ua, real_space_mask=mask, transformer_class=aa.TransformerDFT)
            t = ds.transformer
        def lin(o, Mk):
            cls = aa.m.MockLinearObjFuncList if o.get("cls") == "funclist" else aa.m.MockLinearObj
            return cls(parameters=o["P"], mapping_matrix=Mk, regularization=aa.reg.Constant(coefficient=1.0) if o["reg"] else None)
        objs = []
        for k, o in enumerate(inp["objs"]):
            objs.append(lin(o, w.arg(f"mapping_matrix[{k}]", as_dt(arr2(Fm(o["M"]), o["P"]), o.get("dt")))))
        if inp.get("settings") == "omitted": settings = None        # the shared default SettingsInversion() / Preloads() objects
        elif inp["value"] == "default": settings = aa.SettingsInversion(use_w_tilde=False)
        else: settings = aa.SettingsInversion(use_w_tilde=False, no_regularization_add_to_curvature_diag_value=float(F(inp["value"])))
        skw = {} if settings is None else {"settings": settings}
        pre_obj = aa.Preloads() if inp.get("preloads") == "explicit" else None    # (g) one caller-owned Preloads object for ALL inversions of this case
        if pre_obj is not None: skw["preloads"] = pre_obj
        pfp = fingerprint(pre_obj)
        value = frac((settings or aa.SettingsInversion()).no_regularization_add_to_curvature_diag_value)
        sfp = fingerprint(settings)
        def make(ds_=None, objs_=None):
            f = aa.Inversion if inp["factory"] else aa.InversionInterferometerMapping
            return f(dataset=ds_ or ds, linear_obj_list=objs_ or objs, **skw)
        inv = make()
        ok = type(inv).__name__ == "InversionInterferometerMapping"
        # order of first access varies: F before D before T, or T, D, F
        if len(data) % 2:
            Fm_ = np.array(inv.curvature_matrix); D = np.array(inv.data_vector); T = np.array(inv.operated_mapping_matrix)
        else:
            T = np.array(inv.operated_mapping_matrix); D = np.array(inv.data_vector); Fm_ = np.array(inv.curvature_matrix)
        ok = ok and T.dtype == np.complex128 and D.dtype == np.float64 and Fm_.dtype == np.float64
        # read again through the same object, and through a second inversion over the same transformer / objects
        inv2 = make()
        for a, b in ((T, inv.operated_mapping_matrix), (D, inv.data_vector), (Fm_, inv.curvature_matrix),
                     (D, inv2.data_vector), (Fm_, inv2.curvature_matrix), (T, inv2.operated_mapping_matrix)):
            if not same(a, np.array(b)): ok = False
        def kinv(objs_d, data_, noise_, T_, D_, F_):
            cobjs = clist([ctup([cnat(o["P"]), cqm(Fm(o["M"])), cbool(o["reg"])]) for o in objs_d])
            return (f"(KInv {Pi} {G} {U} {cbool(pre_model)} {cobjs} {ccv(data_)} {ccv(noise_)} {cq(value)} "
                    f"{ccm(cmout(T_))} {cqv(rvout(D_))} {cqm(rmout(F_))})")
        coq = kinv(inp["objs"], data, noise, T, D, Fm_)
        extra = []
        if inp.get("recon"):
            # sibling observation: the per-object reconstructed visibilities (mapped_reconstructed_data_dict) are the
            # object's transformed matrix applied to its slice of the reconstruction.  The solver is NOT part of this
            # property: the reconstruction the implementation found is an INPUT of the KRecon case; when the solve
            # fails (singular system) the observation is dropped.
            try:
                srec = np.array(inv.reconstruction, dtype=float); dd = inv.mapped_reconstructed_data_dict
            except Exception:
                srec = None
            if srec is not None and bool(np.all(np.isfinite(srec))):
                Tl = [np.array(x) for x in inv.operated_mapping_matrix_list]
                ok = ok and same(np.hstack(Tl), T) and len(dd) == len(set(id(o) for o in objs))
                Vs = [dd[ob] for ob in objs]
                ok = ok and all(isinstance(V_, aa.Visibilities) for V_ in Vs) and srec.shape == (sum(o["P"] for o in inp["objs"]),)
                cobjs = clist([ctup([cnat(o["P"]), cqm(Fm(o["M"])), cbool(o["reg"])]) for o in inp["objs"]])
                extra.append(f"(KInvRecon {Pi} {G} {U} {cbool(pre_model)} {cobjs} {cqv(rvout(srec))} "
                             f"{clist([ccv(cvout(np.array(V_))) for V_ in Vs])})")
                # F and D re-read AFTER the solve (curvature_reg_matrix adds the regularization matrix in place)
                for a, b in ((D, inv.data_vector), (Fm_, inv.curvature_matrix), (T, inv.operated_mapping_matrix)):
                    if not same(a, np.array(b)): ok = False
        sib = inp.get("sibling")
        if sib:
            # a second inversion in the same interpreter through the SAME transformer object (and the same settings object),
            # one ingredient replaced by a sibling of the same shape (rows rotated / regularization flags flipped):
            # compared with the model independently
            objs_d = [dict(o) for o in inp["objs"]]; data2, noise2 = data, noise
            if sib == "M": objs_d = [dict(o, M=o["M"][1:] + o["M"][:1]) for o in objs_d]
            elif sib == "reg": objs_d = [dict(o, reg=not o["reg"]) for o in objs_d]
            elif sib == "data": data2 = data[1:] + data[:1] if len(set(data)) > 1 else [(a + 1, b) for a, b in data]
            else: noise2 = noise[1:] + noise[:1] if len(set(noise)) > 1 else [(a * 2, b) for a, b in noise]
            if (inp.get("sib_inplace") and sib in ("data", "noise") and np.asarray(dv).dtype == np.complex128
                    and np.asarray(nv).dtype == np.complex128 and ds.data is dv and ds.noise_map is nv):
                # (c) the caller EDITS the dataset's own Visibilities / noise map in place and builds a new inversion over the
                # SAME dataset object: it must see the current contents
                w.done()
                if sib == "data": dv[...] = cplx(data2)
                else: nv[...] = cplx(noise2)
                w.arg("data", dv); w.arg("noise_map", nv)
                ds2 = ds
            else:
                ds2 = aa.DatasetInterface(data=aa.Visibilities(visibilities=cplx(data2)),
                                          noise_map=aa.VisibilitiesNoiseMap(visibilities=cplx(noise2)), transformer=t)
            objs2 = [lin(o, arr2(Fm(o["M"]), o["P"])) for o in objs_d]
            inv3 = aa.InversionInterferometerMapping(dataset=ds2, linear_obj_list=objs2, **skw)
            extra.append(kinv(objs_d, data2, noise2, np.array(inv3.operated_mapping_matrix), np.array(inv3.data_vector),
                              np.array(inv3.curvature_matrix)))
            # and the first inversion still reads the same
            for a, b in ((D, inv.data_vector), (Fm_, inv.curvature_matrix)):
                if not same(a, np.array(b)): ok = False
        if fingerprint(settings) != sfp: ok = False; w.why.append("the caller's SettingsInversion object was modified")
        if fingerprint(pre_obj) != pfp: ok = False; w.why.append("the caller's Preloads object was modified")
        return fin(dict(base, coq=coq, extra_coq=extra, out=short([D.tolist(), Fm_.tolist()]), py_ok=ok))
    raise ValueError(op)

def run_hist(aa, inp, base):
    """interprets the recorded steps; mirrors gen_hist_one's object tables"""
    Pi = cq(PI)
    masks, mgeom, uvarrs, uvvals, trs = [], [], [], [], []
    args = {}                     # argument objects of earlier calls: step id -> (object, values, geometry)
    csteps, couts, outs = [], [], []
    w = Watch(); ok = True; why = []
    def note(cond, msg):
        nonlocal ok
        if not cond: ok = False; why.append(msg)
    ncalls = 0
    for st in inp["steps"]:
        s = st["s"]
        if s == "mask":
            g = st["geom"]
            if st.get("edit") is None:
                masks.append(mk_mask(aa, g, st.get("mhow"))); mgeom.append(g)
            else:                                        # the caller edits ITS Mask2D in place (same shape, scales, origin)
                k = st["edit"]; old = mgeom[k]["m"]
                for y, row in enumerate(g["m"]):
                    for x, b in enumerate(row):
                        if old[y][x] != b: masks[k][y, x] = b
                mgeom[k] = g
                for t in trs:
                    if t["mask"] == k: t["live"] = False
        elif s == "uv":
            vals = pairs(st["uv"])
            if st.get("edit") is None:
                a = np.array(flm(vals), dtype=float).reshape((len(vals), 2))
                if st.get("dtype") == "int": a = a.astype(int)
                elif st.get("dtype") == "f4": a = as_dt(a, "f4")
                uvarrs.append(lay(a, st.get("lay", "c"))); uvvals.append(vals)
            else:
                k = st["edit"]; uvarrs[k][...] = np.array(flm(vals)).astype(uvarrs[k].dtype); uvvals[k] = vals
                for t in trs:
                    if t["uv"] == k: t["live"] = False
        elif s == "new":
            mk, uk = st["mask"], st["uv"]
            w.arg("uv_wavelengths", uvarrs[uk]); w.arg("real_space_mask", masks[mk])
            tcls = subclasses(aa)["tr"] if st.get("tsub") else aa.TransformerDFT
            t = tcls(uv_wavelengths=uvarrs[uk], real_space_mask=masks[mk], **({} if st.get("omit") and st["preload"] else {"preload_transform": st["preload"]}))
            w.done()
            g = mgeom[mk]; npix = npix_of(g["m"])
            trs.append({"t": t, "mask": mk, "uv": uk, "live": True, "geom": g, "uvv": uvvals[uk], "npix": npix})
            grid = [(frac(y), frac(x)) for y, x in np.array(t.grid).reshape((npix, 2))]
            note(tuple(t.shape) == (len(uvvals[uk]), npix), "TransformerDFT.shape")
            csteps.append(f"(@HNew QOpsT {cgeom(g)} {ccv(uvvals[uk])} {cbool(st['preload'])})")
            couts.append(f"(@ONew QOpsT {ccv(grid)})"); outs.append("new")
        else:
            T = trs[st["t"]]; t = T["t"]; g = T["geom"]; ncalls += 1
            if not T["live"]: raise ValueError("history addresses a retired transformer")
            w.arg("transformer.uv_wavelengths", t.uv_wavelengths); w.arg("transformer.real_space_mask", t.real_space_mask)
            reuse = args.get(st.get("reuse"))
            if s == "vis":
                img = Fv(st["img"]); how = st["how"]
                mobj = masks[T["mask"]] if st.get("own_mask") else mk_mask(aa, g)
                if reuse is not None and reuse[2] == g and len(reuse[1]) == len(img) and (reuse[1] == img or np.asarray(reuse[0]).dtype == np.float64):
                    im = reuse[0]                                                   # the same Array2D object again ...
                    if reuse[1] != img:                                             # ... edited in place by the caller
                        if np.asarray(im).ndim == 1:
                            for j, v in enumerate(fl(img)):
                                if Fraction(reuse[1][j]) != img[j]: im[j] = v
                        else:
                            for j, (y, x) in enumerate(mask_cells(g["m"])):
                                if Fraction(reuse[1][j]) != img[j]: im[y, x] = float(img[j])
                elif how == "sub": im = subclasses(aa)["array"](values=np.array(fl(img)), mask=mobj)       # user subclass of Array2D
                elif how == "dt": im = aa.Array2D(values=as_dt(np.array(fl(img)), st.get("dt")), mask=mobj)   # int64 / float32 values
                elif how == "native": im = aa.Array2D(values=fl(img), mask=mobj).native
                elif how == "store_native": im = aa.Array2D(values=fl(img), mask=mobj, store_native=True)
                elif how == "sum":                                                  # derived by arithmetic: (-img) + (2 img), exact
                    im = aa.Array2D(values=fl([-a for a in img]), mask=mobj) + aa.Array2D(values=fl([2 * a for a in img]), mask=mobj)
                elif how == "scaled":
                    c = Fraction(1, 4096); im = aa.Array2D(values=fl([a / c for a in img]), mask=mobj).native * float(c)
                else: im = aa.Array2D(values=fl(img), mask=mobj)
                note(same(np.array(im.slim, dtype=float), np.array(fl(img))), "harness: derived image does not carry the intended values")
                args[st.get("id")] = (im, img, g)
                w.arg("image", im)
                out = np.array(t.visibilities_from(image=im)); w.done()
                csteps.append(f"(@HVis QOpsT {cnat(st['t'])} {cqv(img)})"); couts.append(f"(@OVis QOpsT {ccv(cvout(out))})")
                outs.append(out.tolist())
            elif s == "tmm":
                P = st["P"]; M = Fm(st["M"]); how = st["how"]; a = as_dt(arr2(M, P), st.get("dt"))
                if reuse is not None and reuse[0].shape == a.shape and (reuse[1] == M or reuse[0].dtype == np.float64):
                    Ma = reuse[0]
                    if reuse[1] != M: Ma[...] = a                                   # in-place edit of the caller's matrix
                elif how in ("f", "view"): Ma = lay(a, how)
                else: Ma = a
                args[st.get("id")] = (Ma, M, None)
                w.arg("mapping_matrix", Ma)
                out = t.transform_mapping_matrix(mapping_matrix=Ma); w.done()
                note(out.shape == (len(T["uvv"]), P), "transform_mapping_matrix shape")
                csteps.append(f"(@HTmm QOpsT {cnat(st['t'])} {cnat(P)} {cqm(M)})"); couts.append(f"(@OTmm QOpsT {ccm(cmout(out))})")
                outs.append(out.tolist())
            elif s == "image":
                vis = pairs(st["vis"]); how = st["how"]
                if reuse is not None and len(reuse[1]) == len(vis) and (reuse[1] == vis or np.asarray(reuse[0]).dtype == np.complex128):
                    V = reuse[0]
                    if reuse[1] != vis:
                        for j, z in enumerate(cplx(vis)): V[j] = z                  # in-place edit of the caller's Visibilities
                elif how == "sum":
                    V = aa.Visibilities(visibilities=cplx([(-a, -b) for a, b in vis])) + aa.Visibilities(visibilities=cplx([(2 * a, 2 * b) for a, b in vis]))
                elif how == "form": V = mk_vis(aa, vis, st.get("vform", "c16"))
                else: V = aa.Visibilities(visibilities=cplx(vis))
                note(same(np.array(V.in_array, dtype=float), np.array(flm(vis), dtype=float).reshape((len(vis), 2))),
                     "harness: derived visibilities do not carry the intended values")
                args[st.get("id")] = (V, vis, None)
                w.arg("visibilities", V)
                res = t.image_from(visibilities=V); w.done()
                out = np.array(res.slim)
                note(res.shape_native == t.real_space_mask.shape_native and
                     bool(np.all(np.array(res.native)[np.array(t.real_space_mask)] == 0.0)), "image_from: masked entries / shape")
                csteps.append(f"(@HImage QOpsT {cnat(st['t'])} {ccv(vis)})"); couts.append(f"(@OImage QOpsT (Ok {cqv(rvout(out))}))")
                outs.append(out.tolist())
            else: raise ValueError(s)
    ok = ok and w.ok; why += w.why
    return dict(base, kind="hist", coq=f"(KHist {Pi} {clist(csteps)} {clist(couts)})", out=short(outs), py_ok=ok,
                detail=None if ok else "; ".join(why), nontrivial=len(trs) >= 2 and ncalls >= 2)
