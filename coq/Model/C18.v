(* C18 -- Border relocation only pulls outliers radially inward to the border.
   Executable model of
     autoarray/structures/grids/grid_2d_util.py   relocated_grid_via_jit_from, furthest_grid_2d_slim_index_from,
                                                  grid_2d_centre_from
     autoarray/inversion/pixelization/border_relocator.py
                                                  sub_slim_indexes_for_slim_index_via_mask_2d_from,
                                                  sub_border_pixel_slim_indexes_from, BorderRelocator.*
     autoarray/inversion/pixelization/mesh/abstract.py (+ triangulation.py glue)  relocated_grid_from,
                                                  relocated_mesh_grid_from, mapper_grids_from
     autoarray/mask/mask_2d_util.py               check_if_edge_pixel, edge_1d_indexes_from, check_if_border_pixel,
                                                  border_slim_indexes_from, native_index_for_slim_index_2d_from
   (+ the two over_sample_util loops the relocator calls), written once over [NumOps]; then the
   independent specification, the correspondence [case] type, [agree], [spec_ok], [check].
   No proofs here. *)
From Coq Require Import ZArith QArith Qabs List Bool Arith.
From PAV Require Import Base.NumOps Base.Res Base.Check.
Import ListNotations.

(* ============================================================ index part (mask_2d_util.py) *)
Definition mask := list (list bool).                 (* true = masked *)
Definition mget (m : mask) (y x : nat) : bool := nth x (nth y m []) true.
Definition nrows (m : mask) : nat := length m.                 (* mask_2d.shape[0] *)
Definition ncols (m : mask) : nat := length (hd [] m).         (* mask_2d.shape[1] *)
Definition rectb (m : mask) : bool := forallb (fun row => length row =? ncols m)%nat m.
(* the double loop  for y in range(H): for x in range(W)  *)
Definition coords (H W : nat) : list (nat * nat) :=
  flat_map (fun y => map (fun x => (y, x)) (seq 0 W)) (seq 0 H).

Definition check_if_edge_pixel (m : mask) (y x : nat) : bool :=
  if ((y =? 0) || (x =? 0) || (y =? nrows m - 1) || (x =? ncols m - 1))%nat then true
  else if mget m (y + 1) x || mget m (y - 1) x || mget m y (x + 1) || mget m y (x - 1)
          || mget m (y + 1) (x + 1) || mget m (y + 1) (x - 1) || mget m (y - 1) (x + 1) || mget m (y - 1) (x - 1)
       then true else false.

(* edge_1d_indexes_from: [regular_index] counts the unmasked pixels seen so far *)
Definition edge_1d_indexes_from (m : mask) : list nat :=
  snd (fold_left (fun (st : nat * list nat) (yx : nat * nat) =>
                    let '(ri, acc) := st in let '(y, x) := yx in
                    if mget m y x then st
                    else (S ri, if check_if_edge_pixel m y x then acc ++ [ri] else acc))
                 (coords (nrows m) (ncols m)) (0%nat, [])).

Definition native_index_for_slim_index_2d_from (m : mask) : list (nat * nat) :=
  filter (fun yx => negb (mget m (fst yx) (snd yx))) (coords (nrows m) (ncols m)).
Definition total_pixels_2d_from (m : mask) : nat := length (native_index_for_slim_index_2d_from m).

Definition count_true (l : list bool) : nat := length (filter (fun b => b) l).
Definition column (m : mask) (x : nat) : list bool := map (fun row => nth x row true) m.
(* np.sum(mask[0:y, x]) == y or np.sum(mask[y, x:W]) == W - x - 1 or np.sum(mask[y:H, x]) == H - y - 1
   or np.sum(mask[y, 0:x]) == x *)
Definition check_if_border_pixel (m : mask) (edge_pixel_slim : nat) (native_to_slim : list (nat * nat)) : bool :=
  let '(y, x) := nth edge_pixel_slim native_to_slim (0%nat, 0%nat) in
  let row := nth y m [] in
  ((count_true (firstn y (column m x)) =? y)
   || (count_true (skipn x row) =? ncols m - x - 1)
   || (count_true (skipn y (column m x)) =? nrows m - y - 1)
   || (count_true (firstn x row) =? x))%nat.

Definition border_slim_indexes_from (m : mask) : list nat :=
  let native := native_index_for_slim_index_2d_from m in
  filter (fun e => check_if_border_pixel m e native) (edge_1d_indexes_from m).

(* ---- over_sample_util.slim_index_for_sub_slim_index_via_mask_2d_from and the list-of-lists built from it
        in border_relocator.sub_slim_indexes_for_slim_index_via_mask_2d_from ---- *)
Definition slim_index_for_sub_slim_index (m : mask) (sub_size : list nat) : list nat :=
  flat_map (fun i => let s := nth i sub_size 0%nat in repeat i (s * s)) (seq 0 (total_pixels_2d_from m)).
(* for sub_slim_index, slim_index in enumerate(...): lists[slim_index].append(sub_slim_index) *)
Definition sub_slim_indexes_for_slim_index (m : mask) (sub_size : list nat) : list (list nat) :=
  let sfs := slim_index_for_sub_slim_index m sub_size in
  map (fun i => map fst (filter (fun kv => (snd kv =? i)%nat) (combine (seq 0 (length sfs)) sfs)))
      (seq 0 (total_pixels_2d_from m)).

(* numpy fancy indexing l[idx] with non-negative indexes: IndexError when out of range *)
Fixpoint gather {A} (l : list A) (idx : list nat) : res (list A) :=
  match idx with
  | [] => Ok []
  | i :: t => match nth_error l i, gather l t with
              | Some a, Ok r => Ok (a :: r)
              | _, _ => Raise IndexError
              end
  end.

(* ============================================================ numeric part *)
Section Model.
  Context {O : NumOps}.
  Local Notation N := (T O).
  Definition pt : Type := (N * N)%type.           (* (y, x) *)

  (* ---------------- grid_2d_util.relocated_grid_via_jit_from ---------------- *)
  Definition mean (l : list N) : N := div O (sumT l) (ofNat (length l)).
  (* np.sqrt(np.add(np.square(np.subtract(g[:,0], c[0])), np.square(np.subtract(g[:,1], c[1])))) *)
  Definition radius (c p : pt) : N :=
    sqrtT O (add O (sq (sub O (fst p) (fst c))) (sq (sub O (snd p) (snd c)))).
  (* np.square(grid[i,0] - border[:,0]) + np.square(grid[i,1] - border[:,1]) *)
  Definition dist2 (p b : pt) : N := add O (sq (sub O (fst p) (fst b))) (sq (sub O (snd p) (snd b))).
  (* np.min of a non-empty array *)
  Definition min_list (h : N) (t : list N) : N := fold_left (fun mv v => if ltb O v mv then v else mv) t h.
  (* np.argmin: FIRST index of the minimum *)
  Fixpoint argmin_from (l : list N) (i bi : nat) (bv : N) : nat :=
    match l with
    | [] => bi
    | v :: t => if ltb O v bv then argmin_from t (S i) i v else argmin_from t (S i) bi bv
    end.
  Definition argmin (l : list N) : nat :=
    match l with [] => 0%nat | v :: t => argmin_from t 1%nat 0%nat v end.

  (* the body of  for pixel_index in range(grid.shape[0])  ; the untouched branches return the input term *)
  Definition relocate_point (c : pt) (border : list pt) (border_radii : list N) (border_min : N) (p : pt) : pt :=
    let r := radius c p in
    if ltb O border_min r then
      let closest := argmin (map (dist2 p) border) in
      let move_factor := div O (nth closest border_radii zero) r in
      if ltb O move_factor one then
        (add O (mul O move_factor (sub O (fst p) (fst c))) (fst c),
         add O (mul O move_factor (sub O (snd p) (snd c))) (snd c))
      else p
    else p.

  Definition border_origin (border : list pt) : pt := (mean (map fst border), mean (map snd border)).

  Definition relocated_grid_via_jit_from (grid border : list pt) : res (list pt) :=
    match border with
    | [] => Raise OtherException                (* np.min of a zero-size array: ValueError *)
    | b0 :: bt =>
        let c := border_origin border in
        let radii := map (radius c) border in
        let bmin := min_list (radius c b0) (map (radius c) bt) in
        Ok (map (relocate_point c border radii bmin) grid)
    end.

  (* ---------------- grid_2d_util.furthest_grid_2d_slim_index_from ---------------- *)
  (* state: (distance_to_centre, furthest index or unbound) *)
  Definition furthest_step (grid : list pt) (coordinate : pt) (st : N * option nat) (slim_index : nat) : N * option nat :=
    let p := nth slim_index grid (zero, zero) in
    let y := fst p in let x := snd p in
    let dnew := add O (sq (sub O x (snd coordinate))) (sq (sub O y (fst coordinate))) in
    if leb O (fst st) dnew then (dnew, Some slim_index) else st.
  Definition furthest_grid_2d_slim_index_from (grid : list pt) (slim_indexes : list nat) (coordinate : pt) : option nat :=
    snd (fold_left (furthest_step grid coordinate) slim_indexes (zero, None)).

  (* ---------------- grid_2d_util.grid_2d_centre_from ---------------- *)
  Definition max_list (h : N) (t : list N) : N := fold_left (fun mv v => if ltb O mv v then v else mv) t h.
  Definition grid_2d_centre_from (g : list pt) : res pt :=
    match g with
    | [] => Raise OtherException                 (* np.max of a zero-size array: ValueError *)
    | p :: t =>
        let ys := map fst t in let xs := map snd t in
        Ok (div O (add O (max_list (fst p) ys) (min_list (fst p) ys)) two,
            div O (add O (max_list (snd p) xs) (min_list (snd p) xs)) two)
    end.

  (* ---------------- over_sample_util.grid_2d_slim_over_sampled_via_mask_from ---------------- *)
  Definition sub_pixel_points (ps : pt) (centres : pt) (yx : nat * nat) (s : nat) : list pt :=
    let y_sub_half := div O (fst ps) two in
    let y_sub_step := div O (fst ps) (ofNat s) in
    let x_sub_half := div O (snd ps) two in
    let x_sub_step := div O (snd ps) (ofNat s) in
    let y_scaled := mul O (sub O (ofNat (fst yx)) (fst centres)) (fst ps) in
    let x_scaled := mul O (sub O (ofNat (snd yx)) (snd centres)) (snd ps) in
    flat_map (fun y1 => map (fun x1 =>
        (opp O (add O (add O (sub O y_scaled y_sub_half) (mul O (ofNat y1) y_sub_step)) (div O y_sub_step two)),
         add O (add O (sub O x_scaled x_sub_half) (mul O (ofNat x1) x_sub_step)) (div O x_sub_step two)))
      (seq 0 s)) (seq 0 s).
  Definition central_scaled_coordinate_2d_from (H W : nat) (ps origin : pt) : pt :=
    (add O (div O (ofZ O (Z.of_nat H - 1)) two) (div O (fst origin) (fst ps)),
     sub O (div O (ofZ O (Z.of_nat W - 1)) two) (div O (snd origin) (snd ps))).
  Definition grid_2d_slim_over_sampled_via_mask_from (m : mask) (ps : pt) (sub_size : list nat) (origin : pt) : list pt :=
    let centres := central_scaled_coordinate_2d_from (nrows m) (ncols m) ps origin in
    let native := native_index_for_slim_index_2d_from m in
    flat_map (fun iyx => sub_pixel_points ps centres (snd iyx) (nth (fst iyx) sub_size 0%nat))
             (combine (seq 0 (length native)) native).

  (* ---------------- border_relocator.sub_border_pixel_slim_indexes_from ---------------- *)
  Definition unit_grid (m : mask) (sub_size : list nat) : list pt :=
    grid_2d_slim_over_sampled_via_mask_from m (one, one) sub_size (zero, zero).
  Fixpoint all_some {A} (l : list (option A)) : res (list A) :=
    match l with
    | [] => Ok []
    | Some a :: t => match all_some t with Ok r => Ok (a :: r) | Raise e => Raise e end
    | None :: _ => Raise UnboundLocalError
    end.
  Definition sub_border_pixel_slim_indexes_from (m : mask) (sub_size : list nat) : res (list nat) :=
    let border_pixels := border_slim_indexes_from m in
    let lists := sub_slim_indexes_for_slim_index m sub_size in
    let g := unit_grid m sub_size in
    match grid_2d_centre_from g with
    | Raise e => Raise e
    | Ok mask_centre =>
        all_some (map (fun border_pixel => furthest_grid_2d_slim_index_from g (nth border_pixel lists []) mask_centre)
                      border_pixels)
    end.

  (* ---------------- BorderRelocator ---------------- *)
  Definition sub_border_grid (m : mask) (ps origin : pt) (sub_size : list nat) : res (list pt) :=
    match sub_border_pixel_slim_indexes_from m sub_size with
    | Raise e => Raise e
    | Ok sbs => gather (grid_2d_slim_over_sampled_via_mask_from m ps sub_size origin) sbs
    end.

  (* relocated_grid_from / relocated_mesh_grid_from, given the cached sub_border_slim *)
  Definition relocated_with (sbs : list nat) (grid target : list pt) : res (list pt) :=
    match sbs with
    | [] => Ok target                           (* if len(self.sub_border_grid) == 0: return ... *)
    | _ => match gather grid sbs with            (* grid[self.sub_border_slim] *)
           | Raise e => Raise e
           | Ok border => relocated_grid_via_jit_from target border
           end
    end.
  Definition relocated_grid_from (m : mask) (sub_size : list nat) (grid : list pt) : res (list pt) :=
    match sub_border_pixel_slim_indexes_from m sub_size with
    | Raise e => Raise e
    | Ok sbs => relocated_with sbs grid grid
    end.
  Definition relocated_mesh_grid_from (m : mask) (sub_size : list nat) (grid mesh_grid : list pt) : res (list pt) :=
    match sub_border_pixel_slim_indexes_from m sub_size with
    | Raise e => Raise e
    | Ok sbs => relocated_with sbs grid mesh_grid
    end.

  (* mesh/triangulation.py mapper_grids_from (Delaunay / Voronoi), default preloads:
       data' = relocated_grid_from(data); mesh' = relocated_mesh_grid_from(grid = data', mesh)
     border_relocator = None leaves both unchanged (mesh/abstract.py).
     mesh/rectangular.py mapper_grids_from relocates the data grid only (= relocated_grid_from; observed as KReloc) *)
  Definition mapper_grids_from (relocator : option (mask * list nat)) (data mesh_grid : list pt)
    : res (list pt * list pt) :=
    match relocator with
    | None => Ok (data, mesh_grid)
    | Some (m, sub_size) =>
        match relocated_grid_from m sub_size data with
        | Raise e => Raise e
        | Ok data' => match relocated_mesh_grid_from m sub_size data' mesh_grid with
                      | Raise e => Raise e
                      | Ok mesh' => Ok (data', mesh')
                      end
        end
    end.

  (* mapper_grids_from with preloads.relocated_grid = P (mesh/abstract.py relocated_grid_from returns P WITHOUT calling
     the relocator; triangulation.py then relocates the mesh against the border of P, the data grid it passes on) *)
  Definition mapper_grids_preloaded_from (relocator : option (mask * list nat)) (preload mesh_grid : list pt)
    : res (list pt * list pt) :=
    match relocator with
    | None => Ok (preload, mesh_grid)
    | Some (m, sub_size) => match relocated_mesh_grid_from m sub_size preload mesh_grid with
                            | Raise e => Raise e
                            | Ok mesh' => Ok (preload, mesh')
                            end
    end.

  (* ---------------- histories: several calls on the same BorderRelocator objects ----------------
     Relocators r = 0, 1, ... are BorderRelocator(mask, subs[r]) on ONE Mask2D object.  The only state an object
     keeps between calls is the instance dictionary entry of the cached_property sub_border_slim (sub_border_grid is
     cached likewise and enters the relocation only through its length = the length of sub_border_slim): computed at
     the first access, stored only when the computation returns.  [run_history] threads that state through the
     calls; [pure_call] is the stateless reading (every call judged on ITS OWN arguments). *)
  Inductive call :=
  | CReloc (r : nat) (grid : list pt)                       (* relocator r .relocated_grid_from(grid) *)
  | CMesh (r : nat) (grid mesh_grid : list pt)              (* relocator r .relocated_mesh_grid_from(grid, mesh_grid) *)
  | CMapper (r : option nat) (preload : option (list pt)) (grid mesh_grid : list pt)
                                                            (* Delaunay/Voronoi mapper_grids_from(border_relocator = r,
                                                               preloads.relocated_grid = preload) *)
  | CSubBorder (r : nat)                                    (* relocator r .sub_border_slim *)
  | CSubBorderGrid (r : nat).                               (* relocator r .sub_border_grid *)
  Inductive outcome :=
  | OPts (o : res (list pt))
  | OPair (o : res (list pt * list pt))
  | ONats (o : res (list nat)).

  Definition relocator_of (m : mask) (subs : list (list nat)) (r : option nat) : option (mask * list nat) :=
    match r with None => None | Some r => Some (m, nth r subs []) end.
  Definition pure_call (m : mask) (ps origin : pt) (subs : list (list nat)) (c : call) : outcome :=
    match c with
    | CReloc r g => OPts (relocated_grid_from m (nth r subs []) g)
    | CMesh r g v => OPts (relocated_mesh_grid_from m (nth r subs []) g v)
    | CMapper r None g v => OPair (mapper_grids_from (relocator_of m subs r) g v)
    | CMapper r (Some p) _ v => OPair (mapper_grids_preloaded_from (relocator_of m subs r) p v)
    | CSubBorder r => ONats (sub_border_pixel_slim_indexes_from m (nth r subs []))
    | CSubBorderGrid r => OPts (sub_border_grid m ps origin (nth r subs []))
    end.

  Definition cache : Type := list (option (list nat)).       (* per relocator: the stored sub_border_slim, if any *)
  Fixpoint set_nth {A} (l : list A) (i : nat) (a : A) : list A :=
    match l, i with
    | [], _ => []
    | _ :: t, 0%nat => a :: t
    | h :: t, S i' => h :: set_nth t i' a
    end.
  (* self.sub_border_slim *)
  Definition get_sub_border_slim (m : mask) (subs : list (list nat)) (st : cache) (r : nat) : res (list nat) * cache :=
    match nth r st None with
    | Some s => (Ok s, st)
    | None => match sub_border_pixel_slim_indexes_from m (nth r subs []) with
              | Ok s => (Ok s, set_nth st r (Some s))
              | Raise e => (Raise e, st)
              end
    end.
  (* relocated_grid_from (target = grid) / relocated_mesh_grid_from (target = mesh_grid) of object r *)
  Definition obj_relocated (m : mask) (subs : list (list nat)) (st : cache) (r : nat) (grid target : list pt)
    : res (list pt) * cache :=
    let '(s, st') := get_sub_border_slim m subs st r in
    (match s with Raise e => Raise e | Ok sbs => relocated_with sbs grid target end, st').
  Definition run_call (m : mask) (ps origin : pt) (subs : list (list nat)) (st : cache) (c : call) : outcome * cache :=
    match c with
    | CReloc r g => let '(o, st') := obj_relocated m subs st r g g in (OPts o, st')
    | CMesh r g v => let '(o, st') := obj_relocated m subs st r g v in (OPts o, st')
    | CMapper None None g v => (OPair (Ok (g, v)), st)
    | CMapper None (Some p) _ v => (OPair (Ok (p, v)), st)
    | CMapper (Some r) None g v =>
        let '(d, st1) := obj_relocated m subs st r g g in
        match d with
        | Raise e => (OPair (Raise e), st1)
        | Ok data' => let '(w, st2) := obj_relocated m subs st1 r data' v in
                      (OPair (match w with Raise e => Raise e | Ok mesh' => Ok (data', mesh') end), st2)
        end
    | CMapper (Some r) (Some p) _ v =>
        let '(w, st1) := obj_relocated m subs st r p v in
        (OPair (match w with Raise e => Raise e | Ok mesh' => Ok (p, mesh') end), st1)
    | CSubBorder r => let '(s, st') := get_sub_border_slim m subs st r in (ONats s, st')
    | CSubBorderGrid r =>
        let '(s, st') := get_sub_border_slim m subs st r in
        (OPts (match s with
               | Raise e => Raise e
               | Ok sbs => gather (grid_2d_slim_over_sampled_via_mask_from m ps (nth r subs []) origin) sbs
               end), st')
    end.
  Fixpoint run_history (m : mask) (ps origin : pt) (subs : list (list nat)) (st : cache) (cs : list call) : list outcome :=
    match cs with
    | [] => []
    | c :: t => let '(o, st') := run_call m ps origin subs st c in o :: run_history m ps origin subs st' t
    end.
  Definition fresh (subs : list (list nat)) : cache := repeat None (length subs).
End Model.

(* ============================================================ independent specification *)
(* Stated with inequalities only; over [NumOps] so that the same text is a Prop-level statement at R
   (Proofs/C18.v) and a boolean acceptance test at Q ([spec_ok] below). *)

(* --- border pixels, set-theoretically: an unmasked pixel with a masked (or out-of-array) 8-neighbour from which
       one of the four axis directions contains no further unmasked pixel up to the array edge --- *)
Definition maskedZ (m : mask) (y x : Z) : bool :=
  if ((y <? 0) || (x <? 0) || (y >=? Z.of_nat (nrows m)) || (x >=? Z.of_nat (ncols m)))%Z then true
  else mget m (Z.to_nat y) (Z.to_nat x).
Definition is_edge_spec (m : mask) (y x : nat) : bool :=
  let Y := Z.of_nat y in let X := Z.of_nat x in
  existsb (fun d => maskedZ m (Y + fst d) (X + snd d))
          [(-1,-1); (-1,0); (-1,1); (0,-1); (0,1); (1,-1); (1,0); (1,1)]%Z.
Definition is_border_spec (m : mask) (y x : nat) : bool :=
  negb (mget m y x) && is_edge_spec m y x &&
  (forallb (fun y' => mget m y' x) (seq 0 y)
   || forallb (fun x' => mget m y x') (seq (S x) (ncols m - S x))
   || forallb (fun y' => mget m y' x) (seq (S y) (nrows m - S y))
   || forallb (fun x' => mget m y x') (seq 0 x)).
Definition border_slim_spec (m : mask) : list nat :=
  let native := native_index_for_slim_index_2d_from m in
  map fst (filter (fun iyx => is_border_spec m (fst (snd iyx)) (snd (snd iyx)))
                  (combine (seq 0 (length native)) native)).

(* offsets of the sub-pixel blocks: pixel i owns the sub-indexes [off_i, off_i + s_i^2) *)
Fixpoint sub_ranges (sub_size : list nat) (start : nat) : list (nat * nat) :=
  match sub_size with
  | [] => []
  | s :: t => (start, s * s)%nat :: sub_ranges t (start + s * s)
  end.

(* ---- acceptance of an implementation output, at Q ---- *)
Definition Qpt : Type := (Q * Q)%type.
Definition tol : Q := 1 # 1000000000.
Definition qclose (a b : Q) : bool := Qabs_le_tol tol a b.
Definition pt_close (a b : Qpt) : bool := qclose (fst a) (fst b) && qclose (snd a) (snd b).
Definition pt_eq (a b : Qpt) : bool := Qeq_bool (fst a) (fst b) && Qeq_bool (snd a) (snd b).
Definition qmean (l : list Q) : Q := Qred (fold_right Qplus 0 l / inject_Z (Z.of_nat (length l))).
Definition qd2 (a b : Qpt) : Q := Qred ((fst a - fst b) * (fst a - fst b) + (snd a - snd b) * (snd a - snd b)).
(* what the property demands of ONE output coordinate [o] for input [p]; [brs] = border points with their SQUARED
   radius about the centroid [c].  No square root is needed: radii are compared through their squares, "equal
   radius" to a relative 1e-9, and the decisions of the rule (own radius vs smallest / nearest border radius)
   are read off exact rational squares, a 1e-12 band (narrower than the generators' 1e-6 band on radii) being
   left undecided. *)
Definition band : Q := 1 # 1000000000000.
Definition sq_close (a b : Q) : bool := Qle_bool (Qabs (a - b)) (2 * tol * (if Qle_bool b 1 then 1 else b)).
Definition point_ok (c : Qpt) (brs : list (Qpt * Q)) (p o : Qpt) : bool :=
  let r2 := qd2 p c in let ro2 := qd2 o c in
  let dmin := fold_right (fun b acc => let d := qd2 p (fst b) in
                            match acc with None => Some d | Some a => Some (if Qle_bool a d then a else d) end) None brs in
  (* (1) distance from the centroid does not exceed the smallest border radius: the very same numbers *)
  (if forallb (fun b => Qle_bool r2 (snd b)) brs then pt_eq o p else true)
  (* (2) on the ray from the centroid: o - c = k (p - c) with 0 <= k <= 1  (cross ~ 0, dot >= 0, never outward) *)
  && Qle_bool (Qabs ((fst o - fst c) * (snd p - snd c) - (snd o - snd c) * (fst p - fst c))) (tol * (1 + r2))
  && Qle_bool (- tol) ((fst o - fst c) * (fst p - fst c) + (snd o - snd c) * (snd p - snd c))
  && (Qle_bool ro2 r2 || sq_close ro2 r2)
  (* (3) not farther than the farthest border point *)
  && existsb (fun b => Qle_bool ro2 (snd b) || sq_close ro2 (snd b)) brs
  (* (4) beyond the smallest border radius: for SOME nearest border point b: radius(b) >= r and o = p, or
         radius(b) < r and o has radius(b); inside the band around radius(b) = r either is accepted *)
  && (forallb (fun b => Qle_bool r2 (snd b + band)) brs ||
      existsb (fun b => match dmin with
                        | None => false
                        | Some d => Qle_bool (qd2 p (fst b)) d &&
                                    (if Qle_bool (r2 + band) (snd b) then pt_eq o p
                                     else if Qle_bool (snd b + band) r2 then sq_close ro2 (snd b)
                                     else pt_eq o p || sq_close ro2 (snd b))
                        end) brs).

Definition relocation_ok (border grid out : list Qpt) : bool :=
  match border with
  | [] => false
  | _ => let c := (qmean (map fst border), qmean (map snd border)) in
         let brs := map (fun b => (b, qd2 b c)) border in
         (length out =? length grid)%nat &&
         forallb (fun po => point_ok c brs (fst po) (snd po)) (combine grid out)
  end.

(* closed form of the centre of sub-pixel (a, b) of pixel (y, x) with sub-size s (pixel scales ps, origin) *)
Definition spec_grid (m : mask) (ps origin : Qpt) (sub_size : list nat) : list Qpt :=
  let H := inject_Z (Z.of_nat (nrows m)) in let W := inject_Z (Z.of_nat (ncols m)) in
  let native := native_index_for_slim_index_2d_from m in
  flat_map (fun iyx =>
      let s := nth (fst iyx) sub_size 0%nat in
      let y := inject_Z (Z.of_nat (fst (snd iyx))) in let x := inject_Z (Z.of_nat (snd (snd iyx))) in
      let S2 := 2 * inject_Z (Z.of_nat s) in
      flat_map (fun a => map (fun b =>
          (Qred (fst origin + fst ps * ((H - 1) / 2 - y + (1 # 2) - (2 * inject_Z (Z.of_nat a) + 1) / S2)),
           Qred (snd origin + snd ps * (x - (W - 1) / 2 - (1 # 2) + (2 * inject_Z (Z.of_nat b) + 1) / S2))))
        (seq 0 s)) (seq 0 s))
    (combine (seq 0 (length native)) native).

(* sub-border acceptance: one index per spec border pixel, inside that pixel's block, at maximal squared
   distance (in pixel units) from the given centre among the block *)
Definition furthest_ok (g : list Qpt) (centre : Qpt) (rng : nat * nat) (k : nat) : bool :=
  ((fst rng <=? k) && (k <? fst rng + snd rng))%nat &&
  forallb (fun k' => Qle_bool (qd2 (nth k' g (0, 0)) centre) (qd2 (nth k g (0, 0)) centre)) (seq (fst rng) (snd rng)).
Definition qmax (l : list Q) : Q := fold_right (fun a b => if Qle_bool a b then b else a) (hd 0 l) l.
Definition qmin (l : list Q) : Q := fold_right (fun a b => if Qle_bool a b then a else b) (hd 0 l) l.
Definition bbox_centre (g : list Qpt) : Qpt :=
  (Qred ((qmax (map fst g) + qmin (map fst g)) / 2), Qred ((qmax (map snd g) + qmin (map snd g)) / 2)).
(* centres of the unmasked PIXELS in pixel units (y up): the unmasked region is the union of the unit squares
   about them, and its bounding box has the same centre as the bounding box of these centres *)
Definition pixel_centres (m : mask) : list Qpt :=
  map (fun yx => (Qred ((inject_Z (Z.of_nat (nrows m)) - 1) / 2 - inject_Z (Z.of_nat (fst yx))),
                  Qred (inject_Z (Z.of_nat (snd yx)) - (inject_Z (Z.of_nat (ncols m)) - 1) / 2)))
      (native_index_for_slim_index_2d_from m).
Definition sub_border_ok (m : mask) (sub_size : list nat) (out : list nat) : bool :=
  let g := spec_grid m (1, 1) (0, 0) sub_size in
  let rngs := sub_ranges sub_size 0 in
  let bs := border_slim_spec m in
  let c_sub := bbox_centre g in                     (* box of the unmasked sub-pixel centres *)
  let c_pix := bbox_centre (pixel_centres m) in     (* box of the unmasked pixels *)
  (length out =? length bs)%nat &&
  forallb (fun bk => let rng := nth (fst bk) rngs (0, 0)%nat in
                     furthest_ok g c_sub rng (snd bk) && furthest_ok g c_pix rng (snd bk))
          (combine bs out).

(* ============================================================ correspondence cases *)
(* [sbs] in the public-class cases is the sub_border_slim the SAME BorderRelocator object reported: the
   specification accepts it on its own terms ([sub_border_ok]) and then judges the relocation against the border
   it selects, so that the verdict does not depend on how ties between equally far sub-pixels are broken *)
Inductive case :=
  (* grid_2d_util.relocated_grid_via_jit_from(grid, border_grid) *)
| KUtil (grid border : list Qpt) (out : res (list Qpt))
  (* BorderRelocator(mask, sub_size).relocated_grid_from(grid) *)
| KReloc (m : mask) (sub_size sbs : list nat) (grid : list Qpt) (out : res (list Qpt))
  (* BorderRelocator(mask, sub_size).relocated_mesh_grid_from(grid, mesh_grid) *)
| KMesh (m : mask) (sub_size sbs : list nat) (grid mesh_grid : list Qpt) (out : res (list Qpt))
  (* mesh.mapper_grids_from(..., border_relocator=...): (source_plane_data_grid, source_plane_mesh_grid) *)
| KMapper (rel : option (mask * list nat)) (sbs : list nat) (grid mesh_grid : list Qpt) (out : res (list Qpt * list Qpt))
  (* sub_border_pixel_slim_indexes_from / BorderRelocator.sub_border_slim *)
| KSubBorder (m : mask) (sub_size : list nat) (out : res (list nat))
  (* BorderRelocator.sub_border_grid with the mask's pixel scales and origin *)
| KSubBorderGrid (m : mask) (ps origin : Qpt) (sub_size sbs : list nat) (out : res (list Qpt))
  (* grid_2d_util.furthest_grid_2d_slim_index_from *)
| KFurthest (g : list Qpt) (idx : list nat) (coordinate : Qpt) (out : res nat)
  (* mask_2d_util.border_slim_indexes_from *)
| KBorderIdx (m : mask) (out : list nat)
  (* mapper_grids_from(..., preloads = Preloads(relocated_grid = preload)): the data-grid step is skipped *)
| KMapperPre (rel : option (mask * list nat)) (sbs : list nat) (preload mesh_grid : list Qpt) (out : res (list Qpt * list Qpt))
  (* a HISTORY: relocators r = 0, 1, .. = BorderRelocator(mask, fst (nth r rels)) on one Mask2D (pixel scales ps, origin);
     snd (nth r rels) = the sub_border_slim object r reported at its FIRST read; then the calls in order, each with
     the CURRENT contents of its arguments and what the implementation returned *)
| KHist (m : mask) (ps origin : Qpt) (rels : list (list nat * list nat)) (steps : list (@call QOps * @outcome QOps)).

(* model output vs implementation output: where the model returns the INPUT coordinate the implementation must
   return the very same numbers; moved coordinates are compared to 1e-9 (sqrt) *)
Definition pts_agree (inp model impl : list Qpt) : bool :=
  (length model =? length impl)%nat && (length inp =? length impl)%nat &&
  forallb (fun t => let '(p, mo, io) := t in if pt_eq mo p then pt_eq io p else pt_close mo io)
          (combine (combine inp model) impl).
Definition res_pts_agree (inp : list Qpt) (model impl : res (list Qpt)) : bool :=
  match model, impl with
  | Ok a, Ok b => pts_agree inp a b
  | Raise e, Raise f => exn_eqb e f
  | _, _ => false
  end.
Definition nat_list_eqb := list_eqb Nat.eqb.

Definition pair_agree (inp_d inp_v : list Qpt) (model impl : res (list Qpt * list Qpt)) : bool :=
  match model, impl with
  | Ok (d, v), Ok (d', v') => pts_agree inp_d d d' && pts_agree inp_v v v'
  | Raise e, Raise f => exn_eqb e f
  | _, _ => false
  end.
(* one call of a history: the model's outcome (state threaded by [run_history]) vs the implementation's *)
Definition step_agree (c : @call QOps) (model impl : @outcome QOps) : bool :=
  match c, model, impl with
  | CReloc _ g, OPts a, OPts b => res_pts_agree g a b
  | CMesh _ _ v, OPts a, OPts b => res_pts_agree v a b
  | CMapper _ None g v, OPair a, OPair b => pair_agree g v a b
  | CMapper _ (Some p) _ v, OPair a, OPair b => pair_agree p v a b
  | CSubBorder _, ONats a, ONats b => res_eqb nat_list_eqb a b
  | CSubBorderGrid _, OPts a, OPts b => res_eqb (list_eqb pt_eq) a b
  | _, _, _ => false
  end.

Definition agree (k : case) : bool :=
  match k with
  | KUtil grid border out => res_pts_agree grid (@relocated_grid_via_jit_from QOps grid border) out
  | KReloc m ss _ grid out => res_pts_agree grid (@relocated_grid_from QOps m ss grid) out
  | KMesh m ss _ grid mesh out => res_pts_agree mesh (@relocated_mesh_grid_from QOps m ss grid mesh) out
  | KMapper rel _ grid mesh out =>
      pair_agree grid mesh (@mapper_grids_from QOps rel grid mesh) out
  | KSubBorder m ss out => res_eqb nat_list_eqb (@sub_border_pixel_slim_indexes_from QOps m ss) out
  | KSubBorderGrid m ps origin ss _ out => res_eqb (list_eqb pt_eq) (@sub_border_grid QOps m ps origin ss) out
  | KFurthest g idx c out =>
      match @furthest_grid_2d_slim_index_from QOps g idx c, out with
      | Some a, Ok b => (a =? b)%nat
      | None, Raise UnboundLocalError => true
      | _, _ => false
      end
  | KBorderIdx m out => nat_list_eqb (border_slim_indexes_from m) out
  | KMapperPre rel _ pre mesh out => pair_agree pre mesh (@mapper_grids_preloaded_from QOps rel pre mesh) out
  | KHist m ps origin rels steps =>
      let subs := map fst rels in
      let model := @run_history QOps m ps origin subs (fresh subs) (map fst steps) in
      (length model =? length steps)%nat &&
      forallb (fun t => step_agree (fst (fst t)) (snd t) (snd (fst t))) (combine steps model)
  end.

Definition total_sub (sub_size : list nat) : nat := fold_right (fun s a => s * s + a)%nat 0%nat sub_size.
(* shape predicate of the public-class cases (the generators satisfy it) *)
Definition enough (m : mask) (sub_size : list nat) (n : nat) : bool :=
  (n =? total_sub sub_size)%nat
  && (length sub_size =? total_pixels_2d_from m)%nat && negb (total_pixels_2d_from m =? 0)%nat
  && forallb (fun s => 1 <=? s)%nat sub_size && rectb m.
Definition border_of (grid : list Qpt) (sbs : list nat) : list Qpt := map (fun k => nth k grid (0, 0)) sbs.

(* the specification's verdict on one call, on that call's own arguments *)
Definition spec_ok1 (k : case) : bool :=
  match k with
  | KUtil grid border out =>
      match border, out with
      | [], _ => true                                  (* empty border: outside the quantifier *)
      | _, Ok o => relocation_ok border grid o
      | _, Raise _ => false
      end
  | KReloc m ss sbs grid out =>
      negb (enough m ss (length grid)) ||
      sub_border_ok m ss sbs && match out with Ok o => relocation_ok (border_of grid sbs) grid o | Raise _ => false end
  | KMesh m ss sbs grid mesh out =>
      negb (enough m ss (length grid)) ||
      sub_border_ok m ss sbs && match out with Ok o => relocation_ok (border_of grid sbs) mesh o | Raise _ => false end
  | KMapper None _ grid mesh out =>
      match out with Ok (d, v) => list_eqb pt_eq d grid && list_eqb pt_eq v mesh | Raise _ => false end
  | KMapper (Some (m, ss)) sbs grid mesh out =>
      negb (enough m ss (length grid)) ||
      sub_border_ok m ss sbs &&
      match out with
      | Ok (d, v) => relocation_ok (border_of grid sbs) grid d       (* both against the border of the DATA grid *)
                     && relocation_ok (border_of grid sbs) mesh v
      | Raise _ => false
      end
  | KSubBorder m ss out =>
      negb (enough m ss (total_sub ss)) || match out with Ok o => sub_border_ok m ss o | Raise _ => false end
  | KSubBorderGrid m ps origin ss sbs out =>
      negb (enough m ss (total_sub ss)) ||
      sub_border_ok m ss sbs &&
      match out with Ok o => list_eqb pt_eq o (border_of (spec_grid m ps origin ss) sbs) | Raise _ => false end
  | KFurthest g idx c out =>
      match idx, out with
      | [], _ => true
      | _, Ok k => existsb (Nat.eqb k) idx && (k <? length g)%nat &&
                   forallb (fun k' => Qle_bool (qd2 (nth k' g (0, 0)) c) (qd2 (nth k g (0, 0)) c)) idx
      | _, Raise _ => false
      end
  | KBorderIdx m out => negb (rectb m) || nat_list_eqb out (border_slim_spec m)
  | KMapperPre None _ pre mesh out =>
      match out with Ok (d, v) => list_eqb pt_eq d pre && list_eqb pt_eq v mesh | Raise _ => false end
  | KMapperPre (Some (m, ss)) sbs pre mesh out =>
      negb (enough m ss (length pre)) ||
      sub_border_ok m ss sbs &&
      match out with
      | Ok (d, v) => list_eqb pt_eq d pre                       (* the preloaded data grid is passed on as it is *)
                     && relocation_ok (border_of pre sbs) mesh v  (* and ITS border relocates the mesh *)
      | Raise _ => false
      end
  | KHist _ _ _ _ _ => false                                    (* judged call by call, see [spec_ok] *)
  end.

(* a call of a history as the single-call case it is: judged with its own arguments and the sub-size map / reported
   sub_border_slim of the relocator it was made on; what happened before does not enter *)
Definition step_case (m : mask) (ps origin : Qpt) (rels : list (list nat * list nat))
                     (s : @call QOps * @outcome QOps) : option case :=
  let rel r := nth r rels ([], []) in
  let orel r := match r with None => None | Some r => Some (m, fst (rel r)) end in
  let osbs r := match r with None => [] | Some r => snd (rel r) end in
  match s with
  | (CReloc r g, OPts o) => Some (KReloc m (fst (rel r)) (snd (rel r)) g o)
  | (CMesh r g v, OPts o) => Some (KMesh m (fst (rel r)) (snd (rel r)) g v o)
  | (CMapper r None g v, OPair o) => Some (KMapper (orel r) (osbs r) g v o)
  | (CMapper r (Some p) _ v, OPair o) => Some (KMapperPre (orel r) (osbs r) p v o)
  | (CSubBorder r, ONats o) => Some (KSubBorder m (fst (rel r)) o)
  | (CSubBorderGrid r, OPts o) => Some (KSubBorderGrid m ps origin (fst (rel r)) (snd (rel r)) o)
  | _ => None
  end.

Definition spec_ok (k : case) : bool :=
  match k with
  | KHist m ps origin rels steps =>
      forallb (fun s => match step_case m ps origin rels s with Some k1 => spec_ok1 k1 | None => false end) steps
  | _ => spec_ok1 k
  end.

Definition check (k : case) : nat := verdict (agree k) (spec_ok k).
