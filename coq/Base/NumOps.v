(* One polymorphic numeric interface: models are written ONCE over a record of operations (no
   laws); theorems are proved at [ROps] (Coq's real numbers), the very same Gallina term is
   executed at [QOps] (exact rationals) by the correspondence run. *)
From Coq Require Import ZArith QArith Qround Qabs Reals Lra Lia List Bool.
Import ListNotations.

Record NumOps := {
  T : Type;
  add : T -> T -> T; sub : T -> T -> T; mul : T -> T -> T; div : T -> T -> T;
  opp : T -> T; ofZ : Z -> T;
  leb : T -> T -> bool; ltb : T -> T -> bool; eqb : T -> T -> bool;
  floorZ : T -> Z;
  sqrtT : T -> T;              (* R: sqrt.  Q: rational approximation (execution device only) *)
  cos2pi : T -> T;             (* argument in TURNS: cos (2 pi t).  Q: exact table at quarter turns *)
  sin2pi : T -> T;
  lnT : T -> T                 (* R: ln.  Q: not available (returns 0; never compared) *)
}.

(* ---------------------------------------------------------------- Q instance *)
Definition Qltb (a b : Q) : bool := negb (Qle_bool b a).

(* integer square root by Newton iteration on Z with fuel, then a rational refinement:
   sqrt(n/d) ~ isqrt(n * d * 4^k) / (d * 2^k) ; k = 64 gives ~1e-19 relative accuracy *)
Fixpoint isqrt_iter (fuel : nat) (n x : Z) : Z :=
  match fuel with
  | O => x
  | S f => let y := ((x + n / x) / 2)%Z in if (y <? x)%Z then isqrt_iter f n y else x
  end.
Definition isqrt (n : Z) : Z :=
  if (n <=? 0)%Z then 0%Z else isqrt_iter 400 n (2 ^ (Z.log2_up n / 2 + 1))%Z.
Definition Qsqrt_approx (q : Q) : Q :=
  if Qle_bool q 0 then 0 else
  let n := Qnum q in let d := Zpos (Qden q) in
  let k := (2 ^ 64)%Z in
  Qred (Qmake (isqrt (n * d * k * k)) (Z.to_pos (d * k))).

Definition frac_turn4 (t : Q) : option Z :=
  let f := Qred (4 * t) in
  if (Zpos (Qden f) =? 1)%Z then Some (Qnum f mod 4)%Z else None.
Definition Qcos2pi (t : Q) : Q :=
  match frac_turn4 t with
  | Some 0%Z => 1 | Some 1%Z => 0 | Some 2%Z => -1 | Some _ => 0 | None => 0
  end.
Definition Qsin2pi (t : Q) : Q :=
  match frac_turn4 t with
  | Some 0%Z => 0 | Some 1%Z => 1 | Some 2%Z => 0 | Some _ => -1 | None => 0
  end.

Definition QOps : NumOps := {|
  T := Q;
  add := fun a b => Qred (Qplus a b); sub := fun a b => Qred (Qminus a b);
  mul := fun a b => Qred (Qmult a b); div := fun a b => Qred (Qdiv a b);
  opp := fun a => Qred (Qopp a); ofZ := inject_Z;
  leb := Qle_bool; ltb := Qltb; eqb := Qeq_bool;
  floorZ := Qfloor;
  sqrtT := Qsqrt_approx; cos2pi := Qcos2pi; sin2pi := Qsin2pi; lnT := fun _ => 0 |}.

(* ---------------------------------------------------------------- R instance *)
Definition Rleb (a b : R) : bool := if Rle_dec a b then true else false.
Definition Rltb (a b : R) : bool := if Rlt_dec a b then true else false.
Definition Reqb (a b : R) : bool := if Req_EM_T a b then true else false.
Definition Rfloor (x : R) : Z := (up x - 1)%Z.

Definition ROps : NumOps := {|
  T := R; add := Rplus; sub := Rminus; mul := Rmult; div := Rdiv; opp := Ropp; ofZ := IZR;
  leb := Rleb; ltb := Rltb; eqb := Reqb; floorZ := Rfloor;
  sqrtT := sqrt; cos2pi := fun t => cos (2 * PI * t); sin2pi := fun t => sin (2 * PI * t); lnT := ln |}.

(* ---------------------------------------------------------------- derived, polymorphic *)
Section Derived.
  Context {O : NumOps}.
  Definition zero : T O := ofZ O 0.
  Definition one : T O := ofZ O 1.
  Definition two : T O := ofZ O 2.
  Definition half : T O := div O one two.
  Definition ofNat (n : nat) : T O := ofZ O (Z.of_nat n).
  (* python int(): truncation toward zero *)
  Definition trunc (x : T O) : Z :=
    if ltb O x zero then Z.opp (floorZ O (opp O x)) else floorZ O x.
  Definition absT (x : T O) : T O := if ltb O x zero then opp O x else x.
  Definition maxT (a b : T O) : T O := if ltb O a b then b else a.
  Definition minT (a b : T O) : T O := if ltb O b a then b else a.
  Definition sumT (l : list (T O)) : T O := fold_left (add O) l zero.
  Definition sq (x : T O) : T O := mul O x x.
End Derived.

(* ---------------------------------------------------------------- facts at R *)
Local Open Scope R_scope.

Lemma Rleb_true a b : Rleb a b = true <-> a <= b.
Proof. unfold Rleb. destruct (Rle_dec a b); split; intros; try discriminate; auto; contradiction. Qed.
Lemma Rleb_false a b : Rleb a b = false <-> b < a.
Proof. unfold Rleb. destruct (Rle_dec a b); split; intros; try discriminate; auto; lra. Qed.
Lemma Rltb_true a b : Rltb a b = true <-> a < b.
Proof. unfold Rltb. destruct (Rlt_dec a b); split; intros; try discriminate; auto; contradiction. Qed.
Lemma Rltb_false a b : Rltb a b = false <-> b <= a.
Proof. unfold Rltb. destruct (Rlt_dec a b); split; intros; try discriminate; auto; lra. Qed.
Lemma Reqb_true a b : Reqb a b = true <-> a = b.
Proof. unfold Reqb. destruct (Req_EM_T a b); split; intros; try discriminate; auto; contradiction. Qed.
Lemma Reqb_false a b : Reqb a b = false <-> a <> b.
Proof. unfold Reqb. destruct (Req_EM_T a b); split; intros; try discriminate; auto; contradiction. Qed.

Lemma Rfloor_spec x : IZR (Rfloor x) <= x < IZR (Rfloor x) + 1.
Proof. unfold Rfloor. destruct (archimed x) as [H1 H2]. rewrite minus_IZR. lra. Qed.
Lemma Rfloor_unique x (k : Z) : IZR k <= x < IZR k + 1 -> Rfloor x = k.
Proof.
  intros [H1 H2]. pose proof (Rfloor_spec x) as [H3 H4].
  assert (A : IZR (Rfloor x) < IZR k + 1) by lra.
  assert (B : IZR k < IZR (Rfloor x) + 1) by lra.
  rewrite <- plus_IZR in A, B. apply lt_IZR in A, B. lia.
Qed.
Lemma Rfloor_IZR k : Rfloor (IZR k) = k.
Proof. apply Rfloor_unique. lra. Qed.
Lemma Rfloor_add_Z x k : Rfloor (x + IZR k) = (Rfloor x + k)%Z.
Proof. apply Rfloor_unique. rewrite plus_IZR. pose proof (Rfloor_spec x). lra. Qed.

Lemma trunc_R_nonneg x : 0 <= x -> @trunc ROps x = Rfloor x.
Proof.
  intros H. unfold trunc, zero. cbn. destruct (Rltb x 0) eqn:E; [apply Rltb_true in E; lra | reflexivity].
Qed.
Lemma trunc_R_neg x : x < 0 -> @trunc ROps x = (- Rfloor (- x))%Z.
Proof. intros H. unfold trunc, zero. cbn. destruct (Rltb x 0) eqn:E; [reflexivity | apply Rltb_false in E; lra]. Qed.

Lemma sumT_R_cons (l : list R) : forall a, fold_left Rplus l a = a + fold_left Rplus l 0.
Proof. induction l as [|x l IH]; intros a; cbn; [lra|]. rewrite IH, (IH (0 + x)). lra. Qed.
Lemma sumT_R_app (l1 l2 : list R) : @sumT ROps (l1 ++ l2) = @sumT ROps l1 + @sumT ROps l2.
Proof. unfold sumT, zero. cbn. rewrite fold_left_app, sumT_R_cons. reflexivity. Qed.

(* tactic: turn boolean comparisons at ROps in hypotheses / goal into propositions *)
Ltac rbool :=
  repeat match goal with
  | H : Rleb _ _ = true |- _ => apply Rleb_true in H
  | H : Rleb _ _ = false |- _ => apply Rleb_false in H
  | H : Rltb _ _ = true |- _ => apply Rltb_true in H
  | H : Rltb _ _ = false |- _ => apply Rltb_false in H
  | H : Reqb _ _ = true |- _ => apply Reqb_true in H
  | H : Reqb _ _ = false |- _ => apply Reqb_false in H
  end.
Ltac rcase :=
  match goal with
  | |- context [Rleb ?a ?b] => destruct (Rleb a b) eqn:?
  | |- context [Rltb ?a ?b] => destruct (Rltb a b) eqn:?
  | |- context [Reqb ?a ?b] => destruct (Reqb a b) eqn:?
  end; rbool.
