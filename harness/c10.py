"""C10 -- blurring, edge and border pixel sets match their definitions for every mask."""
import itertools
from fractions import Fraction
import numpy as np
from harness.common import cz, cbool, clist, ctup, cres, call_res, import_aa

ID = "C10"
GEN = []
PROPS = "Props/C10.v"
COQ_CHECK = ("Model.C10", "check")
COQ_FALLBACK = ("Model.C10", "spec_ok")
COQ_IMPORTS = ""
SHARD = 500
RULE = ("every boolean mask of every shape with H*W <= N (see exhaustive_subspace) through the util functions "
        "(total_edge_pixels_from, edge_1d_indexes_from, border_slim_indexes_from, buffed_mask_2d_from, check_if_edge_pixel, "
        "blurring_mask_2d_from) and, on a smaller exhaustive set, through Mask2D.derive_indexes / derive_mask / derive_grid "
        "and Grid2D.blurring_grid_from; plus random masks up to 9x9 (iid, blobs with holes, diagonal walks / thin bridges, "
        "mostly-unmasked with pin holes, with and without a masked padding ring) with kernels in {1,3,5,7}^2 and a few "
        "even / non-positive kernels. Non-trivial = the mask has at least one unmasked pixel; distinct = distinct JSON input.")
EXHAUSTIVE = {
    "quick": "util edge/border/buffed: all masks of all shapes with H*W <= 10 and all 3x4 / 4x3 masks (15 498 masks, "
             "outer-ring pixels included); public derive_* views and check_if_edge_pixel: all masks with H*W <= 9; blurring "
             "(util and public alternating): all masks with H*W <= 9 x kernels (1,1), (3,3) and every other one of (1,3), (3,1), "
             "and all 3x4 / 4x3 masks x kernel (3,3)",
    "thorough": "util on all masks of all shapes with H*W <= 12 (35 978 masks) and on all 4x4, 3x5 and 5x3 masks; public views on all "
                "masks with H*W <= 12 and on every other 4x4 / 3x5 / 5x3 mask; blurring on all masks with H*W <= 9 x kernels {1,3,5}^2, on all "
                "masks with 10 <= H*W <= 12 x kernel (3,3) and one more kernel of {1,3,5}^2 in rotation, and on all 5x5 masks with a masked "
                "outer ring x kernels {1,3,5}^2",
}
TRUSTED = ["correspondence harness harness/c10.py (mask/array printing; grid coordinates are doubled and must be integers, "
           "asserted exactly with fractions.Fraction)",
           "numpy semantics modelled in Model/C10.v Part 1: a[y,x] reads/writes with negative-index wrap, np.full, np.sum of a "
           "boolean slice, fancy indexing a[idx] and mask[ys,xs] = False"]
ASSUMPTIONS = ["native_index_for_slim_index_2d_from and grid_2d_slim_via_mask_from are modelled as append / map over the "
               "row-major scan (their preallocate-and-write form belongs to C01 / C02); the correspondence run exercises them",
               "pixel scales and origins of the grid views are small integers so that doubled coordinates are exact integers",
               "Mask2D(...) / Grid2D(...) constructors keep the arrays they are given (checked by the KViews / KBlur cases)"]

_tally = {}
def _t(k): _tally[k] = _tally.get(k, 0) + 1
def extra_evidence(): return {"distribution": dict(sorted(_tally.items()))}

# ----------------------------------------------------------------------------- printing
def rows_of(ms): return [[c == "1" for c in r] for r in ms]          # "1" = masked
def cmask(m): return clist([clist([cbool(bool(v)) for v in r]) for r in m])
def czl(l): return clist([cz(v) for v in l])
def cpxl(l): return clist([ctup([cz(a), cz(b)]) for a, b in l])
def mask_out(a): return [[bool(v) for v in r] for r in np.asarray(a)]
def ints(a):
    out = []
    for v in np.asarray(a).ravel():
        f = Fraction(float(v)); assert f.denominator == 1, v
        out.append(int(f))
    return out
def pairs(a):
    a = np.asarray(a)
    if a.size == 0: return []
    v = ints(a); return [[v[i], v[i + 1]] for i in range(0, len(v), 2)]
def pairs2(a):
    """doubled coordinates, exact"""
    a = np.asarray(a, dtype=float)
    out = []
    for r in a.reshape(-1, 2):
        fy, fx = Fraction(float(r[0])) * 2, Fraction(float(r[1])) * 2
        assert fy.denominator == 1 and fx.denominator == 1, r
        out.append([int(fy), int(fx)])
    return out

# ----------------------------------------------------------------------------- generators
def all_masks(h, w):
    for bits in itertools.product("01", repeat=h * w):
        yield ["".join(bits[r * w:(r + 1) * w]) for r in range(h)]
def shapes_upto(n):
    return [(h, w) for h in range(1, n + 1) for w in range(1, n + 1) if h * w <= n]

def pad(ms, py, px):
    w = len(ms[0]) + 2 * px
    return ["1" * w] * py + ["1" * px + r + "1" * px for r in ms] + ["1" * w] * py

def rand_mask(rng, h, w):
    style = rng.randrange(5)
    g = [[1] * w for _ in range(h)]
    if style == 0:                       # iid
        p = rng.choice([0.2, 0.5, 0.8])
        g = [[1 if rng.random() < p else 0 for _ in range(w)] for _ in range(h)]
    elif style == 1:                     # blob(s) with holes
        for _ in range(rng.randint(1, 2)):
            y0, x0 = rng.randrange(h), rng.randrange(w); y1, x1 = rng.randint(y0, h - 1), rng.randint(x0, w - 1)
            for y in range(y0, y1 + 1):
                for x in range(x0, x1 + 1): g[y][x] = 0
        for _ in range(rng.randint(0, 3)): g[rng.randrange(h)][rng.randrange(w)] = 1
    elif style == 2:                     # diagonal contacts / thin bridges: king-move walks
        for _ in range(rng.randint(1, 3)):
            y, x = rng.randrange(h), rng.randrange(w)
            for _ in range(rng.randint(1, h + w)):
                g[y][x] = 0
                y = min(h - 1, max(0, y + rng.choice([-1, 0, 1]))); x = min(w - 1, max(0, x + rng.choice([-1, 0, 1])))
    elif style == 3:                     # mostly unmasked, pin holes
        g = [[0] * w for _ in range(h)]
        for _ in range(rng.randint(0, 4)): g[rng.randrange(h)][rng.randrange(w)] = 1
    else:                                # annulus-like
        cy, cx = (h - 1) / 2, (w - 1) / 2; ro = rng.uniform(1, max(h, w) / 2 + 0.5); ri = rng.uniform(0, ro)
        for y in range(h):
            for x in range(w):
                r = ((y - cy) ** 2 + (x - cx) ** 2) ** 0.5
                g[y][x] = 0 if ri <= r <= ro else 1
    return ["".join(str(v) for v in r) for r in g]

GEOMS = [[1, 1, 0, 0], [2, 1, 1, -2], [1, 2, -3, 0], [2, 2, 0, 1]]
KS = [1, 3, 5, 7]

def gen_inputs(tier, rng):
    big = tier == "thorough"
    i = 0
    # ---- exhaustive, util level (quick: all shapes with H*W <= 10 plus 3x4 / 4x3, the 12-cell shapes that have interior
    #      pixels; thorough: all shapes with H*W <= 12)
    for (h, w) in shapes_upto(12):
        if not big and h * w > 10 and (h, w) not in ((3, 4), (4, 3)): continue
        for ms in all_masks(h, w):
            i += 1
            yield {"op": "util", "m": ms, "buffer": i % 3}
            if h * w <= 9 or (big and i % 4 == 0): yield {"op": "checkedge", "m": ms}
            if h * w <= 9 or big: yield {"op": "views", "m": ms, "g": GEOMS[i % 4]}
            if h * w <= 9 and not big:
                for k in ([1, 1], [1, 3], [3, 1], [3, 3]):
                    i += 1
                    if k[0] != k[1] and i % 2: continue
                    yield {"op": "blurutil" if (i // 2) % 2 else "blur", "m": ms, "k": k}
            elif big:
                ks9 = list(itertools.product([1, 3, 5], repeat=2))
                for k in (ks9 if h * w <= 9 else [(3, 3), ks9[i % 9]]):
                    i += 1
                    yield {"op": "blurutil" if i % 2 else "blur", "m": ms, "k": list(k)}
            elif (h, w) in ((3, 4), (4, 3)):
                i += 1
                yield {"op": "blurutil" if i % 2 else "blur", "m": ms, "k": [3, 3]}
    if big:
        for (h, w) in ((4, 4), (3, 5), (5, 3)):
            for ms in all_masks(h, w):
                i += 1
                yield {"op": "util", "m": ms, "buffer": i % 3}
                if i % 2: yield {"op": "views", "m": ms, "g": GEOMS[(i // 2) % 4]}
        for ms in all_masks(3, 3):
            for k in itertools.product([1, 3, 5], repeat=2):
                i += 1
                yield {"op": ("blurutil", "blur", "blurgrid")[i % 3], "m": pad(ms, 1, 1), "k": list(k), "g": GEOMS[i % 4]}
    # ---- even / non-positive kernels: the public entry point rejects even ones
    for ms in (["111", "101", "111"], ["11111", "11011", "11111"], ["0"], ["1111", "1001", "1111", "1111"]):
        for k in ([2, 3], [3, 2], [4, 4], [2, 2], [3, 4], [0, 3], [-1, 3], [-1, -1], [3, -3]):
            yield {"op": "blur", "m": ms, "k": k}
            yield {"op": "blurutil", "m": ms, "k": k}
            yield {"op": "blurgrid", "m": ms, "k": k, "g": GEOMS[1]}
    # ---- random larger masks
    n = 6000 if big else 500
    for j in range(n):
        h, w = rng.randint(1, 9), rng.randint(1, 9)
        ms = rand_mask(rng, h, w)
        yield {"op": "util", "m": ms, "buffer": rng.choice([0, 1, 1, 2, 3])}
        yield {"op": "views", "m": ms, "g": rng.choice(GEOMS)}
        if j % 4 == 0: yield {"op": "checkedge", "m": ms}
        # blurring: kernel and a padding ring that fits exactly, is one short, or is generous
        kh, kw = rng.choice(KS), rng.choice(KS)
        ih, iw = rng.randint(1, 5), rng.randint(1, 5)
        inner = rand_mask(rng, ih, iw)
        py = max(0, kh // 2 + rng.choice([0, 0, 0, 1, -1])); px_ = max(0, kw // 2 + rng.choice([0, 0, 0, 1, -1]))
        pm = pad(inner, py, px_)
        yield {"op": rng.choice(["blurutil", "blur", "blurgrid"]), "m": pm, "k": [kh, kw], "g": rng.choice(GEOMS)}
        if j % 5 == 0:
            # a kernel with an even side on a generously padded mask (the loops alone would not raise): the public
            # entry points must reject it
            ek = rng.choice([[kh, kw + 1], [kh + 1, kw], [kh + 1, kw + 1]])
            yield {"op": rng.choice(["blur", "blurgrid", "blurutil"]), "m": pad(inner, ek[0] // 2 + 1, ek[1] // 2 + 1), "k": ek,
                   "g": rng.choice(GEOMS)}
        yield {"op": rng.choice(["blurutil", "blur", "blurgrid"]), "m": ms, "k": [rng.choice(KS[:3]), rng.choice(KS[:3])], "g": rng.choice(GEOMS)}

# ----------------------------------------------------------------------------- implementation calls
def _classify(M):
    h, w = len(M), len(M[0])
    un = [(y, x) for y in range(h) for x in range(w) if not M[y][x]]
    ring = any(y in (0, h - 1) or x in (0, w - 1) for y, x in un)
    return un, ring

def run_case(inp):
    aa = import_aa()
    from autoarray.mask import mask_2d_util as u
    op = inp["op"]
    M = rows_of(inp["m"])
    arr = np.array(M, dtype=bool)
    un, ring = _classify(M)
    nontrivial = len(un) > 0
    kind = op
    out = None; coq = None; py_ok = None; detail = None
    if op in ("blurutil", "blur", "blurgrid"):
        kh, kw = inp["k"]
        if op == "blurutil":
            r = call_res(u.blurring_mask_2d_from, mask_2d=arr, kernel_shape_native=(kh, kw))
            out = r if r[0] == "raise" else ("ok", mask_out(r[1]))
            coq = f"KBlurUtil {cmask(M)} {cz(kh)} {cz(kw)} {cres(out, cmask)}"
        elif op == "blur":
            def f():
                m = aa.Mask2D(mask=arr, pixel_scales=1.0)
                return m.derive_mask.blurring_from(kernel_shape_native=(kh, kw))
            r = call_res(f)
            out = r if r[0] == "raise" else ("ok", mask_out(r[1]))
            coq = f"KBlur {cmask(M)} {cz(kh)} {cz(kw)} {cres(out, cmask)}"
        else:
            sy, sx, oy, ox = inp["g"]
            def f():
                m = aa.Mask2D(mask=arr, pixel_scales=(float(sy), float(sx)), origin=(float(oy), float(ox)))
                return aa.Grid2D.blurring_grid_from(mask=m, kernel_shape_native=(kh, kw))
            r = call_res(f)
            out = r if r[0] == "raise" else ("ok", pairs2(r[1]))
            coq = f"KBlurGrid {cmask(M)} {cz(kh)} {cz(kw)} {ctup([cz(v) for v in inp['g']])} {cres(out, cpxl)}"
        kind = op + (":ok" if out[0] == "ok" else ":" + out[1])
        if kh % 2 == 0 or kw % 2 == 0 or kh <= 0 or kw <= 0: kind += ":evenk"
    elif op == "util":
        b = int(inp["buffer"])
        def f():
            return (int(u.total_edge_pixels_from(mask_2d=arr)), ints(u.edge_1d_indexes_from(mask_2d=arr)),
                    ints(u.border_slim_indexes_from(mask_2d=arr)), mask_out(u.buffed_mask_2d_from(mask_2d=arr, buffer=b)))
        r = call_res(f)
        if r[0] == "raise":
            py_ok = False; detail = "util raised " + r[1]; out = r
        else:
            out = list(r[1])
            coq = f"KUtil {cmask(M)} {cz(out[0])} {czl(out[1])} {czl(out[2])} {cz(b)} {cmask(out[3])}"
            if out[1] != out[2]: kind += ":inner-edge"
    elif op == "checkedge":
        r = call_res(lambda: [bool(u.check_if_edge_pixel(mask_2d=arr, y=y, x=x)) for (y, x) in un])
        if r[0] == "raise":
            py_ok = False; detail = "check_if_edge_pixel raised " + r[1]; out = r
        else:
            out = r[1]
            coq = f"KCheckEdge {cmask(M)} {clist([cbool(v) for v in out])}"
    elif op == "views":
        sy, sx, oy, ox = inp["g"]
        def f():
            m = aa.Mask2D(mask=arr, pixel_scales=(float(sy), float(sx)), origin=(float(oy), float(ox)))
            di, dm, dg = m.derive_indexes, m.derive_mask, m.derive_grid
            ge, gb = dg.edge, dg.border
            return {"edge_slim": ints(di.edge_slim), "edge_native": pairs(di.edge_native),
                    "border_slim": ints(di.border_slim), "border_native": pairs(di.border_native),
                    "mask_edge": mask_out(dm.edge), "mask_border": mask_out(dm.border), "mask_buffed": mask_out(dm.edge_buffed),
                    "grid_edge": pairs2(ge), "grid_edge_mask": mask_out(ge.mask),
                    "grid_border": pairs2(gb), "grid_border_mask": mask_out(gb.mask)}
        r = call_res(f)
        if r[0] == "raise":
            py_ok = False; detail = "a derive_* view raised " + r[1]; out = r
        else:
            o = out = r[1]
            coq = (f"KViews {cmask(M)} {ctup([cz(v) for v in inp['g']])} (Build_views {czl(o['edge_slim'])} {cpxl(o['edge_native'])} "
                   f"{czl(o['border_slim'])} {cpxl(o['border_native'])} {cmask(o['mask_edge'])} {cmask(o['mask_border'])} "
                   f"{cmask(o['mask_buffed'])} {cpxl(o['grid_edge'])} {cmask(o['grid_edge_mask'])} {cpxl(o['grid_border'])} "
                   f"{cmask(o['grid_border_mask'])})")
            if o["edge_slim"] != o["border_slim"]: kind += ":inner-edge"
    else:
        raise ValueError(op)
    if ring: kind += ":ring"
    _t(kind); _t(f"unmasked={min(len(un), 10)}{'+' if len(un) >= 10 else ''}")
    return {"coq": None if coq is None else "(" + coq + ")", "out": out, "py_ok": py_ok, "nontrivial": nontrivial,
            "kind": op, "detail": detail}
