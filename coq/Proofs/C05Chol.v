(* C05 -- the Cholesky factor updates (Model/C05Chol.v) preserve the contract  U^T U = A[P_inorder][:, P_inorder],  at ROps. *)
From Coq Require Import Nsatz.
From Coq Require Import ZArith List Bool Reals Lra Lia Permutation Arith Sorted.
From PAV Require Import Base.Res Base.Check Base.NumOps Base.Sum Model.C05Chol Proofs.C05.
Import ListNotations.
Local Open Scope R_scope.

Ltac normc := unfold tri in *; cbn [T ROps] in *.

(* ---------------------------------------------------------------- shapes *)
(* an upper-triangular n x n factor with positive diagonal, rows stored from the diagonal on *)
Fixpoint shaped (n : nat) (U : list (list R)) : Prop :=
  match U with
  | [] => n = 0%nat
  | row :: rest => length row = n /\ 0 < hd 0 row /\ shaped (pred n) rest
  end.

Lemma shaped_length n U : shaped n U -> length U = n.
Proof.
  revert n. induction U as [|row rest IH]; intros n H; cbn in H; [subst; reflexivity|].
  destruct H as [Hl [Hd Hs]]. cbn [length]. rewrite (IH _ Hs).
  destruct row; cbn in *; [lra|]. lia.
Qed.

Definition gramR (U : list (list R)) (i j : nat) : R := @gram ROps U i j.

Lemma gramR_cons row rest i j :
  gramR (row :: rest) i j = nth i row 0 * nth j row 0 + match i, j with S i', S j' => gramR rest i' j' | _, _ => 0 end.
Proof. unfold gramR. cbn [gram add mul ROps]. destruct i, j; reflexivity. Qed.
Lemma gramR_nil i j : gramR [] i j = 0. Proof. reflexivity. Qed.

Lemma gramR_sym U : forall i j, gramR U i j = gramR U j i.
Proof.
  induction U as [|row rest IH]; intros i j; [reflexivity|].
  rewrite !gramR_cons. destruct i, j; try lra. rewrite (IH i j). lra.
Qed.

Lemma nth_map2_R (f : R -> R -> R) : forall (a b : list R) k,
  length a = length b -> f 0 0 = 0 -> nth k (map2 f a b) 0 = f (nth k a 0) (nth k b 0).
Proof.
  induction a as [|x a IH]; intros [|y b] k Hl Hf; cbn in Hl; try discriminate.
  - destruct k; cbn; symmetry; exact Hf.
  - destruct k as [|k]; [reflexivity|]. cbn [nth]. change (map2 f (x :: a) (y :: b)) with (f x y :: map2 f a b). cbn [nth].
    apply IH; [lia|exact Hf].
Qed.
Lemma map2_length {A B C} (f : A -> B -> C) a b : length a = length b -> length (map2 f a b) = length a.
Proof. intros H. unfold map2. rewrite map_length, combine_length. lia. Qed.

(* ---------------------------------------------------------------- _cholupdate *)
Lemma rot_alg c s a b p q : c <> 0 -> c * c = 1 + s * s ->
  ((a + s * p) / c) * ((b + s * q) / c) + (c * p - s * ((a + s * p) / c)) * (c * q - s * ((b + s * q) / c)) = a * b + p * q.
Proof.
  intros Hc Hcc. unfold Rdiv.
  assert (Hi : c * / c = 1) by (apply Rinv_r; exact Hc).
  set (ic := / c) in *. clearbody ic. nsatz.
Qed.

Lemma cholupdate_cons (row : list R) (rest' : list (list R)) xk xs :
  @cholupdate ROps (row :: rest') (xk :: xs) =
  let ukk := hd 0 row in
  let r := sqrt (ukk * ukk + xk * xk) in
  let c := r / ukk in
  let s := xk / ukk in
  let urow := map2 (fun u xv => (u + s * xv) / c) (tl row) xs in
  let xs' := map2 (fun xv u' => c * xv - s * u') xs urow in
  (r :: urow) :: @cholupdate ROps rest' xs'.
Proof. reflexivity. Qed.

Lemma cholupdate_spec : forall U n (x : list R), shaped n U -> length x = n ->
  shaped n (@cholupdate ROps U x) /\
  forall i j, gramR (@cholupdate ROps U x) i j = gramR U i j + nth i x 0 * nth j x 0.
Proof.
  induction U as [|row rest IH]; intros n x Hs Hx.
  - cbn in Hs. subst n. destruct x; [|discriminate]. split; [reflexivity|]. intros i j. cbn [cholupdate]. rewrite gramR_nil.
    destruct i, j; cbn; lra.
  - cbn [shaped] in Hs. destruct Hs as [Hl [Hd Hrest]].
    destruct row as [|ukk ur]; [cbn in Hd; lra|]. cbn [hd] in Hd. cbn [length] in Hl.
    destruct x as [|xk xs]; [cbn in Hx; lia|]. cbn [length] in Hx.
    assert (Hlen : length ur = length xs) by lia.
    rewrite cholupdate_cons. cbn [hd tl]. cbv zeta.
    set (r := sqrt (ukk * ukk + xk * xk)).
    assert (Hrr : r * r = ukk * ukk + xk * xk) by (apply sqrt_sqrt; nra).
    assert (Hr : 0 < r) by (apply sqrt_lt_R0; nra).
    set (c := r / ukk). set (s := xk / ukk).
    assert (Hc : c <> 0) by (unfold c; apply Rmult_integral_contrapositive_currified; [lra|apply Rinv_neq_0_compat; lra]).
    assert (Hcc : c * c = 1 + s * s).
    { unfold c, s. apply (Rmult_eq_reg_r (ukk * ukk)); [|nra].
      replace (r / ukk * (r / ukk) * (ukk * ukk)) with (r * r) by (field; lra).
      replace ((1 + xk / ukk * (xk / ukk)) * (ukk * ukk)) with (ukk * ukk + xk * xk) by (field; lra). exact Hrr. }
    set (urow := map2 (fun u xv => (u + s * xv) / c) ur xs).
    set (xs' := map2 (fun xv u' => c * xv - s * u') xs urow).
    assert (Hurow : length urow = length ur) by (unfold urow; apply map2_length; exact Hlen).
    assert (Hxs' : length xs' = length xs) by (unfold xs'; apply map2_length; rewrite Hurow; symmetry; exact Hlen).
    assert (Hnu : forall k, nth k urow 0 = (nth k ur 0 + s * nth k xs 0) / c).
    { intros k. unfold urow. rewrite nth_map2_R; [reflexivity|exact Hlen|]. unfold Rdiv. ring. }
    assert (Hnx : forall k, nth k xs' 0 = c * nth k xs 0 - s * nth k urow 0).
    { intros k. unfold xs'. rewrite nth_map2_R; [reflexivity|rewrite Hurow; symmetry; exact Hlen|ring]. }
    assert (Hxs'n : length xs' = pred n) by (rewrite Hxs'; lia).
    destruct (IH (pred n) xs' Hrest Hxs'n) as [IHs IHg].
    split.
    + cbn [shaped hd length]. repeat split; [lia|exact Hr|exact IHs].
    + intros i j. rewrite !gramR_cons. destruct i as [|i'], j as [|j']; cbn [nth].
      * lra.
      * rewrite Hnu. replace (r * ((nth j' ur 0 + s * nth j' xs 0) / c)) with (ukk * nth j' ur 0 + xk * nth j' xs 0);
          [lra|]. unfold c, s. field. split; lra.
      * rewrite Hnu. replace ((nth i' ur 0 + s * nth i' xs 0) / c * r) with (nth i' ur 0 * ukk + nth i' xs 0 * xk);
          [lra|]. unfold c, s. field. split; lra.
      * rewrite IHg, !Hnx, !Hnu.
        pose proof (rot_alg c s (nth i' ur 0) (nth j' ur 0) (nth i' xs 0) (nth j' xs 0) Hc Hcc) as E. lra.
Qed.

(* ---------------------------------------------------------------- deleting one index *)
Definition skip (k i : nat) : nat := if (i <? k)%nat then i else S i.

Lemma nth_remove_nth {A} (d : A) : forall k (l : list A) i, nth i (remove_nth k l) d = nth (skip k i) l d.
Proof.
  induction k as [|k IH]; intros l i.
  - destruct l as [|a t]; cbn [remove_nth]; unfold skip; cbn; [destruct i; reflexivity|reflexivity].
  - destruct l as [|a t]; cbn [remove_nth].
    + unfold skip. destruct (i <? S k)%nat; destruct i; reflexivity.
    + destruct i as [|i]; [reflexivity|]. cbn [nth]. rewrite IH. unfold skip.
      change (S i <? S k)%nat with (i <? k)%nat. destruct (i <? k)%nat; reflexivity.
Qed.

Lemma remove_nth_length {A} : forall k (l : list A), (k < length l)%nat -> length (remove_nth k l) = pred (length l).
Proof.
  induction k as [|k IH]; intros [|a t] H; cbn in *; try lia.
  rewrite IH by lia. destruct t; cbn in *; lia.
Qed.

Lemma choldelete_spec : forall idx U n, shaped n U -> (idx < n)%nat ->
  shaped (pred n) (@choldelete ROps U idx) /\
  forall i j, gramR (@choldelete ROps U idx) i j = gramR U (skip idx i) (skip idx j).
Proof.
  induction idx as [|k IH]; intros U n Hs Hk.
  - destruct U as [|row rest]; [cbn in Hs; lia|]. cbn [shaped] in Hs. destruct Hs as [Hl [Hd Hrest]].
    destruct row as [|ukk ur]; [cbn in Hd; lra|]. cbn [length] in Hl.
    cbn [choldelete tl].
    assert (Hur : length ur = pred n) by lia.
    destruct (cholupdate_spec rest (pred n) ur Hrest Hur) as [S1 G1].
    split; [exact S1|]. intros i j. rewrite G1. unfold skip. cbn [Nat.ltb Nat.leb]. rewrite gramR_cons. cbn [nth]. cbn [T ROps] in *. ring.
  - destruct U as [|row rest]; [cbn in Hs; lia|]. cbn [shaped] in Hs. destruct Hs as [Hl [Hd Hrest]].
    destruct row as [|ukk ur]; [cbn in Hd; lra|]. cbn [length] in Hl.
    assert (Hkn : (k < pred n)%nat) by lia.
    destruct (IH rest (pred n) Hrest Hkn) as [S1 G1].
    cbn [choldelete]. split.
    + cbn [shaped]. repeat split.
      * rewrite remove_nth_length by (cbn [length]; lia). cbn [length]. lia.
      * cbn [remove_nth hd]. exact Hd.
      * exact S1.
    + intros i j. rewrite !gramR_cons, !(nth_remove_nth 0).
      assert (E0 : skip (S k) 0 = 0%nat) by reflexivity.
      assert (ES : forall t, skip (S k) (S t) = S (skip k t)).
      { intros t. unfold skip. change (S t <? S k)%nat with (t <? k)%nat. destruct (t <? k)%nat; reflexivity. }
      destruct i as [|i'], j as [|j']; rewrite ?E0, ?ES; cbn [T ROps] in *.
      * ring.
      * ring.
      * ring.
      * rewrite G1. ring.
Qed.

(* ---------------------------------------------------------------- deleting a sequence of indexes *)
Fixpoint skips (ks : list nat) (i : nat) : nat :=
  match ks with
  | [] => i
  | k :: t => skip k (skips t i)
  end.
Definition remove_seq {A} (ks : list nat) (l : list A) : list A := fold_left (fun l k => remove_nth k l) ks l.

Lemma skip_le k i : (skip k i <= S i)%nat.
Proof. unfold skip. destruct (i <? k)%nat; lia. Qed.
Lemma skips_le ks : forall i, (skips ks i <= i + length ks)%nat.
Proof. induction ks as [|k t IH]; intros i; cbn [skips length]; [lia|]. pose proof (skip_le k (skips t i)). pose proof (IH i). lia. Qed.

Lemma nth_remove_seq {A} (d : A) : forall ks (l : list A) i, nth i (remove_seq ks l) d = nth (skips ks i) l d.
Proof.
  induction ks as [|k t IH]; intros l i; [reflexivity|].
  unfold remove_seq. cbn [fold_left skips]. fold (remove_seq t (remove_nth k l)).
  rewrite IH, nth_remove_nth. reflexivity.
Qed.

(* every index is in range when its turn comes: k_t < n - t *)
Fixpoint in_range (n : nat) (ks : list nat) : Prop :=
  match ks with
  | [] => True
  | k :: t => (k < n)%nat /\ in_range (pred n) t
  end.

Lemma fold_choldelete_spec : forall ks U n, shaped n U -> in_range n ks ->
  shaped (n - length ks) (fold_left (@choldelete ROps) ks U) /\
  forall i j, gramR (fold_left (@choldelete ROps) ks U) i j = gramR U (skips ks i) (skips ks j).
Proof.
  induction ks as [|k t IH]; intros U n Hs Hr.
  - cbn [fold_left length skips]. rewrite Nat.sub_0_r. split; [exact Hs|reflexivity].
  - cbn [in_range] in Hr. destruct Hr as [Hk Ht].
    destruct (choldelete_spec k U n Hs Hk) as [S1 G1].
    destruct (IH (@choldelete ROps U k) (pred n) S1 Ht) as [S2 G2].
    cbn [fold_left length skips]. split.
    + replace (n - S (length t))%nat with (pred n - length t)%nat by lia. exact S2.
    + intros i j. rewrite G2, G1. reflexivity.
Qed.

(* ---- sequential deletion, largest index first, is np.delete(l, indexes) (all positions at once) *)
Fixpoint delete_from {A} (pos : nat) (ks : list nat) (l : list A) : list A :=
  match l with
  | [] => []
  | a :: t => if existsb (Nat.eqb pos) ks then delete_from (S pos) ks t else a :: delete_from (S pos) ks t
  end.

Lemma delete_all_from {A} ks (l : list A) : delete_all ks l = delete_from 0 ks l.
Proof.
  unfold delete_all. generalize 0%nat as pos. induction l as [|a t IH]; intros pos; [reflexivity|].
  cbn [length seq combine filter fst delete_from]. destruct (existsb (Nat.eqb pos) ks); cbn [negb map snd]; rewrite IH; reflexivity.
Qed.

Lemma delete_from_none {A} : forall (l : list A) pos ks, (forall k, In k ks -> (k < pos)%nat) -> delete_from pos ks l = l.
Proof.
  induction l as [|a t IH]; intros pos ks H; [reflexivity|]. cbn [delete_from].
  destruct (existsb (Nat.eqb pos) ks) eqn:E.
  - apply existsb_exists in E. destruct E as [k [Hin Hk]]. apply Nat.eqb_eq in Hk. subst k. specialize (H pos Hin). lia.
  - f_equal. apply IH. intros k Hin. specialize (H k Hin). lia.
Qed.

Lemma delete_from_remove_nth {A} : forall (l : list A) k pos ks, (forall x, In x ks -> (x < pos + k)%nat) ->
  delete_from pos ks (remove_nth k l) = delete_from pos ((pos + k)%nat :: ks) l.
Proof.
  induction l as [|a t IH]; intros k pos ks H.
  - destruct k; reflexivity.
  - destruct k as [|k].
    + cbn [remove_nth delete_from existsb]. rewrite Nat.add_0_r, Nat.eqb_refl. cbn [orb].
      rewrite Nat.add_0_r in H.
      rewrite (delete_from_none t (S pos) (pos :: ks)).
      * apply delete_from_none. exact H.
      * intros x [<-|Hin]; [lia|]. specialize (H x Hin). lia.
    + cbn [remove_nth delete_from existsb].
      assert (En : (pos =? pos + S k)%nat = false) by (apply Nat.eqb_neq; lia). rewrite En. cbn [orb].
      replace (pos + S k)%nat with (S pos + k)%nat by lia.
      rewrite (IH k (S pos) ks) by (intros x Hin; specialize (H x Hin); lia).
      reflexivity.
Qed.

(* strictly descending *)
Fixpoint desc (ks : list nat) : Prop :=
  match ks with
  | [] => True
  | k :: t => (forall x, In x t -> (x < k)%nat) /\ desc t
  end.

Lemma remove_seq_desc {A} : forall ks (l : list A), desc ks -> remove_seq ks l = delete_all ks l.
Proof.
  induction ks as [|k t IH]; intros l Hd.
  - rewrite delete_all_from. unfold remove_seq. cbn [fold_left]. symmetry. apply delete_from_none. intros k [].
  - cbn [desc] in Hd. destruct Hd as [Hlt Hd].
    unfold remove_seq. cbn [fold_left]. fold (remove_seq t (remove_nth k l)).
    rewrite IH by exact Hd. rewrite !delete_all_from.
    rewrite (delete_from_remove_nth l k 0 t) by (intros x Hin; specialize (Hlt x Hin); lia).
    reflexivity.
Qed.

Lemma desc_in_range : forall ks n, desc ks -> (forall k, In k ks -> (k < n)%nat) -> in_range n ks.
Proof.
  induction ks as [|k t IH]; intros n Hd Hn; cbn [in_range]; [exact I|].
  cbn [desc] in Hd. destruct Hd as [Hlt Hd]. split; [apply Hn; left; reflexivity|].
  apply IH; [exact Hd|]. intros x Hin. specialize (Hlt x Hin). specialize (Hn k (or_introl eq_refl)). lia.
Qed.

(* insertion sort, descending *)
Lemma insert_desc_In k l x : In x (insert_desc k l) <-> x = k \/ In x l.
Proof.
  induction l as [|a t IH]; cbn [insert_desc]; [cbn; intuition|].
  destruct (Nat.leb a k); cbn [In]; [intuition|]. rewrite IH. intuition.
Qed.
Lemma sort_desc_In l x : In x (sort_desc l) <-> In x l.
Proof.
  induction l as [|a t IH]; [reflexivity|]. unfold sort_desc in *. cbn [fold_right]. rewrite insert_desc_In, IH. cbn [In]. intuition.
Qed.
Lemma insert_desc_desc k l : desc l -> ~ In k l -> desc (insert_desc k l).
Proof.
  induction l as [|a t IH]; intros Hd Hn; cbn [insert_desc]; [cbn; intuition|].
  cbn [desc] in Hd. destruct Hd as [Hlt Hd].
  destruct (Nat.leb a k) eqn:E.
  - apply Nat.leb_le in E. cbn [desc]. split; [|split; assumption].
    intros x [Hx|Hin]; [|specialize (Hlt x Hin); lia]. subst x.
    assert (a <> k) by (intros ->; apply Hn; left; reflexivity). lia.
  - apply Nat.leb_gt in E. cbn [desc]. split.
    + intros x Hin. apply insert_desc_In in Hin. destruct Hin as [->|Hin]; [exact E|apply Hlt; exact Hin].
    + apply IH; [exact Hd|]. intros Hin. apply Hn. right. exact Hin.
Qed.
Lemma sort_desc_desc l : NoDup l -> desc (sort_desc l).
Proof.
  induction l as [|a t IH]; intros Hnd; [exact I|]. inversion Hnd as [|? ? Hnin Hnd']; subst.
  unfold sort_desc in *. cbn [fold_right]. apply insert_desc_desc; [apply IH; exact Hnd'|].
  intros Hin. apply Hnin. apply (sort_desc_In t a). exact Hin.
Qed.
Lemma sort_desc_length l : length (sort_desc l) = length l.
Proof.
  assert (H : forall k l, length (insert_desc k l) = S (length l)).
  { intros k l0. induction l0 as [|a t IH]; cbn [insert_desc]; [reflexivity|]. destruct (Nat.leb a k); cbn [length]; [reflexivity|]. rewrite IH. reflexivity. }
  induction l as [|a t IH]; [reflexivity|]. unfold sort_desc in *. cbn [fold_right]. rewrite H, IH. reflexivity.
Qed.

Lemma delete_from_ext {A} ks1 ks2 : (forall x, In x ks1 <-> In x ks2) -> forall (l : list A) pos, delete_from pos ks1 l = delete_from pos ks2 l.
Proof.
  intros H. induction l as [|a t IH]; intros pos; [reflexivity|]. cbn [delete_from].
  assert (E : existsb (Nat.eqb pos) ks1 = existsb (Nat.eqb pos) ks2).
  { apply eq_true_iff_eq. rewrite !existsb_exists. split; intros [x [Hin Hx]]; exists x; (split; [apply H; exact Hin|exact Hx]). }
  rewrite E, IH. reflexivity.
Qed.

(* choldeleteindexes: the contract  U^T U = A[P_inorder][:, P_inorder]  survives the deletion of any set of positions *)
Theorem choldeleteindexes_contract : forall n U indexes (Aij : nat -> nat -> R) (Pin : list nat),
  shaped n U -> NoDup indexes -> (forall k, In k indexes -> (k < n)%nat) -> length Pin = n ->
  (forall i j, (i < n)%nat -> (j < n)%nat -> gramR U i j = Aij (nth i Pin 0%nat) (nth j Pin 0%nat)) ->
  let U' := @choldeleteindexes ROps U indexes in
  let Pin' := delete_all indexes Pin in
  let n' := (n - length indexes)%nat in
  shaped n' U' /\
  forall i j, (i < n')%nat -> (j < n')%nat -> gramR U' i j = Aij (nth i Pin' 0%nat) (nth j Pin' 0%nat).
Proof.
  intros n U indexes Aij Pin Hs Hnd Hrange HPin HG U' Pin' n'.
  set (ks := sort_desc indexes).
  assert (Hd : desc ks) by (apply sort_desc_desc; exact Hnd).
  assert (Hr : in_range n ks).
  { apply desc_in_range; [exact Hd|]. intros k Hk. apply Hrange. apply (sort_desc_In indexes k). exact Hk. }
  destruct (fold_choldelete_spec ks U n Hs Hr) as [S1 G1].
  assert (Hlen : length ks = length indexes) by apply sort_desc_length.
  split.
  - unfold U', choldeleteindexes, n'. rewrite <- Hlen. exact S1.
  - intros i j Hi Hj. unfold U', choldeleteindexes. fold ks. rewrite G1.
    assert (HP : Pin' = remove_seq ks Pin).
    { unfold Pin'. rewrite (remove_seq_desc ks Pin Hd), !delete_all_from.
      apply delete_from_ext. intros x. symmetry. apply sort_desc_In. }
    rewrite HP, !(nth_remove_seq 0%nat).
    pose proof (skips_le ks i). pose proof (skips_le ks j). unfold n' in *.
    apply HG; lia.
Qed.

(* ---------------------------------------------------------------- cholinsertlast *)
Fixpoint colsumR (U : list (list R)) (y : list R) (i : nat) : R :=       (* (U^T y)_i *)
  match U, y with
  | row :: rest, yr :: ys => nth i row 0 * yr + match i with S i' => colsumR rest ys i' | 0%nat => 0 end
  | _, _ => 0
  end.

Lemma fsubst_cons (row : list R) (rest : list (list R)) (xk : R) (xs : list R) :
  @fsubst ROps (row :: rest) (xk :: xs) =
  (xk / hd 0 row) :: @fsubst ROps rest (map2 (fun xv u => xv - (xk / hd 0 row) * u) xs (tl row)).
Proof. reflexivity. Qed.

Lemma fsubst_spec : forall U n (x : list R), shaped n U -> length x = n ->
  length (@fsubst ROps U x) = n /\ forall i, (i < n)%nat -> colsumR U (@fsubst ROps U x) i = nth i x 0.
Proof.
  induction U as [|row rest IH]; intros n x Hs Hx.
  - cbn in Hs. subst n. split; [reflexivity|]. intros i Hi. lia.
  - cbn [shaped] in Hs. destruct Hs as [Hl [Hd Hrest]].
    destruct row as [|ukk ur]; [cbn in Hd; lra|]. cbn [hd] in Hd. cbn [length] in Hl.
    destruct x as [|xk xs]; [cbn in Hx; lia|]. cbn [length] in Hx.
    assert (Hlen : length xs = length ur) by lia.
    rewrite fsubst_cons. cbn [hd tl].
    set (y0 := xk / ukk).
    set (xs' := map2 (fun xv u => xv - y0 * u) xs ur).
    assert (Hxs' : length xs' = pred n) by (unfold xs'; rewrite map2_length by exact Hlen; lia).
    destruct (IH (pred n) xs' Hrest Hxs') as [L1 C1].
    split; [cbn [length]; rewrite L1; lia|].
    intros i Hi. cbn [colsumR]. destruct i as [|i']; cbn [nth].
    + unfold y0. field. lra.
    + rewrite C1 by lia. unfold xs'. rewrite nth_map2_R; [ring|exact Hlen|ring].
Qed.

Lemma bordered_cons (row : list R) rest yr ys d :
  @bordered ROps (row :: rest) (yr :: ys) d = (row ++ [yr]) :: @bordered ROps rest ys d.
Proof. reflexivity. Qed.

Lemma bordered_spec : forall U n (y : list R) (d : R), shaped n U -> length y = n -> 0 < d ->
  shaped (S n) (@bordered ROps U y d) /\
  (forall i j, (i < n)%nat -> (j < n)%nat -> gramR (@bordered ROps U y d) i j = gramR U i j) /\
  (forall i, (i < n)%nat -> gramR (@bordered ROps U y d) i n = colsumR U y i) /\
  gramR (@bordered ROps U y d) n n = dotR y y + d * d.
Proof.
  induction U as [|row rest IH]; intros n y d Hs Hy Hd0.
  - cbn in Hs. subst n. destruct y; [|discriminate]. cbn [bordered].
    split; [cbn; repeat split; lra|]. split; [intros; lia|]. split; [intros; lia|].
    rewrite gramR_cons. cbn [nth]. unfold dotR. cbn. ring.
  - cbn [shaped] in Hs. destruct Hs as [Hl [Hd Hrest]].
    destruct row as [|ukk ur]; [cbn in Hd; lra|]. cbn [hd] in Hd.
    destruct n as [|n']; [cbn in Hl; lia|]. cbn [pred] in *.
    destruct y as [|yr ys]; [cbn in Hy; lia|]. cbn [length] in Hy.
    assert (Hys : length ys = n') by lia.
    destruct (IH n' ys d Hrest Hys Hd0) as [S1 [G1 [G2 G3]]].
    rewrite bordered_cons. cbn [T ROps] in *.
    assert (Hin : forall i, (i < S n')%nat -> nth i ((ukk :: ur) ++ [yr]) 0 = nth i (ukk :: ur) 0).
    { intros i Hi. apply app_nth1. rewrite Hl. exact Hi. }
    assert (Hlast : nth (S n') ((ukk :: ur) ++ [yr]) 0 = yr).
    { rewrite app_nth2 by (rewrite Hl; lia). rewrite Hl, Nat.sub_diag. reflexivity. }
    repeat split.
    + rewrite app_length, Hl. cbn [length]. lia.
    + cbn [app hd]. exact Hd.
    + exact S1.
    + intros i j Hi Hj. rewrite !gramR_cons. rewrite (Hin i Hi), (Hin j Hj).
      destruct i as [|i'], j as [|j']; try reflexivity. rewrite G1 by lia. reflexivity.
    + intros i Hi. rewrite gramR_cons. rewrite Hlast. rewrite (Hin i Hi). cbn [colsumR].
      destruct i as [|i']; [reflexivity|]. rewrite G2 by lia. reflexivity.
    + rewrite gramR_cons, Hlast. rewrite G3. rewrite dotR_cons. ring.
Qed.

Lemma nth_firstn_lt {A} (d : A) : forall m (l : list A) i, (i < m)%nat -> nth i (firstn m l) d = nth i l d.
Proof.
  induction m as [|m IH]; intros l i Hi; [lia|]. destruct l as [|a t]; [destruct i; reflexivity|].
  destruct i as [|i]; [reflexivity|]. cbn [firstn nth]. apply IH. lia.
Qed.

Theorem cholinsertlast_contract : forall m U (x : list R), shaped m U -> length x = S m ->
  let y := @fsubst ROps U (firstn m x) in
  0 < nth m x 0 - dotR y y ->
  let U' := @cholinsertlast ROps U x in
  shaped (S m) U' /\
  (forall i j, (i < m)%nat -> (j < m)%nat -> gramR U' i j = gramR U i j) /\
  (forall i, (i < m)%nat -> gramR U' i m = nth i x 0 /\ gramR U' m i = nth i x 0) /\
  gramR U' m m = nth m x 0.
Proof.
  intros m U x Hs Hx y Hpos U'.
  assert (Hlu : length U = m) by (apply shaped_length; exact Hs).
  assert (Hf : length (firstn m x) = m) by (rewrite firstn_length; lia).
  destruct (fsubst_spec U m (firstn m x) Hs Hf) as [Ly Cy]. fold y in Ly, Cy.
  set (d := sqrt (nth m x 0 - dotR y y)).
  assert (Hd : 0 < d) by (apply sqrt_lt_R0; exact Hpos).
  assert (Hdd : d * d = nth m x 0 - dotR y y) by (apply sqrt_sqrt; lra).
  assert (EU : U' = @bordered ROps U y d).
  { unfold U', cholinsertlast. cbn [T ROps]. rewrite Hlu. fold y. cbn [sqrtT sub ROps]. rewrite dot_dotR, nthT_R. reflexivity. }
  destruct (bordered_spec U m y d Hs Ly Hd) as [S1 [G1 [G2 G3]]].
  rewrite EU. repeat split.
  - exact S1.
  - exact G1.
  - rewrite G2, Cy by assumption. apply nth_firstn_lt. assumption.
  - rewrite gramR_sym, G2, Cy by assumption. apply nth_firstn_lt. assumption.
  - rewrite G3, Hdd. ring.
Qed.

(* the same, in the terms of fnnls_cholesky:  U = cholinsertlast(U, ZTZ[idmax][P_inorder])  after  P_inorder = append(P_inorder, idmax) *)
Theorem cholinsertlast_contract_A : forall m U (Aij : nat -> nat -> R) (Pin : list nat) (idmax : nat),
  shaped m U -> length Pin = m -> (forall a b, Aij a b = Aij b a) ->
  (forall i j, (i < m)%nat -> (j < m)%nat -> gramR U i j = Aij (nth i Pin 0%nat) (nth j Pin 0%nat)) ->
  let Pin' := Pin ++ [idmax] in
  let x := map (Aij idmax) Pin' in
  let y := @fsubst ROps U (firstn m x) in
  0 < nth m x 0 - dotR y y ->
  let U' := @cholinsertlast ROps U x in
  shaped (S m) U' /\
  forall i j, (i < S m)%nat -> (j < S m)%nat -> gramR U' i j = Aij (nth i Pin' 0%nat) (nth j Pin' 0%nat).
Proof.
  intros m U Aij Pin idmax Hs HPin Hsym HG Pin' x y Hpos U'.
  assert (HlP : length Pin' = S m) by (unfold Pin'; rewrite app_length; cbn [length]; lia).
  assert (Hx : length x = S m) by (unfold x; rewrite map_length; exact HlP).
  assert (Hnx : forall i, (i < S m)%nat -> nth i x 0 = Aij idmax (nth i Pin' 0%nat)).
  { intros i Hi. unfold x. rewrite (nth_indep _ 0 (Aij idmax 0%nat)) by (rewrite map_length; lia). apply map_nth. }
  assert (HnP : forall i, (i < m)%nat -> nth i Pin' 0%nat = nth i Pin 0%nat).
  { intros i Hi. unfold Pin'. apply app_nth1. lia. }
  assert (HnPm : nth m Pin' 0%nat = idmax).
  { unfold Pin'. rewrite app_nth2 by lia. rewrite HPin, Nat.sub_diag. reflexivity. }
  destruct (cholinsertlast_contract m U x Hs Hx Hpos) as [S1 [G1 [G2 G3]]]. fold U' in S1, G1, G2, G3.
  split; [exact S1|].
  intros i j Hi Hj.
  destruct (Nat.eq_dec i m) as [Ei|Ei]; destruct (Nat.eq_dec j m) as [Ej|Ej]; [rewrite Ei, Ej|rewrite Ei|rewrite Ej|].
  - rewrite G3, Hnx, HnPm by lia. reflexivity.
  - destruct (G2 j ltac:(lia)) as [_ G2b]. rewrite G2b, Hnx, HnPm by lia. reflexivity.
  - destruct (G2 i ltac:(lia)) as [G2a _]. rewrite G2a, Hnx, HnPm by lia. apply Hsym.
  - rewrite G1, HG, !HnP by lia. reflexivity.
Qed.
