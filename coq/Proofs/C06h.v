(* C06, history layer: after ANY sequence of calls on one mapper object, each call returns the pure
   function of the mapper's inputs (the caches only ever hold those values); hence the theorems about
   the mapping matrix / unique mappings of a fresh mapper hold for every observation of every history. *)
From Coq Require Import ZArith List Bool Arith Lia Reals Lra.
From PAV Require Import Base.Res Base.Check Base.NumOps Base.Sum Model.C06 Model.C06h Proofs.C06.
Import ListNotations.

Section Purity.
  Context {O : NumOps}.
  Notation T := (T O).
  Variable f_psw : unit -> psw_t T.
  Variable f_nb : unit -> nb_out.
  Variables (P N : nat) (sfs subs : list nat) (adapt : list T).

  Notation mstate := (@mstate O).
  Notation step := (step f_psw f_nb P N sfs subs adapt).
  Notation run := (run f_psw f_nb P N sfs subs adapt).
  Notation pure_obs := (pure_obs f_psw f_nb P N sfs subs adapt).

  Let p := f_psw tt.
  Let idx := fst (fst p).
  Let sz := snd (fst p).
  Let wt := snd p.

  (* every filled cache holds the value computed from the inputs *)
  Definition consistent (st : mstate) : Prop :=
    (forall v, c_psw st = Some v -> v = p) /\
    (forall v, c_idx st = Some v -> v = idx) /\
    (forall v, c_sz st = Some v -> v = sz) /\
    (forall v, c_wt st = Some v -> v = wt) /\
    (forall v, c_mm st = Some v -> v = mm_of P N sfs subs idx sz wt) /\
    (forall v, c_uq st = Some v -> v = uq_of P subs idx sz wt) /\
    (forall v, c_nb st = Some v -> v = f_nb tt).

  Lemma consistent_st0 : consistent st0.
  Proof. unfold consistent, st0; cbn. repeat split; intros v H; discriminate H. Qed.

  Ltac cons_split :=
    match goal with H : consistent _ |- _ => destruct H as (Hp & Hi & Hs & Hw & Hm & Hu & Hn) end.
  Ltac cons_solve :=
    unfold consistent; cbn [c_psw c_idx c_sz c_wt c_mm c_uq c_nb];
    repeat split; intros ? HH; try (injection HH as <-; reflexivity); auto.

  Lemma get_psw_ok st : consistent st -> consistent (fst (get_psw f_psw st)) /\ snd (get_psw f_psw st) = p.
  Proof.
    intros H. unfold get_psw. destruct (c_psw st) eqn:E; cbn [fst snd].
    - split; [exact H|]. cons_split. apply Hp. exact E.
    - cons_split. split; [|reflexivity]. cons_solve.
  Qed.
  Lemma get_idx_ok st : consistent st -> consistent (fst (get_idx f_psw st)) /\ snd (get_idx f_psw st) = idx.
  Proof.
    intros H. unfold get_idx. destruct (c_idx st) eqn:E; cbn [fst snd].
    - split; [exact H|]. cons_split. apply Hi. exact E.
    - destruct (get_psw_ok st H) as [H1 H2]. destruct (get_psw f_psw st) as [st1 p1]. cbn [fst snd] in *. subst p1.
      cons_split. split; [|reflexivity]. cons_solve.
  Qed.
  Lemma get_sz_ok st : consistent st -> consistent (fst (get_sz f_psw st)) /\ snd (get_sz f_psw st) = sz.
  Proof.
    intros H. unfold get_sz. destruct (c_sz st) eqn:E; cbn [fst snd].
    - split; [exact H|]. cons_split. apply Hs. exact E.
    - destruct (get_psw_ok st H) as [H1 H2]. destruct (get_psw f_psw st) as [st1 p1]. cbn [fst snd] in *. subst p1.
      cons_split. split; [|reflexivity]. cons_solve.
  Qed.
  Lemma get_wt_ok st : consistent st -> consistent (fst (get_wt f_psw st)) /\ snd (get_wt f_psw st) = wt.
  Proof.
    intros H. unfold get_wt. destruct (c_wt st) eqn:E; cbn [fst snd].
    - split; [exact H|]. cons_split. apply Hw. exact E.
    - destruct (get_psw_ok st H) as [H1 H2]. destruct (get_psw f_psw st) as [st1 p1]. cbn [fst snd] in *. subst p1.
      cons_split. split; [|reflexivity]. cons_solve.
  Qed.
  Lemma get_nb_ok st : consistent st -> consistent (fst (get_nb f_nb st)) /\ snd (get_nb f_nb st) = f_nb tt.
  Proof.
    intros H. unfold get_nb. destruct (c_nb st) eqn:E; cbn [fst snd].
    - split; [exact H|]. cons_split. apply Hn. exact E.
    - cons_split. split; [|reflexivity]. cons_solve.
  Qed.
  Lemma get_fields_ok st : consistent st ->
    consistent (fst (get_fields f_psw st)) /\ snd (get_fields f_psw st) = (idx, sz, wt).
  Proof.
    intros H. unfold get_fields.
    destruct (get_idx_ok st H) as [H1 E1]. destruct (get_idx f_psw st) as [st1 v1]. cbn [fst snd] in *.
    destruct (get_sz_ok st1 H1) as [H2 E2]. destruct (get_sz f_psw st1) as [st2 v2]. cbn [fst snd] in *.
    destruct (get_wt_ok st2 H2) as [H3 E3]. destruct (get_wt f_psw st2) as [st3 v3]. cbn [fst snd] in *.
    subst. split; [exact H3 | reflexivity].
  Qed.
  Lemma get_mm_ok st : consistent st ->
    consistent (fst (get_mm f_psw P N sfs subs st)) /\ snd (get_mm f_psw P N sfs subs st) = mm_of P N sfs subs idx sz wt.
  Proof.
    intros H. unfold get_mm. destruct (c_mm st) eqn:E; cbn [fst snd].
    - split; [exact H|]. cons_split. apply Hm. exact E.
    - destruct (get_fields_ok st H) as [H1 E1]. destruct (get_fields f_psw st) as [st1 f1]. cbn [fst snd] in *. subst f1.
      cbn [fst snd]. cons_split. split; [|reflexivity]. cons_solve.
  Qed.
  Lemma get_uq_ok st : consistent st ->
    consistent (fst (get_uq f_psw P subs st)) /\ snd (get_uq f_psw P subs st) = uq_of P subs idx sz wt.
  Proof.
    intros H. unfold get_uq. destruct (c_uq st) eqn:E; cbn [fst snd].
    - split; [exact H|]. cons_split. apply Hu. exact E.
    - destruct (get_fields_ok st H) as [H1 E1]. destruct (get_fields f_psw st) as [st1 f1]. cbn [fst snd] in *. subst f1.
      cbn [fst snd]. cons_split. split; [|reflexivity]. cons_solve.
  Qed.

  Lemma step_ok st op : consistent st -> consistent (fst (step st op)) /\ snd (step st op) = pure_obs op.
  Proof.
    intros H. unfold step, pure_obs. fold p. fold idx sz wt. destruct op.
    - destruct (get_psw_ok st H) as [H1 E1]. destruct (get_psw f_psw st) as [st1 v]. cbn [fst snd] in *. subst v.
      split; [exact H1|]. unfold idx, sz, wt. rewrite <- !surjective_pairing. reflexivity.
    - destruct (get_fields_ok st H) as [H1 E1]. destruct (get_fields f_psw st) as [st1 v]. cbn [fst snd] in *. subst v.
      split; [exact H1 | reflexivity].
    - destruct (get_mm_ok st H) as [H1 E1]. destruct (get_mm f_psw P N sfs subs st) as [st1 v]. cbn [fst snd] in *. subst v.
      split; [exact H1 | reflexivity].
    - destruct (get_uq_ok st H) as [H1 E1]. destruct (get_uq f_psw P subs st) as [st1 v]. cbn [fst snd] in *. subst v.
      split; [exact H1 | reflexivity].
    - destruct (get_nb_ok st H) as [H1 E1]. destruct (get_nb f_nb st) as [st1 v]. cbn [fst snd] in *. subst v.
      split; [exact H1 | reflexivity].
    - destruct (get_fields_ok st H) as [H1 E1]. destruct (get_fields f_psw st) as [st1 v]. cbn [fst snd] in *. subst v.
      split; [exact H1 | reflexivity].
    - destruct (get_fields_ok st H) as [H1 E1]. destruct (get_fields f_psw st) as [st1 v]. cbn [fst snd] in *. subst v.
      split; [exact H1 | reflexivity].
    - destruct (get_fields_ok st H) as [H1 E1]. destruct (get_fields f_psw st) as [st1 v]. cbn [fst snd] in *. subst v.
      destruct (get_nb_ok st1 H1) as [H2 E2]. destruct (get_nb f_nb st1) as [st2 v]. cbn [fst snd] in *. subst v.
      split; [exact H2 | reflexivity].
  Qed.

  Lemma run_pure_from st ops : consistent st -> run st ops = map pure_obs ops.
  Proof.
    revert st. induction ops as [|op t IH]; intros st H; [reflexivity|].
    cbn [run map]. destruct (step_ok st op H) as [H1 E1]. destruct (step st op) as [st1 o]. cbn [fst snd] in *.
    subst o. f_equal. apply IH. exact H1.
  Qed.

  (* any history from a fresh mapper object: every call returns the pure function of the inputs *)
  Theorem run_pure ops : run st0 ops = map pure_obs ops.
  Proof. apply run_pure_from. apply consistent_st0. Qed.

  (* hence what a call returns does not depend on what was called before it, nor how often *)
  Corollary run_nth ops k op : nth_error ops k = Some op -> nth_error (run st0 ops) k = Some (pure_obs op).
  Proof. intros H. rewrite run_pure. rewrite nth_error_map, H. reflexivity. Qed.
  Corollary run_order_irrelevant ops1 ops2 k1 k2 op :
    nth_error ops1 k1 = Some op -> nth_error ops2 k2 = Some op ->
    nth_error (run st0 ops1) k1 = nth_error (run st0 ops2) k2.
  Proof. intros H1 H2. rewrite (run_nth _ _ _ H1), (run_nth _ _ _ H2). reflexivity. Qed.
End Purity.

(* ---------------------------------------------------------------- with the theorems about a fresh mapper *)
Local Open Scope R_scope.

(* rectangular mapper: whenever mapping_matrix is read in a history it is THE row-stochastic, non-negative matrix
   of the claimed interpolation, and whenever unique_mappings is read it encodes that matrix *)
Theorem rect_history : forall m subs (grid : list (R * R)) n0 n1 b (adapt : list R),
  length subs = count_unmasked m -> (forall i, (i < length subs)%nat -> (1 <= nth i subs 0)%nat) ->
  length grid = total_sub subs -> (0 < n0)%Z -> (0 < n1)%Z -> 0 < b ->
  let P := Z.to_nat (n0 * n1) in
  let fns := @rect_fns ROps grid (n0, n1) b in
  exists M rows,
    mat_shape (count_unmasked m) P M
    /\ (forall i, (i < count_unmasked m)%nat -> sumR (map (fun p => @mget ROps M i p) (seq 0 P)) = 1)
    /\ (forall i p, (i < count_unmasked m)%nat -> (p < P)%nat -> 0 <= @mget ROps M i p)
    /\ (forall i p, (i < count_unmasked m)%nat -> (p < P)%nat ->
          @mget ROps M i p = sumR (map (fun s => 1 / INR (sq_n (nth i subs 0%nat))
                                                * @rect_weight ROps (@geom_of_extent ROps (n0, n1) grid b) (nth s grid (0, 0)) p)
                                       (block subs i)))
    /\ length rows = count_unmasked m
    /\ (forall i, (i < count_unmasked m)%nat ->
          let '(u, w, n) := nth i rows ([], [], 0%nat) in
          (n <= length u)%nat /\ length w = length u /\ NoDup (firstn n u)
          /\ (forall k, (k < n)%nat -> (0 <= nth k u (-1) < Z.of_nat P)%Z)
          /\ (forall k, (n <= k)%nat -> nth k u (-1)%Z = (-1)%Z /\ nth k w 0 = 0)
          /\ (forall p, (p < P)%nat ->
                sumR (map (fun k => if Z.eqb (nth k u (-1)%Z) (Z.of_nat p) then nth k w 0 else 0) (seq 0 n)) = @mget ROps M i p))
    /\ forall (ops : list (hop R)) k,
         let outs := @run ROps (fst fns) (snd fns) P (count_unmasked m) (slim_for_sub m subs) subs adapt st0 ops in
         (nth_error ops k = Some OMat -> nth_error outs k = Some (BMat (Ok M)))
         /\ (nth_error ops k = Some OUq -> nth_error outs k = Some (BUq (Ok (uq_packT rows)))).
Proof.
  intros m subs grid n0 n1 b adapt Hl Hs Hg H0 H1 Hb P fns.
  pose proof (rect_unique_encodes_dense m subs grid n0 n1 b Hl Hs Hg H0 H1 Hb) as HU.
  destruct (rect_mapper_matrix m subs grid n0 n1 b Hl Hs Hg H0 H1 Hb) as (M & EM & Hshape & Hsum & Hnn & Hent).
  cbv zeta in HU.
  destruct (@rect_psw ROps (@overlay ROps (n0, n1) grid b) grid) as [[mp sz] wt] eqn:Epsw.
  destruct HU as (M' & rows & EM' & Erows & Hlen & Hrows).
  cbn [fst snd] in EM.
  assert (M' = M) by (rewrite EM in EM'; injection EM' as <-; reflexivity). subst M'.
  exists M, rows.
  split; [exact Hshape|]. split; [exact Hsum|]. split; [exact Hnn|]. split; [exact Hent|]. split; [exact Hlen|].
  split; [exact Hrows|].
  intros ops k outs. split; intros Hk; unfold outs; rewrite (@run_nth ROps _ _ _ _ _ _ _ _ _ _ Hk);
    unfold pure_obs, fns, rect_fns; cbn [fst snd]; rewrite Epsw; cbn [fst snd].
  - unfold mm_of, P. rewrite EM. reflexivity.
  - unfold uq_of, P. rewrite Erows. reflexivity.
Qed.

(* Delaunay mapper, relative to the oracle's contract: the same for every history *)
Theorem del_history : forall m subs (grid points : list (R * R)) simplices simplex_for indptr indices (adapt : list R),
  length subs = count_unmasked m -> (forall i, (i < length subs)%nat -> (1 <= nth i subs 0)%nat) ->
  length grid = total_sub subs -> length simplex_for = length grid -> points <> [] ->
  (forall row, In row simplices ->
    exists a b c, row = [a; b; c] /\ (0 <= a < Z.of_nat (length points))%Z /\ (0 <= b < Z.of_nat (length points))%Z
                  /\ (0 <= c < Z.of_nat (length points))%Z
                  /\ @cross ROps (vtxR points row 0) (vtxR points row 1) (vtxR points row 2) <> 0) ->
  (forall t, In t simplex_for -> t = (-1)%Z \/ (0 <= t < Z.of_nat (length simplices))%Z) ->
  let P := length points in
  let fns := @del_fns ROps grid points simplices simplex_for indptr indices in
  exists M rows,
    mat_shape (count_unmasked m) P M
    /\ (forall i, (i < count_unmasked m)%nat -> sumR (map (fun p => @mget ROps M i p) (seq 0 P)) = 1)
    /\ (forall i p, (i < count_unmasked m)%nat -> (p < P)%nat -> 0 <= @mget ROps M i p)
    /\ (forall i p, (i < count_unmasked m)%nat -> (p < P)%nat ->
          @mget ROps M i p = sumR (map (fun s => 1 / INR (sq_n (nth i subs 0%nat)) * del_w grid points simplices simplex_for s p)
                                       (block subs i)))
    /\ length rows = count_unmasked m
    /\ (forall i, (i < count_unmasked m)%nat ->
          let '(u, w, n) := nth i rows ([], [], 0%nat) in
          (n <= length u)%nat /\ length w = length u /\ NoDup (firstn n u)
          /\ (forall k, (k < n)%nat -> (0 <= nth k u (-1) < Z.of_nat P)%Z)
          /\ (forall k, (n <= k)%nat -> nth k u (-1)%Z = (-1)%Z /\ nth k w 0 = 0)
          /\ (forall p, (p < P)%nat ->
                sumR (map (fun k => if Z.eqb (nth k u (-1)%Z) (Z.of_nat p) then nth k w 0 else 0) (seq 0 n)) = @mget ROps M i p))
    /\ forall (ops : list (hop R)) k,
         let outs := @run ROps (fst fns) (snd fns) P (count_unmasked m) (slim_for_sub m subs) subs adapt st0 ops in
         (nth_error ops k = Some OMat -> nth_error outs k = Some (BMat (Ok M)))
         /\ (nth_error ops k = Some OUq -> nth_error outs k = Some (BUq (Ok (uq_packT rows)))).
Proof.
  intros m subs grid points simplices simplex_for indptr indices adapt Hl Hs Hg Hf Hp Hsimp Hidx P fns.
  destruct (del_unique_encodes_dense m subs grid points simplices simplex_for Hl Hs Hg Hf Hp Hsimp Hidx)
    as (M' & rows & EM' & Erows & Hlen & Hrows).
  destruct (del_mapper_matrix m subs grid points simplices simplex_for Hl Hs Hg Hf Hp Hsimp Hidx)
    as (M & EM & Hshape & Hsum & Hnn & Hent).
  assert (M' = M) by (rewrite EM in EM'; injection EM' as <-; reflexivity). subst M'.
  exists M, rows.
  split; [exact Hshape|]. split; [exact Hsum|]. split; [exact Hnn|]. split; [exact Hent|]. split; [exact Hlen|].
  split; [exact Hrows|].
  intros ops k outs. split; intros Hk; unfold outs; rewrite (@run_nth ROps _ _ _ _ _ _ _ _ _ _ Hk);
    unfold pure_obs, fns, del_fns; cbn [fst snd].
  - unfold mm_of, P. rewrite EM. reflexivity.
  - unfold uq_of, P. rewrite Erows. reflexivity.
Qed.
