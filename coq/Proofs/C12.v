From PAV Require Import Model.C12.
