(* C19 -- specification side.  The MODEL of the code is coq/Gen/Gen_layout.v, regenerated from
   /repo by py2v on every run.  This file holds the independent, set-theoretic specification the
   theorems compare it with, the case type of the correspondence run and [spec_ok], the verdict of
   the specification on an IMPLEMENTATION result (it does not depend on the generated model, so it
   still builds when the generated file or a proof about it breaks).  No proofs here. *)
From Coq Require Import ZArith List Bool Lia.
From PAV Require Import Base.Res Base.Check.
Import ListNotations.
Local Open Scope Z_scope.

Definition reg2 := (Z * Z * Z * Z)%type.
Definition reg1 := (Z * Z)%type.

(* ---- specification ---- *)
Definition valid1b (r : reg1) : bool := let '(a, b) := r in (0 <=? a) && (a <? b).
Definition valid2b (r : reg2) : bool :=
  let '(y0, y1, x0, x1) := r in (0 <=? y0) && (y0 <? y1) && (0 <=? x0) && (x0 <? x1).
Definition inside2b (s : Z * Z) (r : reg2) : bool :=
  let '(y0, y1, x0, x1) := r in valid2b r && (y1 <=? fst s) && (x1 <=? snd s).

(* python slicing l[a:b] for 0 <= a <= b *)
Definition slice1 {A} (l : list A) (a b : Z) : list A :=
  firstn (Z.to_nat (b - a)) (skipn (Z.to_nat a) l).
Definition slice2 {A} (m : list (list A)) (r : reg2) : list (list A) :=
  let '(y0, y1, x0, x1) := r in map (fun row => slice1 row x0 x1) (slice1 m y0 y1).
Definition rectb {A} (H W : Z) (m : list (list A)) : bool :=
  (Z.of_nat (length m) =? H) && forallb (fun row => Z.of_nat (length row) =? W) m.

Definition cornerb (c : Z * Z) : bool :=
  let '(a, b) := c in ((a =? 0) || (a =? 1)) && ((b =? 0) || (b =? 1)).

(* rotation, written independently: flip rows iff corner row = 0, flip columns iff corner col = 1 *)
Definition rot_array_spec {A} (m : list (list A)) (c : Z * Z) : list (list A) :=
  let m1 := if fst c =? 0 then rev m else m in
  if snd c =? 1 then map (@rev A) m1 else m1.
Definition rot_region_spec (r : reg2) (s : Z * Z) (c : Z * Z) : reg2 :=
  let '(y0, y1, x0, x1) := r in
  let '(y0', y1') := if fst c =? 0 then (fst s - y1, fst s - y0) else (y0, y1) in
  let '(x0', x1') := if snd c =? 1 then (snd s - x1, snd s - x0) else (x0, x1) in
  (y0', y1', x0', x1').

(* overlap of [x0o,x1o) with the window [x0e,x1e), in window coordinates *)
Definition overlap1 (x0o x1o x0e x1e : Z) : option (Z * Z) :=
  let lo := Z.max x0o x0e in let hi := Z.min x1o x1e in
  if lo <? hi then Some (lo - x0e, hi - x0e) else None.
Definition overlap2 (o e : reg2) : option reg2 :=
  let '(oy0, oy1, ox0, ox1) := o in let '(ey0, ey1, ex0, ex1) := e in
  match overlap1 oy0 oy1 ey0 ey1, overlap1 ox0 ox1 ex0 ex1 with
  | Some (a, b), Some (c, d) => Some (a, b, c, d)
  | _, _ => None
  end.

(* ---- in-place writes  a[y0:y1, x0:x1] = v ---- *)
(* numpy slice assignment, in the same firstn/skipn vocabulary as [slice2] (the slice clips at the array edge) *)
Definition fill1 {A} (l : list A) (a b : Z) (f : A -> A) : list A :=
  firstn (Z.to_nat a) l ++ map f (slice1 l a b) ++ skipn (Z.to_nat b) l.
Definition fill2 {A} (m : list (list A)) (r : reg2) (v : A) : list (list A) :=
  let '(y0, y1, x0, x1) := r in fill1 m y0 y1 (fun row => fill1 row x0 x1 (fun _ => v)).
(* the same written independently, pixel by pixel: (i,j) becomes v iff it lies in the region *)
Fixpoint mapi_from {A B} (k : Z) (f : Z -> A -> B) (l : list A) : list B :=
  match l with [] => [] | x :: t => f k x :: mapi_from (k + 1) f t end.
Definition in_regb (r : reg2) (i j : Z) : bool :=
  let '(y0, y1, x0, x1) := r in (y0 <=? i) && (i <? y1) && (x0 <=? j) && (j <? x1).
Definition fill_spec {A} (m : list (list A)) (r : reg2) (v : A) : list (list A) :=
  mapi_from 0 (fun i row => mapi_from 0 (fun j x => if in_regb r i j then v else x) row) m.

(* ---- a Layout2D: (shape_2d, original_roe_corner, parallel_overscan, serial_prescan, serial_overscan) ---- *)
Definition layout := (reg1 * reg1 * option reg2 * option reg2 * option reg2)%type.
Definition obind {A B} (x : option A) (f : A -> option B) : option B := match x with Some a => f a | None => None end.
Definition oforall {A} (p : A -> bool) (x : option A) : bool := match x with Some a => p a | None => true end.
Definition lay_rot_spec (l : layout) (c : reg1) : layout :=
  let '(s, c0, po, sp, so) := l in
  let f := option_map (fun r => rot_region_spec r s c) in (s, c, f po, f sp, f so).
Definition lay_ext_spec (l : layout) (e : reg2) : layout :=
  let '(s, c0, po, sp, so) := l in
  let f := fun o => obind o (fun r => overlap2 r e) in (s, c0, f po, f sp, f so).
Definition lay_insideb (l : layout) : bool :=
  let '(s, c0, po, sp, so) := l in oforall (inside2b s) po && oforall (inside2b s) sp && oforall (inside2b s) so.
Definition lay_validb (l : layout) : bool :=
  let '(s, c0, po, sp, so) := l in oforall valid2b po && oforall valid2b sp && oforall valid2b so.

(* ---- histories on ONE array object (an Array2D stored natively, or an ndarray) ----
   The object has contents and a read-out corner; the steps are what a user does with it. *)
Inductive astep :=
| ARead                        (* read the rotated array (Array2D.original_orientation, Layout2D.original_orientation_from,
                                  layout_util.rotate_array_via_roe_corner_from); OBSERVED *)
| ASlice (r : reg2)            (* read array.native[region.slice] (Layout2D.extract_*_array_from, Region2D.slice); OBSERVED *)
| AWrite (r : reg2) (v : Z)    (* in-place write by the user: array[y0:y1, x0:x1] = v *)
| AEditOut (r : reg2) (v : Z)  (* the user edits the array RETURNED by the latest read in place; OBSERVED after the edit *)
| ALast                        (* look again at the array returned by the latest read; OBSERVED *)
| ACorner (c : reg1)           (* the user changes header.original_roe_corner *)
| ADerive.                     (* the object is replaced by one derived from it with the same contents (copy, .native, +0, ...) *)

(* ---- boolean equalities ---- *)
Definition reg1_eqb (a b : reg1) := (fst a =? fst b) && (snd a =? snd b).
Definition reg2_eqb (a b : reg2) : bool :=
  let '(a0, a1, a2, a3) := a in let '(b0, b1, b2, b3) := b in
  (a0 =? b0) && (a1 =? b1) && (a2 =? b2) && (a3 =? b3).
Definition arr_eqb := list_eqb (list_eqb Z.eqb).

(* ---- correspondence cases: operation + arguments + what the IMPLEMENTATION returned ---- *)
Inductive case :=
| KInit1 (r : reg1) (out : res reg1)
| KInit2 (r : reg2) (out : res reg2)
| KFront1 (self : reg1) (p : option reg1) (e : option Z) (out : res reg1)
| KTrail1 (self : reg1) (p : reg1) (out : res reg1)
| KParFront (self : reg2) (p : option reg1) (e : option Z) (out : res reg2)
| KParTrail (self : reg2) (p : reg1) (out : res reg2)
| KParFull (self : reg2) (s : reg1) (out : res reg2)
| KSerFront (self : reg2) (p : option reg1) (e : option Z) (out : res reg2)
| KSerTrail (self : reg2) (p : reg1) (out : res reg2)
| KSerRoe (self : reg2) (s : reg1) (p : reg1) (out : res reg2)
| KX0X1 (x0o x1o x0e x1e : Z) (out : option Z * option Z)
| KExtract (o : option reg2) (e : reg2) (out : res (option reg2))
| KRotRegion (r : option reg2) (s c : reg1) (out : res (option reg2))
| KRotArray (m : list (list Z)) (c : reg1) (out : option (list (list Z)))
  (* implementation: slice (rotated array) by (rotated region) *)
| KCommute (m : list (list Z)) (r : reg2) (c : reg1) (out : list (list Z))
  (* implementation: rotate twice *)
| KTwice (m : list (list Z)) (r : reg2) (c : reg1) (out : list (list Z) * reg2)
  (* whole layouts: Layout2D.new_rotated_from / rotated_from_roe_corner, Layout2D.layout_extracted_from *)
| KLayRot (l : layout) (c : reg1) (out : res layout)
| KLayExt (l : layout) (e : reg2) (out : res layout)
  (* array.native[region.slice] as returned by Layout2D.extract_*_array_from / Region2D.slice *)
| KSlice (m : list (list Z)) (r : reg2) (out : list (list Z))
  (* a history on one array object: initial contents and corner, the steps, what each observed step returned *)
| KHistA (m0 : list (list Z)) (c0 : reg1) (steps : list astep) (outs : list (option (list (list Z))))
  (* phase 3: the read-only attributes of a region object, as integers (slices as start, stop):
     Region1D: x0, x1, total_pixels, slice, x_slice;
     Region2D: y0, y1, x0, x1, total_rows, total_columns, shape, serial_x_front_range_from p, y_slice, x_slice, slice *)
| KProps1 (self : reg1) (out : list Z)
| KProps2 (self : reg2) (p : reg1) (out : list Z)
  (* layout_util.rotate_pattern_ci_via_roe_corner_from: every region of a list rotated, the first exception wins *)
| KRotPattern (rs : list (option reg2)) (s c : reg1) (out : res (list (option reg2))).

Definition r1e := res_eqb reg1_eqb.
Definition r2e := res_eqb reg2_eqb.
Definition or2e := res_eqb (option_eqb reg2_eqb).

(* spec verdict on an implementation result of a region-producing call: what the property demands *)
Definition expect2 (want : reg2) (out : res reg2) : bool :=
  if valid2b want then r2e out (Ok want) else r2e out (Raise RegionException).
Definition expect1 (want : reg1) (out : res reg1) : bool :=
  if valid1b want then r1e out (Ok want) else r1e out (Raise RegionException).

Definition shape_of (m : list (list Z)) : Z * Z :=
  (Z.of_nat (length m), Z.of_nat (length (hd [] m))).


Definition oreg_eqb := option_eqb reg2_eqb.
Definition lay_eqb (a b : layout) : bool :=
  let '(s, c, po, sp, so) := a in let '(s', c', po', sp', so') := b in
  reg1_eqb s s' && reg1_eqb c c' && oreg_eqb po po' && oreg_eqb sp sp' && oreg_eqb so so'.
Definition rle := res_eqb lay_eqb.
Definition oarr_eqb := option_eqb arr_eqb.

(* specification of the read-only attributes and of the rotation of a list of regions *)
Definition props1_spec (s : reg1) : list Z := let '(a, b) := s in [a; b; b - a; a; b; a; b].
Definition props2_spec (s : reg2) (p : reg1) : list Z :=
  let '(y0, y1, x0, x1) := s in
  [y0; y1; x0; x1; y1 - y0; x1 - x0; y1 - y0; x1 - x0; x0 + fst p; x0 + snd p; y0; y1; x0; x1; y0; y1; x0; x1].
Definition pat_rot_spec (rs : list (option reg2)) (s c : reg1) : list (option reg2) :=
  map (option_map (fun r => rot_region_spec r s c)) rs.

(* specification of a history: every observation is a pure function of the CURRENT contents and corner, which are
   the initial ones updated by the writes / corner changes made so far, and of nothing else; an edit of a returned
   array changes that returned array only.  [all] = the whole history, [i] = position of the head of [rest]. *)
Definition awrites (pre : list astep) (m : list (list Z)) : list (list Z) :=
  fold_left (fun m s => match s with AWrite r v => fill_spec m r v | _ => m end) pre m.
Definition acorner (pre : list astep) (c : reg1) : reg1 :=
  fold_left (fun c s => match s with ACorner c' => c' | _ => c end) pre c.
Fixpoint aspec_from (all : list astep) (i : nat) (rest : list astep) (m0 : list (list Z)) (c0 : reg1)
                    (prev : option (list (list Z))) (outs : list (option (list (list Z)))) : bool :=
  match rest with
  | [] => match outs with [] => true | _ => false end
  | s :: t =>
      let cur := awrites (firstn i all) m0 in
      let cc := acorner (firstn i all) c0 in
      let observed want :=
        match outs with
        | o :: outs' => oarr_eqb o want && aspec_from all (S i) t m0 c0 o outs'
        | [] => false
        end in
      match s with
      | ARead => observed (Some (rot_array_spec cur cc))
      | ASlice r => observed (Some (slice2 cur r))
      | AEditOut r v =>
          match prev with
          | Some a => if inside2b (shape_of a) r then observed (Some (fill_spec a r v)) else true   (* no opinion *)
          | None => observed None
          end
      | ALast => observed prev
      | AWrite _ _ | ACorner _ | ADerive => aspec_from all (S i) t m0 c0 prev outs
      end
  end.
(* the hypotheses under which the specification has an opinion: rectangular non-empty array, valid corners,
   every written / sliced region valid and inside the array *)
Definition astep_okb (s : reg1) (st : astep) : bool :=
  match st with
  | ASlice r | AWrite r _ => inside2b s r
  | AEditOut r _ => valid2b r
  | ACorner c => cornerb c
  | ARead | ALast | ADerive => true
  end.
Definition ahist_okb (m0 : list (list Z)) (c0 : reg1) (steps : list astep) : bool :=
  let s := shape_of m0 in
  rectb (fst s) (snd s) m0 && (0 <? fst s) && (0 <? snd s) && cornerb c0 && forallb (astep_okb s) steps.

(* verdict of the SPECIFICATION on what the implementation returned *)
Definition spec_ok (k : case) : bool :=
  match k with
  | KInit1 r out => expect1 r out
  | KInit2 r out => expect2 r out
  | KFront1 s p e out =>
        match e, p with
         | Some n, _ => expect1 (snd s - n, snd s) out
         | None, Some (a, b) => expect1 (fst s + a, fst s + b) out
         | None, None => r1e out (Raise TypeError)
         end
  | KTrail1 s (a, b) out => expect1 (snd s + a, snd s + b) out
  | KParFront s p e out =>
      let '(y0, y1, x0, x1) := s in
        match e, p with
         | Some n, _ => expect2 (y1 - n, y1, x0, x1) out
         | None, Some (a, b) => expect2 (y0 + a, y0 + b, x0, x1) out
         | None, None => r2e out (Raise TypeError)
         end
  | KParTrail s (a, b) out => let '(y0, y1, x0, x1) := s in expect2 (y1 + a, y1 + b, x0, x1) out
  | KParFull s sh out => let '(y0, y1, x0, x1) := s in expect2 (y0, y1, 0, snd sh) out
  | KSerFront s p e out =>
      let '(y0, y1, x0, x1) := s in
        match e, p with
         | Some n, _ => expect2 (y0, y1, x1 - n, x1) out
         | None, Some (a, b) => expect2 (y0, y1, x0 + a, x0 + b) out
         | None, None => r2e out (Raise TypeError)
         end
  | KSerTrail s (a, b) out => let '(y0, y1, x0, x1) := s in expect2 (y0, y1, x1 + a, x1 + b) out
  | KSerRoe s sh (a, b) out => let '(y0, y1, x0, x1) := s in expect2 (0, fst sh, x0 + a, x0 + b) out
  | KX0X1 a b c d out =>
      let eq := prod_eqb (option_eqb Z.eqb) (option_eqb Z.eqb) in
        negb (valid1b (a, b) && valid1b (c, d)) ||
         match overlap1 a b c d with
         | Some (u, v) => eq out (Some u, Some v)
         | None => eq out (None, None)
         end
  | KExtract o e out =>
        match o with
         | None => or2e out (Ok None)
         | Some o' => negb (valid2b o' && valid2b e) || or2e out (Ok (overlap2 o' e))
         end
  | KRotRegion r s c out =>
        match r with
         | None => or2e out (Ok None)
         | Some r' => negb (inside2b s r' && cornerb c) || or2e out (Ok (Some (rot_region_spec r' s c)))
         end
  | KRotArray m c out => negb (cornerb c) || option_eqb arr_eqb out (Some (rot_array_spec m c))
  | KCommute m r c out =>
      let s := shape_of m in
      negb (inside2b s r && cornerb c && rectb (fst s) (snd s) m) || arr_eqb out (rot_array_spec (slice2 m r) c)
  | KTwice m r c out =>
      let s := shape_of m in
      negb (inside2b s r && cornerb c && rectb (fst s) (snd s) m) || prod_eqb arr_eqb reg2_eqb out (m, r)
  | KLayRot l c out => negb (lay_insideb l && cornerb c) || rle out (Ok (lay_rot_spec l c))
  | KLayExt l e out => negb (lay_validb l && valid2b e) || rle out (Ok (lay_ext_spec l e))
  | KSlice m r out =>
      let s := shape_of m in negb (inside2b s r && rectb (fst s) (snd s) m) || arr_eqb out (slice2 m r)
  | KHistA m0 c0 steps outs => negb (ahist_okb m0 c0 steps) || aspec_from steps 0 steps m0 c0 None outs
  | KProps1 s out => list_eqb Z.eqb out (props1_spec s)
  | KProps2 s p out => list_eqb Z.eqb out (props2_spec s p)
  | KRotPattern rs s c out =>
      negb (forallb (oforall (inside2b s)) rs && cornerb c) || res_eqb (list_eqb oreg_eqb) out (Ok (pat_rot_spec rs s c))
  end.
