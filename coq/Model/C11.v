(* C11 -- Queries are pure: no input mutation, no order dependence, deterministic.

   The logic core of this property is Python aliasing.  This file holds, with no proofs:

   PART A  a heap machine for the copy / cache discipline of the anchored code.  Arrays live in heap
           cells; an object is a record of cell references (its `_array`, its cached_property values);
           every modelled API operation is written as the code performs it (copy first or not, in-place
           `*=` / `x[mask] = 0` writes, `__dict__` carried over by `__copy__` / `copy.copy`, cached_property
           filling `__dict__`), parameterised by a [policy] record with one flag per code site where the
           source decides between copying and aliasing.  [faithful] is the policy of the code as it is
           today.  Each step also returns its EFFECT SUMMARY (cells written in place, whether a derived
           object inherited cache entries of an object with other contents).
           The independent SPECIFICATION is a value semantics with no heap, no cache and no policy: objects
           are immutable values, reads do nothing.
   PART B  the single-regularization path of AbstractInversion.curvature_reg_matrix (in-place `+=` into the
           cached curvature_matrix, entry deleted) and the preloaded curvature matrix (copy.copy).
   PART C  seeded noise: setup_random_seed / poisson_noise_via_data_eps_from over an abstract generator.
   The policy [faithful] follows /repo (repairs D7, D9, D10, D11, D12 committed):
   only D8 (MapperValued.values_masked writes the caller's values; pinned by a test) remains.
   Pure numerics (what a quantity's value is, as a function of the object's contents) are a parameter
   [qf] of the machine: the theorems hold for every [qf]; the correspondence run instantiates it with
   a table observed on freshly built, never-read twins. *)
From Coq Require Import ZArith List Bool Lia.
From PAV Require Import Base.Res Base.Check.
Import ListNotations.
Local Open Scope Z_scope.

Definition arr := list Z.
Definition cell := nat.
Definition heap := list arr.

Definition hget (h : heap) (c : cell) : arr := nth c h [].
Fixpoint hset (h : heap) (c : cell) (v : arr) : heap :=
  match h, c with
  | [], _ => []
  | _ :: t, O => v :: t
  | x :: t, S c' => x :: hset t c' v
  end.
Definition halloc (h : heap) (v : arr) : heap * cell := (h ++ [v], length h).

(* ------------------------------------------------------------------ array-valued helpers *)
(* numpy `a *= invert(mask)` / `a[mask] = 0.0`, entry-wise (a Grid2D's mask is repeated per coordinate) *)
Fixpoint maskmul (m : list bool) (a : arr) : arr :=
  match m, a with
  | b :: m', x :: a' => (if b then 0 else x) :: maskmul m' a'
  | _, _ => []
  end.
(* array_2d_slim_from / grid_2d_slim_from: keep the unmasked entries, row-major *)
Fixpoint slim_from (m : list bool) (a : arr) : arr :=
  match m, a with
  | b :: m', x :: a' => if b then slim_from m' a' else x :: slim_from m' a'
  | _, _ => []
  end.
(* array_2d_native_from: scatter the slim values into a zero array *)
Fixpoint native_from (m : list bool) (a : arr) : arr :=
  match m with
  | [] => []
  | true :: m' => 0 :: native_from m' a
  | false :: m' => match a with x :: a' => x :: native_from m' a' | [] => 0 :: native_from m' [] end
  end.
(* x[a:b], trimming: keep the selected entries *)
Fixpoint select {A} (keep : list bool) (a : list A) : list A :=
  match keep, a with
  | b :: k', x :: a' => if b then x :: select k' a' else select k' a'
  | _, _ => []
  end.
(* Array2D.trimmed_after_convolution_from: `self.native[cut:-cut, cut:-cut]` (a masked native copy), the mask resized to
   the same window, the result stored as the source was *)
Definition trim_val (native : bool) (m keep : list bool) (a : arr) : arr :=
  let nat := if native then maskmul m a else native_from m a in
  let cropped := select keep nat in
  if native then cropped else slim_from (select keep m) cropped.
Definition count_false (m : list bool) : nat := length (filter negb m).
Definition any_true (m : list bool) : bool := existsb (fun b => b) m.

(* mapping_matrix[:, mesh_pixel_mask] = 0.0 on a row-major matrix whose row length is [length m0] *)
Fixpoint zero_cols_aux (m0 m : list bool) (a : arr) : arr :=
  match a with
  | [] => []
  | x :: a' =>
      match m with
      | b :: m' => (if b then 0 else x) :: zero_cols_aux m0 m' a'
      | [] => match m0 with
              | b :: m' => (if b then 0 else x) :: zero_cols_aux m0 m' a'
              | [] => x :: zero_cols_aux m0 [] a'
              end
      end
  end.
Definition zero_cols (m : list bool) (a : arr) : arr := zero_cols_aux m m a.
(* mapped_reconstructed_data_via_mapping_matrix_from: out[i] = sum_j M[i,j] * v[j] *)
Fixpoint matvec_aux (v0 v : arr) (acc : Z) (a : arr) : arr :=
  match a with
  | [] => match v with [] => match v0 with [] => [] | _ => [acc] end | _ => [] end
  | x :: a' =>
      match v with
      | y :: v' => matvec_aux v0 v' (acc + x * y) a'
      | [] => match v0 with
              | y :: v' => acc :: matvec_aux v0 v' (x * y) a'
              | [] => []
              end
      end
  end.
Definition matvec (a v : arr) : arr := match a with [] => [] | _ => matvec_aux v v 0 a end.

(* x * k + b with numpy broadcasting of a short factor vector over the last axis: entry i is multiplied by
   ks[i mod length ks] (a scalar is the one-element vector; a Grid2D takes one factor per coordinate) *)
Fixpoint cyc_affine_aux (ks0 ks : list Z) (b : Z) (a : arr) : arr :=
  match a with
  | [] => []
  | x :: a' =>
      match ks with
      | k :: ks' => (x * k + b) :: cyc_affine_aux ks0 ks' b a'
      | [] => match ks0 with
              | k :: ks' => (x * k + b) :: cyc_affine_aux ks0 ks' b a'
              | [] => (x + b) :: cyc_affine_aux ks0 [] b a'
              end
      end
  end.
Definition cyc_affine (ks : list Z) (b : Z) (a : arr) : arr := cyc_affine_aux ks ks b a.

(* ------------------------------------------------------------------ PART A: machine *)
Record obj := mkObj { o_cell : cell; o_mask : list bool; o_native : bool; o_cache : list (nat * cell) }.
Record state := mkState { st_heap : heap; st_inputs : list cell; st_objs : list obj }.
Definition st0 : state := mkState [] [] [].

(* one flag per code site that decides between copying and aliasing *)
Record policy := mkPolicy {
  p_construct_copies : bool;         (* convert_array_2d / convert_grid_2d: `convert_array(array).copy()`          (D7) *)
  p_derive_keeps_cache : bool;       (* AbstractNDArray.__copy__: `new.__dict__.update(self.__dict__)`             (D10) *)
  p_trim_keeps_cache : bool;         (* AbstractDataset.trimmed_after_convolution_from: `copy.copy(self)`          (D11) *)
  p_values_masked_in_place : bool;   (* MapperValued.values_masked: `values[self.mesh_pixel_mask] = 0.0`           (D8) *)
  p_maprecon_copies : bool;          (* mapped_reconstructed_image_from: `mapping_matrix = mapping_matrix.copy()`  (D9) *)
  p_interf_mutates_settings : bool   (* inversion_interferometer_from: `settings.use_w_tilde = False`              (D12) *)
}.
(* the code of /repo: D7 D9 D10 D11 D12 repaired, D8 present (pinned by a test) *)
Definition faithful : policy := mkPolicy true false false true true false.
(* the code before the repairs *)
Definition unrepaired : policy := mkPolicy false true true true false true.
Definition disciplined : policy := mkPolicy true false false false true false.
Definition safe (p : policy) : bool :=
  p_construct_copies p && negb (p_derive_keeps_cache p) && negb (p_trim_keeps_cache p)
  && negb (p_values_masked_in_place p) && p_maprecon_copies p && negb (p_interf_mutates_settings p).

Definition qfn := nat -> list bool -> arr -> arr.   (* quantity name -> mask -> contents -> value *)

Inductive src := SIn (i : nat) | SObj (j : nat).
Inductive op :=
| ONew (v : arr)                                   (* the caller creates an ndarray / a settings object *)
| OConstruct (s : src) (mask : list bool) (is_native store_native : bool) (norm : option nat)
                                                   (* Array2D / Grid2D / VectorYX2D / Kernel2D (values=s, mask=mask, store_native);
                                                      norm = Some q: Kernel2D(..., normalize=True), q names the normalised contents;
                                                      x.native / x.slim / psf.normalized are constructions from the object itself *)
| OAlias (j : nat)                                 (* Imaging(data=x): the reference is stored *)
| OArith (j : nat) (ks : list Z) (b : Z)           (* x * k + b, -x, b - x, mask.invert() : with_new_array(f(self._array)) *)
| OSlice (j : nat) (keep : list bool)              (* x[a:b] : with_new_array(self._array[item]) *)
| OCopy (j : nat)                                  (* x.copy() *)
| OTrim (j : nat) (keep : list bool)               (* dataset.trimmed_after_convolution_from *)
| ORead (j q : nat)                                (* cached_property read *)
| OPlain (j q : nat)                               (* plain property / query method *)
| OPeekIn (i : nat)                                (* the caller looks at its own array *)
| OPeekObj (j : nat)                               (* x.array *)
| OValued (i : nat) (mask : list bool)             (* MapperValued(mapper, values=inputs[i], mesh_pixel_mask=mask) *)
| OValuesMasked (j : nat)                          (* MapperValued.values_masked *)
| OMapRecon (j m q : nat)                          (* MapperValued.mapped_reconstructed_image_from, mapper m, q = mapping_matrix *)
| OInterf (i : nat)                                (* inversion_interferometer_from(settings=inputs[i]) -> class chosen *)
| OImaging (i : nat).                              (* inversion_imaging_from(settings=inputs[i]) -> class chosen *)

Definition obs := res arr.
(* effect summary of one step.  e_writes: cells written IN PLACE; e_floor: cells with an address >= e_floor are
   private to the step (allocated by it and not stored in any cache by it); e_inherit: a derived object whose
   contents differ from its source's carried over a non-empty cache *)
Record effect := mkEff { e_writes : list cell; e_floor : nat; e_inherit : bool }.
Definition eff0 : effect := mkEff [] 0 false.

Fixpoint assoc (q : nat) (l : list (nat * cell)) : option cell :=
  match l with
  | [] => None
  | (q', c) :: t => if Nat.eqb q q' then Some c else assoc q t
  end.
Fixpoint update {A} (l : list A) (j : nat) (x : A) : list A :=
  match l, j with
  | [], _ => []
  | _ :: t, O => x :: t
  | y :: t, S j' => y :: update t j' x
  end.
Definition is_nil {A} (l : list A) : bool := match l with [] => true | _ => false end.

Definition bad : obs := Raise IndexError.      (* the history refers to something that does not exist *)

(* with_new_array / __copy__ / copy.copy: a new object; `copy` first duplicates the array, then the new
   array replaces it; __dict__ (hence every cached value) is carried over iff [keeps] *)
Definition derive (st : state) (o : obj) (v : arr) (m : list bool) (keeps changed : bool) : state * obs * effect :=
  let (h1, _) := halloc (st_heap st) (hget (st_heap st) (o_cell o)) in
  let (h2, c2) := halloc h1 v in
  let cache := if keeps then o_cache o else [] in
  (mkState h2 (st_inputs st) (st_objs st ++ [mkObj c2 m (o_native o) cache]), Ok v,
   mkEff [] 0 (keeps && changed && negb (is_nil (o_cache o)))).

(* cached_property.__get__ *)
Definition read_cached (qf : qfn) (st : state) (j q : nat) : state * option (cell * arr) :=
  match nth_error (st_objs st) j with
  | None => (st, None)
  | Some o =>
      match assoc q (o_cache o) with
      | Some c => (st, Some (c, hget (st_heap st) c))
      | None =>
          let v := qf q (o_mask o) (hget (st_heap st) (o_cell o)) in
          let (h1, c) := halloc (st_heap st) v in
          (mkState h1 (st_inputs st)
                   (update (st_objs st) j (mkObj (o_cell o) (o_mask o) (o_native o) ((q, c) :: o_cache o))),
           Some (c, v))
      end
  end.

(* MapperValued.values_masked *)
Definition values_masked (p : policy) (st : state) (o : obj) : state * arr * list cell :=
  let h := st_heap st in
  let v := hget h (o_cell o) in
  if any_true (o_mask o) then
    if p_values_masked_in_place p
    then (mkState (hset h (o_cell o) (maskmul (o_mask o) v)) (st_inputs st) (st_objs st),
          maskmul (o_mask o) v, [o_cell o])
    else (st, maskmul (o_mask o) v, [])
  else (st, v, []).

Definition step (qf : qfn) (p : policy) (st : state) (o : op) : state * obs * effect :=
  let h := st_heap st in
  match o with
  | ONew v =>
      let (h1, c) := halloc h v in
      (mkState h1 (st_inputs st ++ [c]) (st_objs st), Ok v, eff0)
  | OConstruct s mask is_native store_native norm =>
      let source :=
        match s with
        | SIn i => option_map (fun c => (c, is_native)) (nth_error (st_inputs st) i)
        | SObj j => option_map (fun ob => (o_cell ob, o_native ob)) (nth_error (st_objs st) j)
        end in
      match source with
      | None => (st, bad, eff0)
      | Some (c0, nat0) =>
          (* array_2d = convert_array(array=array_2d).copy() *)
          let '(h1, c1) := if p_construct_copies p then halloc h (hget h c0) else (h, c0) in
          (* check_array_2d_and_mask_2d *)
          if negb (Nat.eqb (length (hget h1 c1)) (if nat0 then length mask else count_false mask))
          then (mkState h1 (st_inputs st) (st_objs st), Raise ArrayException, eff0)
          else
            (* if is_native: array_2d[np.array(mask_2d, dtype="bool")] = 0      -- IN PLACE (was `array_2d *= np.invert(mask_2d)`) *)
            let '(h2, w) := if nat0 then (hset h1 c1 (maskmul mask (hget h1 c1)), [c1]) else (h1, []) in
            (* if is_native == store_native: return array_2d ; else a new slim / native array *)
            let '(h3, c3) :=
              if Bool.eqb nat0 store_native then (h2, c1)
              else if store_native then halloc h2 (native_from mask (hget h2 c1))
                   else halloc h2 (slim_from mask (hget h2 c1)) in
            (* Kernel2D.__init__: if normalize: self._array[:] = np.divide(self._array, np.sum(self._array))   -- IN PLACE *)
            let '(h4, w') :=
              match norm with
              | Some q => (hset h3 c3 (qf q mask (hget h3 c3)), [c3])
              | None => (h3, [])
              end in
            (mkState h4 (st_inputs st) (st_objs st ++ [mkObj c3 mask store_native []]),
             Ok (hget h4 c3), mkEff (w ++ w') (length h) false)
      end
  | OAlias j =>
      match nth_error (st_objs st) j with
      | None => (st, bad, eff0)
      | Some ob => (mkState h (st_inputs st) (st_objs st ++ [mkObj (o_cell ob) (o_mask ob) (o_native ob) []]),
                    Ok (hget h (o_cell ob)), eff0)
      end
  | OArith j ks b =>
      match nth_error (st_objs st) j with
      | None => (st, bad, eff0)
      | Some ob => derive st ob (cyc_affine ks b (hget h (o_cell ob))) (o_mask ob) (p_derive_keeps_cache p) true
      end
  | OSlice j keep =>
      match nth_error (st_objs st) j with
      | None => (st, bad, eff0)
      | Some ob => derive st ob (select keep (hget h (o_cell ob))) (o_mask ob) (p_derive_keeps_cache p) true
      end
  | OCopy j =>
      match nth_error (st_objs st) j with
      | None => (st, bad, eff0)
      | Some ob => derive st ob (hget h (o_cell ob)) (o_mask ob) true false      (* __copy__: __dict__ carried over; same contents *)
      end
  | OTrim j keep =>
      match nth_error (st_objs st) j with
      | None => (st, bad, eff0)
      | Some ob => derive st ob (trim_val (o_native ob) (o_mask ob) keep (hget h (o_cell ob))) (select keep (o_mask ob))
                          (p_trim_keeps_cache p) true
      end
  | ORead j q =>
      match read_cached qf st j q with
      | (st1, Some (_, v)) => (st1, Ok v, eff0)
      | (st1, None) => (st1, bad, eff0)
      end
  | OPlain j q =>
      match nth_error (st_objs st) j with
      | None => (st, bad, eff0)
      | Some ob => (st, Ok (qf q (o_mask ob) (hget h (o_cell ob))), eff0)
      end
  | OPeekIn i =>
      match nth_error (st_inputs st) i with
      | None => (st, bad, eff0)
      | Some c => (st, Ok (hget h c), eff0)
      end
  | OPeekObj j =>
      match nth_error (st_objs st) j with
      | None => (st, bad, eff0)
      | Some ob => (st, Ok (hget h (o_cell ob)), eff0)
      end
  | OValued i mask =>
      match nth_error (st_inputs st) i with
      | None => (st, bad, eff0)
      | Some c => (mkState h (st_inputs st) (st_objs st ++ [mkObj c mask false []]), Ok (hget h c), eff0)
      end
  | OValuesMasked j =>
      match nth_error (st_objs st) j with
      | None => (st, bad, eff0)
      | Some ob => let '(st1, v, w) := values_masked p st ob in (st1, Ok v, mkEff w (length h) false)
      end
  | OMapRecon j m q =>
      match nth_error (st_objs st) j with
      | None => (st, bad, eff0)
      | Some ob =>
          (* mapping_matrix = self.mapper.mapping_matrix          -- cached on the mapper *)
          match read_cached qf st m q with
          | (st1, None) => (st1, bad, eff0)
          | (st1, Some (cm, _)) =>
              let h1 := st_heap st1 in
              let '(h3, c3, w) :=
                if any_true (o_mask ob) then
                  (* mapping_matrix = mapping_matrix.copy() ; mapping_matrix[:, mask] = 0.0 *)
                  let '(h2, c2) := if p_maprecon_copies p then halloc h1 (hget h1 cm) else (h1, cm) in
                  (hset h2 c2 (zero_cols (o_mask ob) (hget h2 c2)), c2, [c2])
                else (h1, cm, []) in
              let st3 := mkState h3 (st_inputs st1) (st_objs st1) in
              let '(st4, v, w') := values_masked p st3 ob in
              (st4, Ok (matvec (hget (st_heap st4) c3) v), mkEff (w ++ w') (length h1) false)
          end
      end
  | OInterf i =>
      match nth_error (st_inputs st) i with
      | None => (st, bad, eff0)
      | Some c =>
          (* except ImportError: settings.use_w_tilde = False *)
          if p_interf_mutates_settings p
          then (mkState (hset h c [0]) (st_inputs st) (st_objs st), Ok [0], mkEff [c] (length h) false)
          else (st, Ok [0], eff0)
      end
  | OImaging i =>
      match nth_error (st_inputs st) i with
      | None => (st, bad, eff0)
      | Some c => (st, Ok (hget h c), eff0)
      end
  end.

(* the discipline, evaluated on the effect summary of one step: every in-place write hits a cell the step
   allocated itself and did not publish in a cache, and no cache entry is inherited by an object with other
   contents *)
Definition step_ok (e : effect) : bool :=
  forallb (fun c => Nat.leb (e_floor e) c) (e_writes e) && negb (e_inherit e).

Fixpoint run (qf : qfn) (p : policy) (st : state) (ops : list op) : list obs * bool * state :=
  match ops with
  | [] => ([], true, st)
  | o :: t =>
      let '(st1, ob, e) := step qf p st o in
      let '(l, ok, st2) := run qf p st1 t in
      (ob :: l, step_ok e && ok, st2)
  end.
Definition observations (qf : qfn) (p : policy) (ops : list op) : list obs := fst (fst (run qf p st0 ops)).
Definition run_ok (qf : qfn) (p : policy) (ops : list op) : bool := snd (fst (run qf p st0 ops)).
Definition final (qf : qfn) (p : policy) (ops : list op) : state := snd (run qf p st0 ops).

(* the input class in which today's code leaves the discipline (the recorded finding D8), evaluated on the state
   BEFORE the step; [unrepaired_class] is the larger class of the code before the repairs D10, D11, D12 *)
Definition cache_nonempty (st : state) (j : nat) : bool :=
  match nth_error (st_objs st) j with Some ob => negb (is_nil (o_cache ob)) | None => false end.
Definition mask_any (st : state) (j : nat) : bool :=
  match nth_error (st_objs st) j with Some ob => any_true (o_mask ob) | None => false end.
Definition finding_class (st : state) (o : op) : bool :=
  match o with
  | OValuesMasked j | OMapRecon j _ _ => mask_any st j     (* D8: a mesh_pixel_mask with a True entry *)
  | _ => false
  end.
Definition unrepaired_class (st : state) (o : op) : bool :=
  match o with
  | OArith j _ _ | OSlice j _ => cache_nonempty st j       (* D10: derivation after a cached_property read *)
  | OTrim j _ => cache_nonempty st j                       (* D11: trimming after grids / convolver / w_tilde was read *)
  | OInterf _ => true                                      (* D12: any interferometer inversion *)
  | _ => finding_class st o
  end.
Fixpoint run_avoids (qf : qfn) (p : policy) (st : state) (ops : list op) : bool :=
  match ops with
  | [] => true
  | o :: t => negb (finding_class st o) && run_avoids qf p (fst (fst (step qf p st o))) t
  end.
Definition avoids_findings (qf : qfn) (ops : list op) : bool := run_avoids qf faithful st0 ops.

(* ------------------------------------------------------------------ PART A: specification (value semantics) *)
Record sobj := mkSObj { so_val : arr; so_mask : list bool; so_native : bool }.
Record sstate := mkSState { sp_inputs : list arr; sp_objs : list sobj }.
Definition sst0 : sstate := mkSState [] [].

Definition sstep (qf : qfn) (sp : sstate) (o : op) : sstate * obs :=
  let newobj (so : sobj) := mkSState (sp_inputs sp) (sp_objs sp ++ [so]) in
  match o with
  | ONew v => (mkSState (sp_inputs sp ++ [v]) (sp_objs sp), Ok v)
  | OConstruct s mask is_native store_native norm =>
      let source :=
        match s with
        | SIn i => option_map (fun v => (v, is_native)) (nth_error (sp_inputs sp) i)
        | SObj j => option_map (fun so => (so_val so, so_native so)) (nth_error (sp_objs sp) j)
        end in
      match source with
      | None => (sp, bad)
      | Some (v, nat0) =>
          if negb (Nat.eqb (length v) (if nat0 then length mask else count_false mask))
          then (sp, Raise ArrayException)
          else
            let v1 := if nat0 then maskmul mask v else v in
            let v2 := if Bool.eqb nat0 store_native then v1
                      else if store_native then native_from mask v1 else slim_from mask v1 in
            let v3 := match norm with Some q => qf q mask v2 | None => v2 end in
            (newobj (mkSObj v3 mask store_native), Ok v3)
      end
  | OAlias j | OCopy j =>
      match nth_error (sp_objs sp) j with
      | None => (sp, bad)
      | Some so => (newobj so, Ok (so_val so))
      end
  | OArith j ks b =>
      match nth_error (sp_objs sp) j with
      | None => (sp, bad)
      | Some so => let v := cyc_affine ks b (so_val so) in (newobj (mkSObj v (so_mask so) (so_native so)), Ok v)
      end
  | OSlice j keep =>
      match nth_error (sp_objs sp) j with
      | None => (sp, bad)
      | Some so => let v := select keep (so_val so) in (newobj (mkSObj v (so_mask so) (so_native so)), Ok v)
      end
  | OTrim j keep =>
      match nth_error (sp_objs sp) j with
      | None => (sp, bad)
      | Some so => let v := trim_val (so_native so) (so_mask so) keep (so_val so) in
                   (newobj (mkSObj v (select keep (so_mask so)) (so_native so)), Ok v)
      end
  | ORead j q | OPlain j q =>
      match nth_error (sp_objs sp) j with
      | None => (sp, bad)
      | Some so => (sp, Ok (qf q (so_mask so) (so_val so)))
      end
  | OPeekIn i | OImaging i =>
      match nth_error (sp_inputs sp) i with
      | None => (sp, bad)
      | Some v => (sp, Ok v)
      end
  | OPeekObj j =>
      match nth_error (sp_objs sp) j with
      | None => (sp, bad)
      | Some so => (sp, Ok (so_val so))
      end
  | OValued i mask =>
      match nth_error (sp_inputs sp) i with
      | None => (sp, bad)
      | Some v => (newobj (mkSObj v mask false), Ok v)
      end
  | OValuesMasked j =>
      match nth_error (sp_objs sp) j with
      | None => (sp, bad)
      | Some so => (sp, Ok (if any_true (so_mask so) then maskmul (so_mask so) (so_val so) else so_val so))
      end
  | OMapRecon j m q =>
      match nth_error (sp_objs sp) j, nth_error (sp_objs sp) m with
      | Some so, Some sm =>
          let mm := qf q (so_mask sm) (so_val sm) in
          let mm' := if any_true (so_mask so) then zero_cols (so_mask so) mm else mm in
          let v := if any_true (so_mask so) then maskmul (so_mask so) (so_val so) else so_val so in
          (sp, Ok (matvec mm' v))
      | _, _ => (sp, bad)
      end
  | OInterf i =>
      match nth_error (sp_inputs sp) i with
      | None => (sp, bad)
      | Some _ => (sp, Ok [0])
      end
  end.

Fixpoint srun (qf : qfn) (sp : sstate) (ops : list op) : list obs * sstate :=
  match ops with
  | [] => ([], sp)
  | o :: t => let '(sp1, ob) := sstep qf sp o in let '(l, sp2) := srun qf sp1 t in (ob :: l, sp2)
  end.
Definition spec_observations (qf : qfn) (ops : list op) : list obs := fst (srun qf sst0 ops).
Definition spec_final (qf : qfn) (ops : list op) : sstate := snd (srun qf sst0 ops).

(* an operation that only looks: it creates no object and no input *)
Definition is_query (o : op) : bool :=
  match o with
  | ORead _ _ | OPlain _ _ | OPeekIn _ | OPeekObj _ | OValuesMasked _ | OMapRecon _ _ _ | OInterf _ | OImaging _ => true
  | _ => false
  end.
Definition derivations (ops : list op) : list op := filter (fun o => negb (is_query o)) ops.
(* what the caller handed over, in order *)
Fixpoint news (ops : list op) : list arr :=
  match ops with [] => [] | ONew v :: t => v :: news t | _ :: t => news t end.

(* ------------------------------------------------------------------ PART B: curvature_reg_matrix *)
(* one inversion with one regularization.  Cell 0 holds the caller's preloaded curvature matrix, cell 1 the caller's
   preloaded block-diagonal `curvature_matrix_mapper_diag` (whichever is passed).  F, H are the values of
   curvature_matrix and regularization_matrix as pure functions of the inputs; D is the block-diagonal matrix, U the
   same matrix after the off-diagonal blocks have been assigned into it (w_tilde.py _curvature_matrix_multi_mapper /
   _curvature_matrix_func_list_and_mapper; U = D for a single mapper). *)
Inductive iq := QF | QFR | QPre | QPreDiag.   (* read curvature_matrix | curvature_reg_matrix | look at the preloads *)
Inductive ipre := PNone | PCurv | PDiag.      (* which preload the caller passed *)
Record ipolicy := mkIPolicy {
  ip_preload_copied : bool;          (* imaging/{mapping,w_tilde}.py curvature_matrix: `copy.copy(self.preloads.curvature_matrix)` *)
  ip_entry_deleted : bool;           (* abstract.py curvature_reg_matrix: `del self.__dict__["curvature_matrix"]` *)
  ip_diag_copied : bool              (* w_tilde.py _curvature_matrix_mapper_diag: `copy.copy(self.preloads.curvature_matrix_mapper_diag)` (D20) *)
}.
Definition ifaithful : ipolicy := mkIPolicy true true true.
Record istate := mkIState { i_heap : heap; i_cF : option cell; i_cFR : option cell }.
(* matrices are opaque here (the correspondence run passes digests of IEEE bit patterns); [add] is `+` on them *)
Definition adder := arr -> arr -> arr.

(* cached read of curvature_matrix *)
Definition iread_F (ip : ipolicy) (pre : ipre) (F D U : arr) (st : istate) : istate * cell :=
  match i_cF st with
  | Some c => (st, c)
  | None =>
      let h := i_heap st in
      let '(h1, c) :=
        match pre with
        | PCurv => if ip_preload_copied ip then halloc h (hget h 0%nat) else (h, 0%nat)
        | PDiag =>
            (* curvature_matrix = self._curvature_matrix_mapper_diag ; curvature_matrix[i-block, j-block] = off_diag   -- IN PLACE
               curvature_matrix = curvature_matrix_mirrored_from(curvature_matrix)                                     -- a new array *)
            let '(h1, cd) := if ip_diag_copied ip then halloc h (hget h 1%nat) else (h, 1%nat) in
            halloc (hset h1 cd U) F
        | PNone => halloc h F
        end in
      (mkIState h1 (Some c) (i_cFR st), c)
  end.
Definition istep (add : adder) (ip : ipolicy) (pre : ipre) (F H D U : arr) (st : istate) (q : iq) : istate * arr :=
  match q with
  | QF => let '(st1, c) := iread_F ip pre F D U st in (st1, hget (i_heap st1) c)
  | QFR =>
      match i_cFR st with
      | Some c => (st, hget (i_heap st) c)
      | None =>
          (* curvature_matrix = self.curvature_matrix ; curvature_matrix += self.regularization_matrix ;
             del self.__dict__["curvature_matrix"] ; return curvature_matrix *)
          let '(st1, c) := iread_F ip pre F D U st in
          let h2 := hset (i_heap st1) c (add (hget (i_heap st1) c) H) in
          (mkIState h2 (if ip_entry_deleted ip then None else i_cF st1) (Some c), hget h2 c)
      end
  | QPre => (st, hget (i_heap st) 0%nat)
  | QPreDiag => (st, hget (i_heap st) 1%nat)
  end.
Fixpoint irun (add : adder) (ip : ipolicy) (pre : ipre) (F H D U : arr) (st : istate) (qs : list iq) : list arr :=
  match qs with
  | [] => []
  | q :: t => let '(st1, v) := istep add ip pre F H D U st q in v :: irun add ip pre F H D U st1 t
  end.
Definition ist0 (F D : arr) : istate := mkIState [F; D] None None.   (* the caller's preloads (used according to [pre]) *)
Definition ispec (add : adder) (F H D : arr) (q : iq) : arr :=
  match q with QF => F | QFR => add F H | QPre => F | QPreDiag => D end.

(* ------------------------------------------------------------------ PART C: seeded noise *)
Section Rng.
  Context {S : Type} (init : Z -> S) (draw : S -> Z -> Z * S) (randint : S -> Z * S).
  (* preprocess.setup_random_seed *)
  Definition setup_random_seed (g : S) (seed : Z) : S :=
    if seed =? -1 then let (s, _) := randint g in init s else init seed.
  (* np.random.poisson(image_counts, shape): one draw per pixel, threading the global state *)
  Fixpoint draws (g : S) (counts : arr) : arr * S :=
    match counts with
    | [] => ([], g)
    | c :: t => let (x, g1) := draw g c in let (l, g2) := draws g1 t in (x :: l, g2)
    end.
  (* preprocess.poisson_noise_via_data_eps_from, in counts; returns the noise and the new global state *)
  Definition poisson_noise (g : S) (seed : Z) (counts : arr) : arr * S :=
    let g1 := setup_random_seed g seed in
    let (d, g2) := draws g1 counts in
    (map (fun cx => fst cx - snd cx) (combine counts d), g2).
End Rng.
(* a concrete generator used only to refute the seed = -1 case *)
Definition lcg_init (s : Z) : Z := s mod 1000003.
Definition lcg_next (g : Z) : Z := (g * 1103 + 12345) mod 1000003.
Definition lcg_draw (g c : Z) : Z * Z := (c + lcg_next g mod 3 - 1, lcg_next g).
Definition lcg_randint (g : Z) : Z * Z := (lcg_next g, lcg_next g).

(* ------------------------------------------------------------------ correspondence *)
(* table of pure quantity values observed on never-read twins: ((q, mask, contents), value) *)
Definition qtable := list (nat * list bool * arr * arr).
Definition arr_eqb := list_eqb Z.eqb.
Definition mask_eqb := list_eqb Bool.eqb.
Fixpoint qlookup (t : qtable) (q : nat) (m : list bool) (a : arr) : arr :=
  match t with
  | [] => []
  | (q', m', a', v) :: t' => if Nat.eqb q q' && mask_eqb m m' && arr_eqb a a' then v else qlookup t' q m a
  end.

(* what the run on the real objects reports besides the value every operation returned:
   - after each step, the NAMES (caller input i / array of object j / cached value q of object j) that existed before
     the step and whose contents are different after it, with the new contents (byte-level comparison);
   - at the end, the contents of every caller input, of every object's array and of every cached value. *)
Inductive name := NIn (i : nat) | NArr (j : nat) | NCache (j q : nat).
Definition name_eqb (a b : name) : bool :=
  match a, b with
  | NIn i, NIn i' => Nat.eqb i i'
  | NArr j, NArr j' => Nat.eqb j j'
  | NCache j q, NCache j' q' => Nat.eqb j j' && Nat.eqb q q'
  | _, _ => false
  end.
Definition change := (name * arr)%type.
Definition snap := (list arr * list (arr * list (nat * arr)))%type.

Fixpoint insert_q {A} (x : nat * A) (l : list (nat * A)) : list (nat * A) :=
  match l with
  | [] => [x]
  | y :: t => if Nat.leb (fst x) (fst y) then x :: l else y :: insert_q x t
  end.
Definition sort_q {A} (l : list (nat * A)) : list (nat * A) := fold_right insert_q [] l.

Definition cache_contents (h : heap) (o : obj) : list (nat * arr) :=
  sort_q (map (fun qc => (fst qc, hget h (snd qc))) (o_cache o)).
Definition snapshot (st : state) : snap :=
  (map (hget (st_heap st)) (st_inputs st),
   map (fun o => (hget (st_heap st) (o_cell o), cache_contents (st_heap st) o)) (st_objs st)).

Fixpoint indexed {A} (i : nat) (l : list A) : list (nat * A) :=
  match l with [] => [] | x :: t => (i, x) :: indexed (S i) t end.
(* the names bound before the step (state [st]) and what they hold after it (heap [h'], objects [objs']) *)
Definition changes (st st' : state) : list change :=
  let h := st_heap st in
  let h' := st_heap st' in
  flat_map (fun ic => if arr_eqb (hget h (snd ic)) (hget h' (snd ic)) then [] else [(NIn (fst ic), hget h' (snd ic))])
           (indexed 0 (st_inputs st))
  ++ flat_map (fun jo =>
       let j := fst jo in
       let o := snd jo in
       match nth_error (st_objs st') j with
       | None => []
       | Some o' =>
           (if arr_eqb (hget h (o_cell o)) (hget h' (o_cell o')) then [] else [(NArr j, hget h' (o_cell o'))])
           ++ flat_map (fun qv => match assoc (fst qv) (o_cache o') with
                                  | Some c' => if arr_eqb (snd qv) (hget h' c') then [] else [(NCache j (fst qv), hget h' c')]
                                  | None => []
                                  end)
                       (cache_contents h o)
       end) (indexed 0 (st_objs st)).
(* the names that refer to a cell of the write set [w], in the state before the step *)
Definition cell_mem (c : cell) (w : list cell) : bool := existsb (Nat.eqb c) w.
Definition written_names (st : state) (w : list cell) : list name :=
  flat_map (fun ic => if cell_mem (snd ic) w then [NIn (fst ic)] else []) (indexed 0 (st_inputs st))
  ++ flat_map (fun jo =>
       (if cell_mem (o_cell (snd jo)) w then [NArr (fst jo)] else [])
       ++ flat_map (fun qc => if cell_mem (snd qc) w then [NCache (fst jo) (fst qc)] else []) (o_cache (snd jo)))
     (indexed 0 (st_objs st)).
Definition name_mem (n : name) (l : list name) : bool := existsb (name_eqb n) l.

(* per step: observation, changed names with new contents, names the effect summary allows to change *)
Fixpoint run_trace (qf : qfn) (p : policy) (st : state) (ops : list op) : list (obs * list change * list name) * state :=
  match ops with
  | [] => ([], st)
  | o :: t =>
      let '(st1, ob, e) := step qf p st o in
      let '(l, st2) := run_trace qf p st1 t in
      ((ob, changes st st1, written_names st (e_writes e)) :: l, st2)
  end.

Inductive case :=
  (* a history run on the real objects: what every operation returned, which existing names changed at each step,
     and the final contents of everything *)
| KHist (t : qtable) (ops : list op) (out : list (obs * list change)) (fin : snap)
  (* reads of curvature_matrix / curvature_reg_matrix / the preload on a real inversion
  (F, H, FR, D, U: curvature_matrix, regularization_matrix, curvature_reg_matrix, _curvature_matrix_mapper_diag and
  _curvature_matrix_multi_mapper of never-read twins, as digests of their bit patterns) *)
| KInv (pre : ipre) (F H FR D U : arr) (qs : list iq) (out : list arr)
  (* SimulatorImaging(noise_seed=seed).via_image_from repeated under different global RNG states: the noisy images *)
| KSeed (seed : Z) (outs : list arr).

Definition obs_eqb := res_eqb arr_eqb.
Fixpoint all2 {A B} (f : A -> B -> bool) (l1 : list A) (l2 : list B) : bool :=
  match l1, l2 with
  | [], [] => true
  | x :: t1, y :: t2 => f x y && all2 f t1 t2
  | _, _ => false
  end.
Definition change_eqb : change -> change -> bool := prod_eqb name_eqb arr_eqb.
Definition cache_eqb : list (nat * arr) -> list (nat * arr) -> bool := list_eqb (prod_eqb Nat.eqb arr_eqb).
Definition snap_eqb : snap -> snap -> bool := prod_eqb (list_eqb arr_eqb) (list_eqb (prod_eqb arr_eqb cache_eqb)).
Definition add_tbl (F H FR : arr) : adder := fun a b => if arr_eqb a F && arr_eqb b H then FR else [].
Fixpoint all_equal (l : list arr) : bool :=
  match l with
  | x :: ((y :: _) as t) => arr_eqb x y && all_equal t
  | _ => true
  end.

(* model = implementation: same observations, same changed names with the same new contents, every changed name is in
   the write set of the step's effect summary, same final contents *)
Definition agree (k : case) : bool :=
  match k with
  | KHist t ops out fin =>
      let '(tr, st) := run_trace (qlookup t) faithful st0 ops in
      all2 (fun m i => obs_eqb (fst (fst m)) (fst i)
                           && list_eqb change_eqb (snd (fst m)) (snd i)
                           && forallb (fun ch => name_mem (fst ch) (snd m)) (snd i)) tr out
      && snap_eqb (snapshot st) fin
  | KInv pre F H FR D U qs out => list_eqb arr_eqb (irun (add_tbl F H FR) ifaithful pre F H D U (ist0 F D) qs) out
  | KSeed seed outs => (seed =? -1) || all_equal outs
  end.
(* the value semantics accepts what the implementation did: its observations, NO existing name ever changes, the
   final contents of inputs and objects are the specification's, and every cached value is the pure function of its
   object's contents.  Does not call the machine. *)
Definition spec_snap_ok (qf : qfn) (sp : sstate) (fin : snap) : bool :=
  list_eqb arr_eqb (sp_inputs sp) (fst fin)
  && all2 (fun so oc => arr_eqb (so_val so) (fst oc)
                            && forallb (fun qv => arr_eqb (qf (fst qv) (so_mask so) (so_val so)) (snd qv)) (snd oc))
              (sp_objs sp) (snd fin).
Definition spec_ok (k : case) : bool :=
  match k with
  | KHist t ops out fin =>
      let '(l, sp) := srun (qlookup t) sst0 ops in
      all2 (fun s i => obs_eqb s (fst i) && is_nil (snd i)) l out
      && spec_snap_ok (qlookup t) sp fin
  | KInv pre F H FR D U qs out => list_eqb arr_eqb (map (ispec (add_tbl F H FR) F H D) qs) out
  | KSeed seed outs => (seed =? -1) || all_equal outs
  end.
Definition check (k : case) : nat := verdict (agree k) (spec_ok k).
