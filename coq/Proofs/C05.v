(* C05 -- proofs about the model in Model/C05.v, at the real-number instance ROps. *)
From Coq Require Import ZArith List Bool Reals Lra Lia Permutation Arith.
From PAV Require Import Base.Res Base.Check Base.NumOps Base.Sum Model.C05.
Import ListNotations.
Local Open Scope R_scope.

Ltac norm := unfold vec, mat, lrow in *; cbn [T ROps] in *.

(* ====================================================================== A. dot products as sums *)
Definition dotR (a b : list R) : R := sumR (map (fun p : R * R => fst p * snd p) (combine a b)).

Lemma dot_dotR a b : @dot ROps a b = dotR a b.
Proof. unfold dot, dotR. rewrite sumT_sumR. reflexivity. Qed.

Lemma dotR_nil_l b : dotR [] b = 0. Proof. reflexivity. Qed.
Lemma dotR_nil_r a : dotR a [] = 0. Proof. destruct a; reflexivity. Qed.
Lemma dotR_cons x a y b : dotR (x :: a) (y :: b) = x * y + dotR a b. Proof. reflexivity. Qed.

Lemma nthT_R (l : list R) i : @nthT ROps l i = nth i l 0. Proof. reflexivity. Qed.

Lemma dotR_seq : forall a v, length a = length v ->
  dotR a v = sumR (map (fun j => nth j a 0 * nth j v 0) (seq 0 (length v))).
Proof.
  induction a as [|x a IH]; intros [|y v] H; simpl in H; try discriminate; [reflexivity|].
  rewrite dotR_cons. cbn [length seq map sumR]. rewrite <- seq_shift, map_map. cbn [nth].
  rewrite IH by lia. reflexivity.
Qed.

Lemma dotR_sub_scal : forall r p x f, length r = length p -> length p = length x ->
  dotR (map (fun ab : R * R => fst ab - f * snd ab) (combine r p)) x = dotR r x - f * dotR p x.
Proof.
  induction r as [|a r IH]; intros [|b p] [|y x] f H1 H2; simpl in *; try discriminate; try (unfold dotR; simpl; lra).
  rewrite !dotR_cons. rewrite IH by lia. lra.
Qed.

(* ====================================================================== B. Gaussian elimination is sound *)
Lemma pick_pivot_spec : forall rows p rest, @pick_pivot ROps rows = Some (p, rest) ->
  hd 0 (fst p) <> 0 /\ Permutation rows (p :: rest).
Proof.
  induction rows as [|r t IH]; intros p rest H; cbn [pick_pivot] in H; [discriminate|].
  cbn [eqb ROps] in H. destruct (Reqb _ _) eqn:E.
  - destruct (pick_pivot t) as [[p' rest']|] eqn:Ep; [|discriminate].
    inversion H; subst. destruct (IH _ _ eq_refl) as [Hp Hperm]. split; [exact Hp|].
    rewrite Hperm. apply perm_swap.
  - inversion H; subst. apply Reqb_false in E. split; [exact E|reflexivity].
Qed.

Lemma elim_fst_length (p r : @lrow ROps) n : length (fst p) = S n -> length (fst r) = S n ->
  length (fst (elim p r)) = n.
Proof.
  intros Hp Hr. unfold elim. cbn [fst]. rewrite map_length, combine_length.
  destruct (fst p); destruct (fst r); simpl in *; try discriminate. lia.
Qed.

Lemma elim_sound (p r : @lrow ROps) x' n :
  length (fst p) = S n -> length (fst r) = S n -> length x' = n -> hd 0 (fst p) <> 0 ->
  dotR (fst (elim p r)) x' = snd (elim p r) ->
  dotR (fst r) ((snd p - dotR (tl (fst p)) x') / hd 0 (fst p) :: x') = snd r.
Proof.
  destruct p as [[|a pr] pb]; destruct r as [[|c rr] rb]; simpl; try discriminate.
  intros Hp Hr Hx Ha H. unfold elim in H. cbn [fst snd hd tl div sub mul ROps zero] in H.
  rewrite dotR_sub_scal in H by lia.
  rewrite dotR_cons. replace (dotR rr x') with (rb - c / a * pb + c / a * dotR pr x') by lra.
  field. exact Ha.
Qed.

Lemma gauss_sound : forall n rows x, @gauss ROps n rows = Some x -> length rows = n ->
  (forall r, In r rows -> length (fst r) = n) ->
  length x = n /\ forall r, In r rows -> dotR (fst r) x = snd r.
Proof.
  induction n as [|n IH]; intros rows x H Hl Hs.
  - cbn in H. inversion H; subst. destruct rows; [|discriminate]. split; [reflexivity|]. intros r [].
  - cbn [gauss] in H. destruct (pick_pivot rows) as [[p rest]|] eqn:Ep; [|discriminate].
    destruct (gauss n (map (elim p) rest)) as [x'|] eqn:Eg; [|discriminate].
    inversion H; subst x; clear H.
    destruct (pick_pivot_spec _ _ _ Ep) as [Ha Hperm].
    assert (Hlr : length rest = n).
    { apply Permutation_length in Hperm. simpl in Hperm. lia. }
    assert (Hin : forall r, In r (p :: rest) -> length (fst r) = S n).
    { intros r Hr. apply Hs. eapply Permutation_in; [symmetry; exact Hperm|exact Hr]. }
    assert (Hl' : length (map (elim p) rest) = n) by (rewrite map_length; exact Hlr).
    assert (Hs' : forall r, In r (map (elim p) rest) -> length (fst r) = n).
    { intros r Hr. apply in_map_iff in Hr. destruct Hr as [r0 [<- Hr0]].
      apply elim_fst_length; apply Hin; [left; reflexivity|right; exact Hr0]. }
    destruct (IH _ _ Eg Hl' Hs') as [Hx' Hsol].
    split; [cbn [length]; lia|].
    intros r Hr. apply (Permutation_in _ Hperm) in Hr. cbn [div sub ROps]. rewrite dot_dotR.
    destruct Hr as [<-|Hr].
    + pose proof (Hin p (or_introl eq_refl)) as Hp.
      destruct p as [[|a pr] pb]; simpl in Hp; [discriminate|]. cbn [fst snd hd tl] in *.
      rewrite dotR_cons. field. exact Ha.
    + apply (elim_sound p r x' n); auto.
      * apply Hin. left; reflexivity.
      * apply Hin. right; exact Hr.
      * apply Hsol. apply in_map. exact Hr.
Qed.

Notation rowR := (@row ROps).
Definition wf (n : nat) (A : list (list R)) (b : list R) : Prop :=
  length A = n /\ (forall r, In r A -> length r = n) /\ length b = n.

Lemma row_length n A b i : wf n A b -> (i < n)%nat -> length (rowR A i) = n.
Proof. intros [HA [Hr _]] Hi. apply Hr. unfold row. apply nth_In. change (i < length A)%nat. lia. Qed.

Lemma solve_sound n A b x : wf n A b -> @solve ROps A b = Some x ->
  length x = n /\ forall i, (i < n)%nat -> dotR (rowR A i) x = nth i b 0.
Proof.
  intros [HA [Hr Hb]] H. unfold solve in H. norm. rewrite Hb in H.
  assert (H1 : length (combine A b) = n) by (rewrite combine_length; lia).
  assert (H2 : forall r, In r (combine A b) -> length (fst r) = n).
  { intros r Hin. destruct r as [c rb]. apply in_combine_l in Hin. apply Hr. exact Hin. }
  destruct (gauss_sound _ _ _ H H1 H2) as [Hx Hsol].
  split; [exact Hx|]. intros i Hi.
    specialize (Hsol (nth i (combine A b) ([], 0))).
    rewrite combine_nth in Hsol by lia. cbn [fst snd] in Hsol. apply Hsol.
    rewrite <- combine_nth by lia. apply nth_In. rewrite combine_length. lia.
Qed.

(* ====================================================================== C. index / assignment lemmas *)
Lemma find_pos_Some : forall idx t k, find_pos t idx = Some k -> (k < length idx)%nat /\ nth k idx 0%nat = t.
Proof.
  induction idx as [|a idx IH]; intros t k H; simpl in H; [discriminate|].
  destruct (Nat.eqb a t) eqn:E.
  - inversion H; subst. apply Nat.eqb_eq in E. simpl. split; [lia|exact E].
  - destruct (find_pos t idx) as [k'|] eqn:Fp; simpl in H; [|discriminate].
    inversion H; subst. destruct (IH _ _ Fp) as [H1 H2]. simpl. split; [lia|exact H2].
Qed.
Lemma find_pos_None : forall idx t, find_pos t idx = None -> ~ In t idx.
Proof.
  induction idx as [|a idx IH]; intros t H; simpl in *; [tauto|].
  destruct (Nat.eqb a t) eqn:E; [discriminate|]. apply Nat.eqb_neq in E.
  destruct (find_pos t idx) eqn:Fp; simpl in H; [discriminate|].
  intros [Ha|Hin]; [contradiction|]. exact (IH _ Fp Hin).
Qed.
Lemma find_pos_nth : forall idx k, NoDup idx -> (k < length idx)%nat -> find_pos (nth k idx 0%nat) idx = Some k.
Proof.
  induction idx as [|a idx IH]; intros k Hnd Hk; simpl in Hk; [lia|].
  inversion Hnd as [|? ? Hnin Hnd']; subst.
  destruct k as [|k]; simpl; [rewrite Nat.eqb_refl; reflexivity|].
  destruct (Nat.eqb a (nth k idx 0%nat)) eqn:E.
  - apply Nat.eqb_eq in E. exfalso. apply Hnin. rewrite E. apply nth_In. lia.
  - rewrite IH by (auto; lia). reflexivity.
Qed.

Lemma nth_map_seq {B} (f : nat -> B) n t d : (t < n)%nat -> nth t (map f (seq 0 n)) d = f t.
Proof.
  intros H. rewrite (nth_indep _ d (f 0%nat)) by (rewrite map_length, seq_length; lia).
  rewrite map_nth, seq_nth by lia. reflexivity.
Qed.

Lemma nth_map_default {B C} (f : B -> C) l i d db : (i < length l)%nat -> nth i (map f l) d = f (nth i l db).
Proof. intros H. rewrite (nth_indep _ d (f db)) by (rewrite map_length; exact H). apply map_nth. Qed.

Lemma assign_length (s : list R) idx x : length (@assign ROps s idx x) = length s.
Proof. unfold assign. rewrite map_length, seq_length. reflexivity. Qed.
Lemma assign_nth (s : list R) idx x t : (t < length s)%nat ->
  nth t (@assign ROps s idx x) 0 = match find_pos t idx with Some k => nth k x 0 | None => nth t s 0 end.
Proof. intros H. unfold assign. norm. rewrite nth_map_seq by exact H. reflexivity. Qed.

Lemma zero_off_length P (s : list R) : length P = length s -> length (@zero_off ROps P s) = length s.
Proof. intros H. unfold zero_off. norm. rewrite map_length, combine_length. lia. Qed.
Lemma zero_off_nth P (s : list R) t : length P = length s ->
  nth t (@zero_off ROps P s) 0 = if nth t P false then nth t s 0 else 0.
Proof.
  intros H. unfold zero_off. norm.
  change 0 with ((fun ps : bool * R => if fst ps then snd ps else @zero ROps) (false, 0)) at 1.
  rewrite map_nth, combine_nth by exact H. reflexivity.
Qed.

Lemma zeros_R_length n : length (@zeros ROps n) = n. Proof. unfold zeros. apply repeat_length. Qed.

Lemma sel_cons {B} p P (x : B) v : sel (p :: P) (x :: v) = if p then x :: sel P v else sel P v.
Proof. unfold sel. simpl. destruct p; reflexivity. Qed.
Lemma sel_In {B} : forall P (v : list B) i d, (i < length P)%nat -> (i < length v)%nat -> nth i P false = true ->
  In (nth i v d) (sel P v).
Proof.
  induction P as [|p P IH]; intros [|x v] i d HP Hv Ht; simpl in HP, Hv; try lia.
  rewrite sel_cons. destruct i as [|i]; simpl in Ht |- *.
  - subst p. left. reflexivity.
  - destruct p; [right|]; apply IH; auto; lia.
Qed.

Lemma idx_of_In P i : In i (idx_of P) <-> (i < length P)%nat /\ nth i P false = true.
Proof. unfold idx_of. rewrite filter_In, in_seq. split; intros [H1 H2]; split; auto; lia. Qed.
Lemma idx_of_NoDup P : NoDup (idx_of P).
Proof. unfold idx_of. apply NoDup_filter, seq_NoDup. Qed.

Lemma map_pointwise (a v : list R) : forall idx x, length x = length idx ->
  (forall k, (k < length idx)%nat -> nth (nth k idx 0%nat) v 0 = nth k x 0) ->
  map (fun j => nth j a 0 * nth j v 0) idx
  = map (fun p : R * R => fst p * snd p) (combine (map (fun j => nth j a 0) idx) x).
Proof.
  induction idx as [|j idx IH]; intros [|y x] Hl H; simpl in Hl; try discriminate; [reflexivity|].
  cbn [map combine fst snd]. f_equal.
  - pose proof (H 0%nat) as H0. simpl in H0. rewrite H0 by lia. reflexivity.
  - apply IH; [lia|]. intros k Hk. apply (H (S k)). simpl. lia.
Qed.

Lemma reindex (a v x : list R) (idx : list nat) n :
  length a = n -> length v = n -> NoDup idx -> (forall i, In i idx -> (i < n)%nat) -> length x = length idx ->
  (forall k, (k < length idx)%nat -> nth (nth k idx 0%nat) v 0 = nth k x 0) ->
  (forall t, (t < n)%nat -> ~ In t idx -> nth t v 0 = 0) ->
  dotR a v = dotR (@gather ROps a idx) x.
Proof.
  intros Ha Hv Hnd Hlt Hx Hon Hoff.
  rewrite dotR_seq by lia. rewrite Hv.
  rewrite (sumR_filter_split (fun j => existsb (Nat.eqb j) idx)).
  rewrite (sumR_map_zero _ (filter (fun x => negb _) _)).
  2:{ intros j Hj. apply filter_In in Hj. destruct Hj as [Hs Hn]. apply in_seq in Hs.
      rewrite (Hoff j); [lra|lia|]. intros Hin. apply negb_true_iff in Hn.
      assert (existsb (Nat.eqb j) idx = true) by (apply existsb_exists; exists j; split; [exact Hin|apply Nat.eqb_refl]).
      congruence. }
  assert (Hperm : Permutation (filter (fun j => existsb (Nat.eqb j) idx) (seq 0 n)) idx).
  { apply NoDup_Permutation; [apply NoDup_filter, seq_NoDup|exact Hnd|].
    intros j. rewrite filter_In, in_seq, existsb_exists. split.
    - intros [_ [y [Hy Hj]]]. apply Nat.eqb_eq in Hj. subst. exact Hy.
    - intros Hj. split; [specialize (Hlt _ Hj); lia|]. exists j. split; [exact Hj|apply Nat.eqb_refl]. }
  rewrite (sumR_perm _ _ (Permutation_map _ Hperm)).
  rewrite (map_pointwise a v idx x Hx Hon). unfold dotR, gather. rewrite Rplus_0_r. reflexivity.
Qed.

Lemma combine_map_map {B C D} (f : B -> C) (g : B -> D) l : combine (map f l) (map g l) = map (fun i => (f i, g i)) l.
Proof. induction l; simpl; congruence. Qed.

Lemma solve_sub_sound (A : list (list R)) (b : list R) idx x : @solve_sub ROps A b idx = Some x ->
  length x = length idx /\
  forall k, (k < length idx)%nat -> dotR (@gather ROps (rowR A (nth k idx 0%nat)) idx) x = nth (nth k idx 0%nat) b 0.
Proof.
  intros H. unfold solve_sub, solve in H.
  assert (Hg : length (@gather ROps b idx) = length idx) by (unfold gather; apply map_length).
  norm. rewrite Hg in H.
  assert (H1 : length (combine (@submat ROps A idx) (@gather ROps b idx)) = length idx).
  { rewrite combine_length. unfold submat. rewrite map_length. norm. lia. }
  assert (H2 : forall r, In r (combine (@submat ROps A idx) (@gather ROps b idx)) -> length (fst r) = length idx).
  { intros [c rb] Hin. apply in_combine_l in Hin. unfold submat in Hin. apply in_map_iff in Hin.
    destruct Hin as [i [<- _]]. cbn [fst]. unfold gather. apply map_length. }
  destruct (gauss_sound _ _ _ H H1 H2) as [Hx Hsol].
  split; [exact Hx|]. intros k Hk.
  apply (Hsol (@gather ROps (rowR A (nth k idx 0%nat)) idx, nth (nth k idx 0%nat) b 0)).
  change (combine (@submat ROps A idx) (@gather ROps b idx))
    with (combine (map (fun i => @gather ROps (rowR A i) idx) idx) (map (@nthT ROps b) idx)).
  rewrite combine_map_map.
  apply (in_map (fun i => (@gather ROps (rowR A i) idx, @nthT ROps b i))). apply nth_In. exact Hk.
Qed.

(* a vector that carries the sub-solution on idx and zero elsewhere satisfies the normal equations on idx *)
Lemma solved_vector n A b idx x (v : list R) :
  wf n A b -> length v = n -> NoDup idx -> (forall i, In i idx -> (i < n)%nat) ->
  @solve_sub ROps A b idx = Some x ->
  (forall k, (k < length idx)%nat -> nth (nth k idx 0%nat) v 0 = nth k x 0) ->
  (forall t, (t < n)%nat -> ~ In t idx -> nth t v 0 = 0) ->
  forall i, In i idx -> dotR (rowR A i) v = nth i b 0.
Proof.
  intros Hwf Hv Hnd Hlt Hs Hon Hoff i Hi.
  destruct (solve_sub_sound _ _ _ _ Hs) as [Hx Hsol].
  destruct (In_nth _ _ 0%nat Hi) as [k [Hk Hnk]].
  rewrite (reindex (rowR A i) v x idx n); auto.
  - rewrite <- Hnk. apply Hsol. exact Hk.
  - eapply row_length; eauto.
Qed.

(* ====================================================================== D. min / max / argmax *)
Lemma minT_le (a b : R) : @minT ROps a b <= a /\ @minT ROps a b <= b.
Proof. unfold minT. cbn [ltb ROps]. rcase; lra. Qed.
Lemma maxT_ge (a b : R) : a <= @maxT ROps a b /\ b <= @maxT ROps a b.
Proof. unfold maxT. cbn [ltb ROps]. rcase; lra. Qed.
Lemma maxT_cases (a b : R) : @maxT ROps a b = a \/ @maxT ROps a b = b.
Proof. unfold maxT. destruct (ltb ROps a b); auto. Qed.

Lemma fold_min_le : forall (t : list R) (x y : R), In y (x :: t) -> fold_left (@minT ROps) t x <= y.
Proof.
  induction t as [|a t IH]; intros x y Hin; cbn [fold_left].
  - destruct Hin as [->|[]]. lra.
  - destruct (minT_le x a) as [H1 H2].
    pose proof (IH (@minT ROps x a) (@minT ROps x a) (or_introl eq_refl)) as H3.
    destruct Hin as [->|[->|Hin]]; [lra|lra|]. apply IH. right. exact Hin.
Qed.
Lemma fold_max_ge : forall (t : list R) (x y : R), In y (x :: t) -> y <= fold_left (@maxT ROps) t x.
Proof.
  induction t as [|a t IH]; intros x y Hin; cbn [fold_left].
  - destruct Hin as [->|[]]. lra.
  - destruct (maxT_ge x a) as [H1 H2].
    pose proof (IH (@maxT ROps x a) (@maxT ROps x a) (or_introl eq_refl)) as H3.
    destruct Hin as [->|[->|Hin]]; [lra|lra|]. apply IH. right. exact Hin.
Qed.
Lemma fold_max_In : forall (t : list R) (x : R), In (fold_left (@maxT ROps) t x) (x :: t).
Proof.
  induction t as [|a t IH]; intros x; cbn [fold_left]; [left; reflexivity|].
  destruct (IH (@maxT ROps x a)) as [H|H]; [|right; right; exact H].
  rewrite <- H. destruct (maxT_cases x a) as [E|E]; rewrite E; [left|right; left]; reflexivity.
Qed.

Lemma In_sel {B} (d : B) : forall P (v : list B) y, In y (sel P v) ->
  exists i, (i < length P)%nat /\ (i < length v)%nat /\ nth i P false = true /\ nth i v d = y.
Proof.
  induction P as [|p P IH]; intros [|x v] y H; try (unfold sel in H; simpl in H; contradiction).
  rewrite sel_cons in H. destruct p.
  - destruct H as [<-|H].
    + exists 0%nat. simpl. repeat split; lia.
    + destruct (IH _ _ H) as [i [H1 [H2 [H3 H4]]]]. exists (S i). simpl. repeat split; auto; lia.
  - destruct (IH _ _ H) as [i [H1 [H2 [H3 H4]]]]. exists (S i). simpl. repeat split; auto; lia.
Qed.

Lemma need_fix_false P (s : list R) (tau : R) n : length P = n -> length s = n -> @need_fix ROps P s tau = false ->
  forall i, (i < n)%nat -> nth i P false = true -> tau < nth i s 0.
Proof.
  intros HP Hs H i Hi Ht. unfold need_fix, min_list in H. norm.
  pose proof (sel_In P s i 0 ltac:(lia) ltac:(lia) Ht) as Hin.
  destruct (sel P s) as [|x t]; [contradiction|].
  cbn [leb ROps] in H. apply Rleb_false in H. pose proof (fold_min_le t x _ Hin). norm. lra.
Qed.

Lemma nth_map_negb P i : (i < length P)%nat -> nth i (map negb P) false = negb (nth i P false).
Proof. intros H. change false with (negb true) at 1. rewrite map_nth. f_equal. apply nth_indep. exact H. Qed.

Lemma keep_going_false P (w : list R) (tau : R) n : length P = n -> length w = n -> @keep_going ROps P w tau = false ->
  forall i, (i < n)%nat -> nth i P false = false -> nth i w 0 <= tau.
Proof.
  intros HP Hw H i Hi Hf. unfold keep_going, max_list in H. norm.
  assert (Hin : In (nth i w 0) (sel (map negb P) w)).
  { apply sel_In; [rewrite map_length; lia|lia|]. rewrite nth_map_negb by lia. rewrite Hf. reflexivity. }
  destruct (sel (map negb P) w) as [|x t]; [contradiction|].
  cbn [ltb ROps] in H. apply Rltb_false in H. pose proof (fold_max_ge t x _ Hin). norm. lra.
Qed.
Lemma keep_going_true P (w : list R) (tau : R) n : length P = n -> length w = n -> @keep_going ROps P w tau = true ->
  exists i, (i < n)%nat /\ nth i P false = false /\ tau < nth i w 0.
Proof.
  intros HP Hw H. unfold keep_going, max_list in H. norm.
  destruct (sel (map negb P) w) as [|x t] eqn:E; [discriminate|].
  cbn [ltb ROps] in H. apply Rltb_true in H.
  pose proof (fold_max_In t x) as Hin. rewrite <- E in Hin.
  destruct (In_sel 0 _ _ _ Hin) as [i [H1 [H2 [H3 H4]]]]. rewrite map_length in H1.
  exists i. split; [lia|]. rewrite nth_map_negb in H3 by lia. apply negb_true_iff in H3.
  split; [exact H3|]. rewrite H4. exact H.
Qed.

Lemma argmax_from_spec : forall (l : list R) i best (bv : R),
  exists mv, ((@argmax_from ROps l i best bv = best /\ mv = bv) \/
              ((i <= @argmax_from ROps l i best bv < i + length l)%nat /\ mv = nth (@argmax_from ROps l i best bv - i) l 0))
             /\ bv <= mv /\ forall k, (k < length l)%nat -> nth k l 0 <= mv.
Proof.
  induction l as [|x t IH]; intros i best bv.
  - exists bv. cbn. repeat split; [left; auto|lra|intros; lia].
  - cbn [argmax_from ltb ROps]. destruct (Rltb bv x) eqn:E; rbool.
    + destruct (IH (S i) i x) as [mv [Hr [Hb Hk]]]. exists mv. split; [right|split; [lra|]].
      * destruct Hr as [[Hr ->]|[Hr ->]].
        -- rewrite Hr. split; [simpl; lia|]. rewrite Nat.sub_diag. reflexivity.
        -- split; [simpl; lia|]. set (r := @argmax_from ROps t (S i) i x) in *.
           replace (r - i)%nat with (S (r - S i)) by lia. reflexivity.
      * intros [|k] Hlt; [exact Hb|]. apply Hk. simpl in Hlt. lia.
    + destruct (IH (S i) best bv) as [mv [Hr [Hb Hk]]]. exists mv. split; [|split; [exact Hb|]].
      * destruct Hr as [[Hr ->]|[Hr ->]]; [left; auto|right].
        split; [simpl; lia|]. set (r := @argmax_from ROps t (S i) best bv) in *.
        replace (r - i)%nat with (S (r - S i)) by lia. reflexivity.
      * intros [|k] Hlt; [simpl; lra|]. apply Hk. simpl in Hlt. lia.
Qed.
Lemma argmax_spec (l : list R) : l <> [] ->
  (@argmax ROps l < length l)%nat /\ forall k, (k < length l)%nat -> nth k l 0 <= nth (@argmax ROps l) l 0.
Proof.
  destruct l as [|x t]; [congruence|]. intros _. unfold argmax.
  destruct (argmax_from_spec t 1 0 x) as [mv [Hr [Hb Hk]]].
  destruct Hr as [[Hr ->]|[Hr ->]].
  - rewrite Hr. split; [simpl; lia|]. intros [|k] Hlt; [simpl; lra|]. apply Hk. simpl in Hlt. lia.
  - set (r := @argmax_from ROps t 1 0 x) in *. split; [simpl; lia|].
    replace (nth r (x :: t) 0) with (nth (r - 1) t 0) by (destruct r; [lia|simpl; rewrite Nat.sub_0_r; reflexivity]).
    intros [|k] Hlt; [exact Hb|]. apply Hk. simpl in Hlt. lia.
Qed.

Lemma idmax_ok P (w : list R) (tau : R) n : length P = n -> length w = n -> 0 <= tau -> @keep_going ROps P w tau = true ->
  let idmax := @argmax ROps (map (fun wp : R * bool => mul ROps (fst wp) (if snd wp then @zero ROps else @one ROps)) (combine w P)) in
  (idmax < n)%nat /\ nth idmax P false = false.
Proof.
  intros HP Hw Ht Hk. destruct (keep_going_true _ _ _ _ HP Hw Hk) as [i [Hi [HPi Hwi]]].
  set (f := (fun wp : R * bool => mul ROps (fst wp) (if snd wp then @zero ROps else @one ROps)) : R * bool -> R).
  set (v := map f (combine w P) : list R). intros idmax. change (@argmax ROps v) in (value of idmax).
  assert (Hlv : length v = n) by (unfold v; rewrite map_length, combine_length, Hw, HP; apply Nat.min_id).
  assert (Hnv : forall k, (k < n)%nat -> nth k v 0 = f (nth k w 0, nth k P false)).
  { intros k Hk'. unfold v. rewrite (nth_indep _ 0 (f (0, false))) by exact (eq_ind_r (fun m => (k < m)%nat) Hk' Hlv).
    rewrite map_nth, combine_nth by lia. reflexivity. }
  assert (Hne : v <> []) by (intro E; rewrite E in Hlv; simpl in Hlv; lia).
  destruct (argmax_spec v Hne) as [H1 H2]. fold idmax in H1, H2.
  split; [rewrite Hlv in H1; exact H1|].
  specialize (H2 i ltac:(lia)). rewrite (Hnv i Hi), (Hnv idmax ltac:(lia)) in H2.
  unfold f in H2. cbn [fst snd mul ROps] in H2. rewrite HPi in H2.
  destruct (nth idmax P false); [|reflexivity].
  unfold zero, one in H2. cbn [ofZ ROps] in H2. lra.
Qed.

(* ====================================================================== E. the active-set invariant *)
Record Inv (n : nat) (A : list (list R)) (b : list R) (P : list bool) (Pin : list nat) (s : list R) : Prop := mkInv {
  iP : length P = n;
  iS : length s = n;
  iNd : NoDup Pin;
  iIn : forall i, In i Pin <-> ((i < n)%nat /\ nth i P false = true);
  iOff : forall i, (i < n)%nat -> nth i P false = false -> nth i s 0 = 0;
  iSol : forall i, In i Pin -> dotR (rowR A i) s = nth i b 0 }.

Lemma find_pos_notin idx t : ~ In t idx -> find_pos t idx = None.
Proof.
  intros H. destruct (find_pos t idx) as [k|] eqn:E; [|reflexivity].
  destruct (find_pos_Some _ _ _ E) as [Hk Hn]. exfalso. apply H. rewrite <- Hn. apply nth_In. exact Hk.
Qed.

(* common step: the solve on the ordered passive list, written back by fancy assignment *)
Lemma inv_assign n A b P Pin (s0 s1 x : list R) :
  wf n A b -> length P = n -> length s0 = n -> NoDup Pin ->
  (forall i, In i Pin <-> ((i < n)%nat /\ nth i P false = true)) ->
  @solve_sub ROps A b Pin = Some x ->
  (forall t, (t < n)%nat -> ~ In t Pin -> nth t s0 0 = 0) ->
  s1 = @assign ROps s0 Pin x ->
  Inv n A b P Pin s1.
Proof.
  intros Hwf HP Hs0 Hnd HIn Hsolve Hoff ->.
  assert (Hlen : length (@assign ROps s0 Pin x) = n) by (rewrite assign_length; exact Hs0).
  assert (Hoff' : forall t, (t < n)%nat -> ~ In t Pin -> nth t (@assign ROps s0 Pin x) 0 = 0).
  { intros t Ht Hn. rewrite assign_nth by lia. rewrite (find_pos_notin _ _ Hn). apply Hoff; assumption. }
  constructor; auto.
  - intros i Hi Hf. apply Hoff'; [exact Hi|]. intros Hin. apply HIn in Hin. destruct Hin as [_ Hin]. congruence.
  - apply (solved_vector n A b Pin x); auto.
    + intros i Hi. apply HIn in Hi. tauto.
    + intros k Hk. rewrite assign_nth.
      * rewrite find_pos_nth by assumption. reflexivity.
      * rewrite Hs0. assert (In (nth k Pin 0%nat) Pin) as Hin by (apply nth_In; exact Hk). apply HIn in Hin. tauto.
Qed.

Lemma nth_zeros_any n t : nth t (@zeros ROps n) 0 = 0.
Proof. apply nth_zeros_R. Qed.

Lemma inv_solve_on n A b P (s : list R) :
  wf n A b -> length P = n -> @solve_on ROps A b P = Some s -> Inv n A b P (idx_of P) s.
Proof.
  intros Hwf HP H. unfold solve_on in H.
  assert (HIn : forall i, In i (idx_of P) <-> ((i < n)%nat /\ nth i P false = true)).
  { intros i. rewrite idx_of_In, HP. reflexivity. }
  destruct (existsb (fun p : bool => p) P) eqn:Ex.
  - destruct (solve_sub _ _ (idx_of P)) as [x|] eqn:Es; [|discriminate]. inversion H; subst s; clear H.
    apply (inv_assign n A b P (idx_of P) (@zeros ROps (length P)) _ x); auto.
    + rewrite zeros_R_length. exact HP.
    + apply idx_of_NoDup.
    + intros t _ _. apply nth_zeros_any.
  - inversion H; subst s; clear H. constructor; auto.
    + rewrite zeros_R_length. exact HP.
    + apply idx_of_NoDup.
    + intros i _ _. apply nth_zeros_any.
    + intros i Hi. apply HIn in Hi. destruct Hi as [Hi Ht]. exfalso.
      assert (existsb (fun p : bool => p) P = true); [|congruence].
      apply existsb_exists. exists (nth i P false). split; [apply nth_In; lia|exact Ht].
Qed.

Lemma nth_map_combine_bool (g : bool * R -> bool) P (v : list R) i :
  g (false, 0) = false -> length P = length v ->
  nth i (map g (combine P v)) false = g (nth i P false, nth i v 0).
Proof.
  intros Hg Hl. rewrite <- Hg at 1. rewrite map_nth, combine_nth by exact Hl. reflexivity.
Qed.

Lemma prune_correct n A b (tau : R) : wf n A b -> forall fuel P (s : list R) P' s',
  length P = n -> length s = n ->
  @prune ROps fuel A b tau P s = Ok (P', s') ->
  (P' = P /\ s' = s \/ Inv n A b P' (idx_of P') s') /\ length P' = n /\ length s' = n /\ @need_fix ROps P' s' tau = false.
Proof.
  intros Hwf. induction fuel as [|fuel IH]; intros P s P' s' HP Hs H; cbn [prune] in H.
  - destruct (need_fix _ _ _) eqn:E; [discriminate|]. inversion H; subst. auto.
  - destruct (need_fix _ _ _) eqn:E.
    + match type of H with context [@solve_on _ _ _ ?X] => set (P1 := X) in * end.
      assert (HP1 : length P1 = n) by (unfold P1; rewrite map_length, combine_length; norm; lia).
      destruct (@solve_on ROps _ _ P1) as [s1|] eqn:Es; [|discriminate].
      pose proof (inv_solve_on n A b P1 s1 Hwf HP1 Es) as Hinv.
      destruct (IH P1 s1 P' s' HP1 (iS _ _ _ _ _ _ Hinv) H) as [[[-> ->]|Hi] Hrest].
      * split; [right; exact Hinv|exact Hrest].
      * split; [right; exact Hi|exact Hrest].
    + inversion H; subst. auto.
Qed.

(* fix_constraint keeps the invariant *)
Lemma fix_constraint_inv n A b (tau : R) (st st' : @state ROps) : wf n A b ->
  Inv n A b (sP st) (sPin st) (sS st) -> length (sD st) = n ->
  @fix_constraint ROps A b tau st = Ok st' ->
  Inv n A b (sP st') (sPin st') (sS st') /\ length (sD st') = n.
Proof.
  intros Hwf Hinv Hd H. destruct st as [P Pin s d]. cbn [sP sPin sS sD] in *.
  destruct Hinv as [HP Hs Hnd HIn Hoff Hsol].
  unfold fix_constraint in H. cbn [sP sPin sS sD] in H.
  destruct (min_list _) as [alpha|]; [|discriminate].
  cbv zeta in H.
  match type of H with context [combine P ?X] => set (d' := X) in * end.
  match type of H with context [map ?g (combine P d')] => set (P' := map g (combine P d')) in * end.
  match type of H with context [filter ?g Pin] => set (Pin' := filter g Pin) in * end.
  assert (Hd' : length d' = n) by (unfold d'; rewrite map_length, combine_length; norm; lia).
  assert (HP' : length P' = n) by (unfold P'; rewrite map_length, combine_length; norm; lia).
  assert (Hnd' : NoDup Pin') by (apply NoDup_filter; exact Hnd).
  assert (HnP' : forall i, nth i P' false = nth i P false && negb (leb ROps (nth i d' 0) tau)).
  { intros i. unfold P'. rewrite (nth_map_combine_bool _ P d' i); [reflexivity|reflexivity|norm; lia]. }
  assert (HIn' : forall i, In i Pin' <-> ((i < n)%nat /\ nth i P' false = true)).
  { intros i. unfold Pin'. rewrite filter_In, HIn, HnP', andb_true_iff. rewrite nthT_R. tauto. }
  assert (Hfin : forall s1 : list R, length s1 = n ->
            (Pin' = [] \/ exists x, @solve_sub ROps A b Pin' = Some x /\ s1 = @assign ROps s Pin' x) ->
            Inv n A b P' Pin' (@zero_off ROps P' s1)).
  { intros s1 Hs1 Hcase. constructor; auto.
    - rewrite zero_off_length; lia.
    - intros i Hi Hf. rewrite zero_off_nth by lia. rewrite Hf. reflexivity.
    - destruct Hcase as [E|[x [Hsolve ->]]]; [rewrite E; intros i []|].
      apply (solved_vector n A b Pin' x); auto.
      + rewrite zero_off_length; lia.
      + intros i Hi. apply HIn' in Hi. tauto.
      + intros k Hk. assert (In (nth k Pin' 0%nat) Pin') as Hin by (apply nth_In; exact Hk).
        apply HIn' in Hin. destruct Hin as [Hlt Ht].
        rewrite zero_off_nth by lia. rewrite Ht. rewrite assign_nth by lia.
        rewrite find_pos_nth by assumption. reflexivity.
      + intros t Ht Hn. rewrite zero_off_nth by lia.
        destruct (nth t P' false) eqn:Et; [|reflexivity]. exfalso. apply Hn. apply HIn'. auto. }
  destruct Pin' as [|j0 Pin0] eqn:EP.
  - inversion H; try subst st'; clear H. cbn [sP sPin sS sD]. split; [|exact Hd'].
    apply Hfin; [exact Hs|left; reflexivity].
  - destruct (solve_sub _ _ (j0 :: Pin0)) as [x|] eqn:Es; [|discriminate].
    inversion H; try subst st'; clear H. cbn [sP sPin sS sD]. split; [|exact Hd'].
    apply Hfin; [rewrite assign_length; exact Hs|right; exists x; auto].
Qed.

Lemma inner_correct n A b (tau : R) : wf n A b -> forall fuel (st : @state ROps) lc2 (st' : @state ROps) lc2',
  Inv n A b (sP st) (sPin st) (sS st) -> length (sD st) = n ->
  @inner ROps fuel A b tau st lc2 = Ok (st', lc2') ->
  Inv n A b (sP st') (sPin st') (sS st') /\ length (sD st') = n /\ @need_fix ROps (sP st') (sS st') tau = false.
Proof.
  intros Hwf. induction fuel as [|fuel IH]; intros st lc2 st' lc2' Hinv Hd H; cbn [inner] in H.
  - destruct (need_fix _ _ _) eqn:E; [discriminate|]. inversion H; subst. auto.
  - destruct (need_fix _ _ _) eqn:E.
    + destruct (fix_constraint _ _ _ st) as [st1|e] eqn:Ef; [|discriminate].
      destruct (lc2 + 1 >? 10000)%Z; [discriminate|].
      destruct (fix_constraint_inv n A b tau st st1 Hwf Hinv Hd Ef) as [Hinv1 Hd1].
      exact (IH _ _ _ _ Hinv1 Hd1 H).
    + inversion H; subst. auto.
Qed.

(* what every returned vector satisfies *)
Definition Final (n : nat) (A : list (list R)) (b : list R) (tau : R) (d : list R) (P : list bool) : Prop :=
  length P = n /\ length d = n /\
  (forall i, (i < n)%nat -> nth i P false = true -> tau < nth i d 0) /\
  (forall i, (i < n)%nat -> nth i P false = false -> nth i d 0 = 0) /\
  (forall i, (i < n)%nat -> nth i P false = true -> dotR (rowR A i) d = nth i b 0).

Lemma inv_final n A b (tau : R) P Pin (s : list R) :
  Inv n A b P Pin s -> @need_fix ROps P s tau = false -> Final n A b tau s P.
Proof.
  intros [HP Hs Hnd HIn Hoff Hsol] Hnf. repeat split; auto.
  - apply (need_fix_false P s tau n); auto.
  - intros i Hi Ht. apply Hsol. apply HIn. auto.
Qed.

Lemma residual_nth n A b (d : list R) i : wf n A b -> (i < n)%nat ->
  nth i (@residual ROps A b d) 0 = nth i b 0 - dotR (rowR A i) d.
Proof.
  intros [HA [Hr Hb]] Hi. unfold residual. norm.
  set (f := fun rb : list R * R => sub ROps (snd rb) (@dot ROps (fst rb) d)).
  rewrite (nth_indep _ 0 (f ([], 0))) by (rewrite map_length, combine_length; lia).
  rewrite map_nth, combine_nth by lia. unfold f. cbn [fst snd sub ROps]. rewrite dot_dotR. reflexivity.
Qed.
Lemma residual_length n A b (d : list R) : wf n A b -> length (@residual ROps A b d) = n.
Proof. intros [HA [Hr Hb]]. unfold residual. norm. rewrite map_length, combine_length. lia. Qed.

Lemma outer_correct n A b (tau : R) : wf n A b -> 0 <= tau -> forall fuel (st : @state ROps) (w : list R) lc lc2 nu (d : list R) ek Pf,
  Inv n A b (sP st) (sPin st) (sS st) -> sD st = sS st -> w = @residual ROps A b (sD st) ->
  @need_fix ROps (sP st) (sS st) tau = false ->
  @outer ROps fuel A b tau st w lc lc2 nu = Ok (d, ek, Pf) ->
  Final n A b tau d Pf /\
  (ek = ExitCond -> forall i, (i < n)%nat -> nth i Pf false = false -> nth i b 0 - dotR (rowR A i) d <= tau).
Proof.
  intros Hwf Htau. induction fuel as [|fuel IH]; intros st w lc lc2 nu d ek Pf Hinv Hds Hw Hnf H; cbn [outer] in H.
  - destruct (keep_going _ _ _) eqn:Ek; [discriminate|]. inversion H; subst d ek Pf; clear H.
    rewrite Hds. split; [eapply inv_final; eauto|].
    intros _ i Hi Hf. rewrite <- (residual_nth n A b (sS st) i Hwf Hi). rewrite <- Hds, <- Hw.
    apply (keep_going_false (sP st) w tau n); auto; [apply (iP _ _ _ _ _ _ Hinv)|].
    rewrite Hw. apply residual_length. exact Hwf.
  - destruct (keep_going _ _ _) eqn:Ek.
    2:{ inversion H; subst d ek Pf; clear H.
        rewrite Hds. split; [eapply inv_final; eauto|].
        intros _ i Hi Hf. rewrite <- (residual_nth n A b (sS st) i Hwf Hi). rewrite <- Hds, <- Hw.
        apply (keep_going_false (sP st) w tau n); auto; [apply (iP _ _ _ _ _ _ Hinv)|].
        rewrite Hw. apply residual_length. exact Hwf. }
    destruct st as [P Pin s d0]. cbn [sP sPin sS sD] in *. subst d0.
    pose proof Hinv as [HP Hs Hnd HIn Hoff Hsol].
    assert (Hlw : length w = n) by (rewrite Hw; apply residual_length; exact Hwf).
    destruct (idmax_ok P w tau n HP Hlw Htau Ek) as [Hid HPid].
    set (idmax := argmax _) in *.
    destruct (solve_sub _ _ (Pin ++ [idmax])) as [x|] eqn:Es; [|discriminate].
    assert (Hnotin : ~ In idmax Pin) by (intros Hin; apply HIn in Hin; destruct Hin; congruence).
    assert (Hinv1 : Inv n A b (upd_set P idmax true) (Pin ++ [idmax]) (@assign ROps s (Pin ++ [idmax]) x)).
    { apply (inv_assign n A b _ _ s _ x); auto.
      - rewrite upd_set_length. exact HP.
      - apply (Permutation_NoDup (Permutation_cons_append Pin idmax)). constructor; assumption.
      - intros i. rewrite in_app_iff, HIn. cbn [In]. rewrite nth_upd_set by lia.
        destruct (Nat.eqb idmax i) eqn:E.
        + apply Nat.eqb_eq in E. subst i. split; [auto|]. intros _. right. left. reflexivity.
        + apply Nat.eqb_neq in E. split; [intros [Hi|[Hi|[]]]; [exact Hi|congruence]|intros Hi; left; exact Hi].
      - intros t Ht Hn. apply Hoff; [exact Ht|]. destruct (nth t P false) eqn:Et; [|reflexivity].
        exfalso. apply Hn. apply in_app_iff. left. apply HIn. auto. }
    destruct (inner _ _ _ _ _ lc2) as [[st2 lc2']|e] eqn:Ei; [|discriminate].
    destruct (inner_correct n A b tau Hwf (S fuel) (mkst (upd_set P idmax true) (Pin ++ [idmax]) (@assign ROps s (Pin ++ [idmax]) x) s) lc2 st2 lc2' Hinv1 Hs Ei) as [Hinv2 [Hd2 Hnf2]].
    destruct (lc + 1 >? 10000)%Z; [discriminate|].
    destruct (_ >=? 3)%Z.
    + inversion H; subst d ek Pf; clear H. split; [eapply inv_final; eauto|]. intros Hc. discriminate.
    + refine (IH (mkst (sP st2) (sPin st2) (sS st2) (sS st2)) _ _ _ _ d ek Pf _ _ _ _ H); cbn [sP sPin sS sD]; auto.
Qed.

(* ====================================================================== F. fnnls: KKT at exit *)
Definition gradR (A : list (list R)) (b d : list R) (i : nat) : R := dotR (rowR A i) d - nth i b 0.
Lemma grad_gradR A b d i : @grad ROps A b d i = gradR A b d i.
Proof. unfold grad, gradR. cbn [sub ROps]. rewrite dot_dotR. reflexivity. Qed.

(* the Karush-Kuhn-Tucker certificate of  min 1/2 s^T A s - b^T s  s.t. s >= 0, with slack tau on the multipliers *)
Definition KKT (A : list (list R)) (b d : list R) (tau : R) : Prop :=
  length d = length b /\
  forall i, (i < length b)%nat ->
    0 <= nth i d 0 /\ (0 < nth i d 0 -> gradR A b d i = 0) /\ (nth i d 0 = 0 -> - tau <= gradR A b d i).
(* primal feasibility and stationarity on the support (holds at every exit, also at the no_update break) *)
Definition Stationary (A : list (list R)) (b d : list R) : Prop :=
  length d = length b /\
  forall i, (i < length b)%nat -> 0 <= nth i d 0 /\ (0 < nth i d 0 -> gradR A b d i = 0).

Lemma final_stationary n A b tau d P : wf n A b -> 0 <= tau -> Final n A b tau d P -> Stationary A b d.
Proof.
  intros [HA [Hr Hb]] Ht [HP [Hd [Hpos [Hzero Hsol]]]]. split; [lia|]. rewrite Hb. intros i Hi.
  destruct (nth i P false) eqn:E.
  - specialize (Hpos i Hi E). specialize (Hsol i Hi E). split; [lra|]. intros _. unfold gradR. lra.
  - specialize (Hzero i Hi E). split; [lra|]. intros Hc. lra.
Qed.
Lemma final_kkt n A b tau d P : wf n A b -> 0 <= tau -> Final n A b tau d P ->
  (forall i, (i < n)%nat -> nth i P false = false -> nth i b 0 - dotR (rowR A i) d <= tau) -> KKT A b d tau.
Proof.
  intros Hwf Ht HF Hdual. destruct (final_stationary n A b tau d P Hwf Ht HF) as [Hl Hst].
  destruct Hwf as [HA [Hr Hb]]. destruct HF as [HP [Hd [Hpos [Hzero Hsol]]]].
  split; [exact Hl|]. rewrite Hb in *. intros i Hi. destruct (Hst i Hi) as [H1 H2]. repeat split; auto.
  intros Hz. destruct (nth i P false) eqn:E.
  - specialize (Hpos i Hi E). lra.
  - specialize (Hdual i Hi E). unfold gradR. lra.
Qed.

Lemma nth_repeat_false i n : nth i (repeat false n) false = false.
Proof. revert i. induction n; intros [|i]; simpl; auto. Qed.
Lemma sel_all_false {B} : forall P (v : list B), (forall i, nth i P false = false) -> sel P v = [].
Proof.
  induction P as [|p P IH]; intros [|x v] H; try reflexivity.
  rewrite sel_cons. pose proof (H 0%nat) as H0. simpl in H0. subst p. apply IH. intros i. exact (H (S i)).
Qed.
Lemma tolerance_nonneg (eps : R) n : 0 <= eps -> 0 <= @tolerance ROps eps n.
Proof.
  intros H. unfold tolerance, ofNat. cbn [mul ofZ ROps]. apply Rmult_le_pos; [exact H|]. apply IZR_le. lia.
Qed.

Lemma fnnls_correct n A b (eps : R) pinit fuel (d : list R) ek Pf :
  wf n A b -> 0 <= eps -> (forall P0, pinit = Some P0 -> length P0 = n) ->
  @fnnls ROps fuel A b eps pinit = Ok (d, ek, Pf) ->
  let tau := @tolerance ROps eps n in
  Final n A b tau d Pf /\
  (ek = ExitCond -> forall i, (i < n)%nat -> nth i Pf false = false -> nth i b 0 - dotR (rowR A i) d <= tau).
Proof.
  intros Hwf He Hp H tau. pose proof (tolerance_nonneg eps n He) as Htau. fold tau in Htau.
  unfold fnnls in H. destruct Hwf as [HA HA']. norm. rewrite HA in H. pose proof (conj HA HA') as Hwf. fold tau in H.
  destruct pinit as [P0|].
  - specialize (Hp P0 eq_refl).
    destruct (solve_on _ _ P0) as [s0|] eqn:Es; [|discriminate].
    pose proof (inv_solve_on n A b P0 s0 Hwf Hp Es) as Hinv0.
    destruct (prune _ _ _ _ P0 s0) as [[P s]|e] eqn:Epr; [|discriminate].
    destruct (prune_correct n A b tau Hwf _ _ _ _ _ Hp (iS _ _ _ _ _ _ Hinv0) Epr) as [Hc [HP [Hs Hnf]]].
    assert (Hinv : Inv n A b P (idx_of P) s) by (destruct Hc as [[-> ->]|Hc]; assumption).
    refine (outer_correct n A b tau Hwf Htau fuel (mkst P (idx_of P) s s) _ _ _ _ d ek Pf _ _ _ _ H);
      cbn [sP sPin sS sD]; auto.
  - refine (outer_correct n A b tau Hwf Htau fuel (mkst (repeat false n) [] (@zeros ROps n) (@zeros ROps n)) _ _ _ _ d ek Pf _ _ _ _ H);
      cbn [sP sPin sS sD]; auto.
    + constructor.
      * apply repeat_length.
      * apply zeros_R_length.
      * constructor.
      * intros i. rewrite nth_repeat_false. split; [intros []|intros [_ Hc]; discriminate].
      * intros i _ _. apply nth_zeros_any.
      * intros i [].
    + unfold need_fix. rewrite sel_all_false by (intros i; apply nth_repeat_false). reflexivity.
Qed.

Theorem fnnls_kkt_on_normal_exit n A b (eps : R) pinit fuel (d : list R) Pf :
  wf n A b -> 0 <= eps -> (forall P0, pinit = Some P0 -> length P0 = n) ->
  @fnnls ROps fuel A b eps pinit = Ok (d, ExitCond, Pf) ->
  KKT A b d (@tolerance ROps eps n).
Proof.
  intros Hwf He Hp H. destruct (fnnls_correct n A b eps pinit fuel d ExitCond Pf Hwf He Hp H) as [HF Hd].
  apply (final_kkt n A b _ d Pf Hwf (tolerance_nonneg eps n He) HF). apply Hd. reflexivity.
Qed.

Theorem fnnls_stationary_any_exit n A b (eps : R) pinit fuel (d : list R) ek Pf :
  wf n A b -> 0 <= eps -> (forall P0, pinit = Some P0 -> length P0 = n) ->
  @fnnls ROps fuel A b eps pinit = Ok (d, ek, Pf) ->
  Stationary A b d.
Proof.
  intros Hwf He Hp H. destruct (fnnls_correct n A b eps pinit fuel d ek Pf Hwf He Hp H) as [HF _].
  exact (final_stationary n A b _ d Pf Hwf (tolerance_nonneg eps n He) HF).
Qed.

(* the executable certificate [kkt_ok] (the one the correspondence run evaluates on the implementation's output) accepts *)
Lemma KKT_kkt_ok A b d (tau : R) : 0 <= tau -> KKT A b d tau -> @kkt_ok ROps A b d tau = true.
Proof.
  intros Ht [Hl H]. unfold kkt_ok. norm. rewrite Hl, Nat.eqb_refl. cbn [andb]. apply forallb_forall.
  intros i Hi. apply in_seq in Hi. destruct (H i ltac:(lia)) as [H1 [H2 H3]].
  rewrite nthT_R, grad_gradR. cbn [leb ltb opp ROps]. unfold zero, absT. cbn [ofZ ltb opp ROps].
  apply andb_true_iff. split; [apply Rleb_true; exact H1|].
  destruct (Rltb 0 (nth i d 0)) eqn:E; rbool.
  - rewrite (H2 E). unfold zero. cbn [ofZ ROps]. destruct (Rltb 0 0) eqn:E2; rbool; apply Rleb_true; lra.
  - apply Rleb_true. apply H3. lra.
Qed.

(* ====================================================================== G. KKT => (unique) minimiser, by convexity *)
Definition S1 (n : nat) (f : nat -> R) : R := sumR (map f (seq 0 n)).
Definition Bil (a : nat -> nat -> R) (n : nat) (p q : nat -> R) : R := S1 n (fun i => S1 n (fun j => p i * (a i j * q j))).

Lemma S1_ext n f g : (forall i, (i < n)%nat -> f i = g i) -> S1 n f = S1 n g.
Proof. intros H. unfold S1. apply sumR_map_ext. intros i Hi. apply in_seq in Hi. apply H. lia. Qed.
Lemma S1_add n f g : S1 n (fun i => f i + g i) = S1 n f + S1 n g.
Proof. unfold S1. apply sumR_map_add. Qed.
Lemma S1_scal n c f : S1 n (fun i => c * f i) = c * S1 n f.
Proof. unfold S1. apply sumR_map_scal. Qed.
Lemma S1_le n f g : (forall i, (i < n)%nat -> f i <= g i) -> S1 n f <= S1 n g.
Proof.
  unfold S1. intros H. assert (G : forall l, (forall i, In i l -> f i <= g i) -> sumR (map f l) <= sumR (map g l)).
  { induction l as [|x l IH]; intros Hl; cbn; [lra|]. pose proof (Hl x (or_introl eq_refl)).
    assert (sumR (map f l) <= sumR (map g l)) by (apply IH; intros; apply Hl; right; assumption). lra. }
  apply G. intros i Hi. apply in_seq in Hi. apply H. lia.
Qed.
Lemma S1_zero n f : (forall i, (i < n)%nat -> f i = 0) -> S1 n f = 0.
Proof. intros H. unfold S1. apply sumR_map_zero. intros i Hi. apply in_seq in Hi. apply H. lia. Qed.
Lemma S1_swap n (f : nat -> nat -> R) : S1 n (fun i => S1 n (fun j => f i j)) = S1 n (fun j => S1 n (fun i => f i j)).
Proof. unfold S1. apply sumR_swap. Qed.

Lemma Bil_ext a n p q p' q' : (forall i, (i < n)%nat -> p i = p' i) -> (forall i, (i < n)%nat -> q i = q' i) ->
  Bil a n p q = Bil a n p' q'.
Proof. intros Hp Hq. unfold Bil. apply S1_ext. intros i Hi. apply S1_ext. intros j Hj. rewrite Hp, Hq by assumption. reflexivity. Qed.
Lemma Bil_add_r a n p q r : Bil a n p (fun j => q j + r j) = Bil a n p q + Bil a n p r.
Proof.
  unfold Bil. rewrite <- S1_add. apply S1_ext. intros i _. rewrite <- S1_add. apply S1_ext. intros j _. ring.
Qed.
Lemma Bil_add_l a n p q r : Bil a n (fun j => p j + q j) r = Bil a n p r + Bil a n q r.
Proof.
  unfold Bil. rewrite <- S1_add. apply S1_ext. intros i _. rewrite <- S1_add. apply S1_ext. intros j _. ring.
Qed.
Lemma Bil_sym a n p q : (forall i j, (i < n)%nat -> (j < n)%nat -> a i j = a j i) -> Bil a n p q = Bil a n q p.
Proof.
  intros Hs. unfold Bil. rewrite S1_swap. apply S1_ext. intros i Hi. apply S1_ext. intros j Hj.
  rewrite (Hs j i) by assumption. ring.
Qed.

Section Convex.
  Variable n : nat.
  Variable a : nat -> nat -> R.
  Variables bb dd yy : nat -> R.
  Hypothesis Hsym : forall i j, (i < n)%nat -> (j < n)%nat -> a i j = a j i.
  Let ee := fun i => yy i - dd i.
  Let gg := fun i => S1 n (fun j => a i j * dd j) - bb i.
  Let FF := fun x : nat -> R => / 2 * Bil a n x x - S1 n (fun i => bb i * x i).

  Lemma objective_expansion : FF yy - FF dd = S1 n (fun i => gg i * ee i) + / 2 * Bil a n ee ee.
  Proof.
    unfold FF.
    assert (Hy : Bil a n yy yy = Bil a n dd dd + Bil a n dd ee + (Bil a n ee dd + Bil a n ee ee)).
    { rewrite (Bil_ext a n yy yy (fun i => dd i + ee i) (fun i => dd i + ee i)) by (intros; unfold ee; ring).
      rewrite Bil_add_l, !Bil_add_r. reflexivity. }
    rewrite Hy. rewrite (Bil_sym a n dd ee Hsym).
    assert (Hb : S1 n (fun i => bb i * yy i) = S1 n (fun i => bb i * dd i) + S1 n (fun i => bb i * ee i)).
    { rewrite <- S1_add. apply S1_ext. intros i _. unfold ee. ring. }
    rewrite Hb.
    assert (Hg : S1 n (fun i => gg i * ee i) = Bil a n ee dd - S1 n (fun i => bb i * ee i)).
    { unfold Bil, gg. replace (S1 n (fun i => S1 n (fun j => ee i * (a i j * dd j))) - S1 n (fun i => bb i * ee i))
        with (S1 n (fun i => S1 n (fun j => ee i * (a i j * dd j))) + S1 n (fun i => -1 * (bb i * ee i)))
        by (rewrite S1_scal; ring).
      rewrite <- S1_add. apply S1_ext. intros i _.
      replace (S1 n (fun j => ee i * (a i j * dd j))) with (ee i * S1 n (fun j => a i j * dd j))
        by (symmetry; apply (S1_scal n (ee i) (fun j => a i j * dd j))).
      ring. }
    rewrite Hg. lra.
  Qed.
End Convex.

(* ---- back to lists ---- *)
Definition sym_mat (n : nat) (A : list (list R)) : Prop :=
  forall i j, (i < n)%nat -> (j < n)%nat -> nth j (rowR A i) 0 = nth i (rowR A j) 0.
Definition quadR (A : list (list R)) (x : list R) : R := dotR x (map (fun r => dotR r x) A).
Definition pos_def (n : nat) (A : list (list R)) : Prop :=
  forall x, length x = n -> (exists i, (i < n)%nat /\ nth i x 0 <> 0) -> 0 < quadR A x.
Definition objR (A : list (list R)) (b x : list R) : R := / 2 * quadR A x - dotR b x.

Lemma objective_objR A b x : @objective ROps A b x = objR A b x.
Proof.
  unfold objective, objR, quadR, mat_vec, half, one, two. cbn [sub mul div ofZ ROps]. rewrite !dot_dotR.
  rewrite (map_ext (fun r : list R => @dot ROps r x) (fun r => dotR r x)) by (intros; apply dot_dotR).
  norm. lra.
Qed.

Definition aij (A : list (list R)) (i j : nat) : R := nth j (rowR A i) 0.
Definition vf (x : list R) (i : nat) : R := nth i x 0.

Lemma dotR_S1 n (r x : list R) : length r = n -> length x = n -> dotR r x = S1 n (fun j => vf r j * vf x j).
Proof. intros Hr Hx. rewrite dotR_seq by lia. rewrite Hx. reflexivity. Qed.
Lemma quadR_Bil n A b x : wf n A b -> length x = n -> quadR A x = Bil (aij A) n (vf x) (vf x).
Proof.
  intros Hwf Hx. pose proof Hwf as [HA [Hr Hb]]. unfold quadR, Bil.
  rewrite (dotR_S1 n) by (auto; rewrite map_length; exact HA).
  apply S1_ext. intros i Hi.
  assert (Hrow : vf (map (fun r => dotR r x) A) i = dotR (rowR A i) x).
  { unfold vf. rewrite (nth_indep _ 0 (dotR [] x)) by (rewrite map_length; lia).
    exact (map_nth (fun r => dotR r x) A [] i). }
  rewrite Hrow. rewrite (dotR_S1 n (rowR A i) x) by (auto; eapply row_length; eauto).
  rewrite <- S1_scal. apply S1_ext. intros j Hj. unfold aij, vf. reflexivity.
Qed.

Definition sumv (y : list R) : R := sumR y.
Lemma sumR_S1 (y : list R) : sumR y = S1 (length y) (vf y).
Proof.
  unfold S1, vf. induction y as [|x y IH]; [reflexivity|]. cbn [length seq map sumR nth].
  rewrite <- seq_shift, map_map. cbn [nth]. rewrite IH. reflexivity.
Qed.

Lemma all_zero_dec (n : nat) (e : nat -> R) :
  (forall i, (i < n)%nat -> e i = 0) \/ (exists i, (i < n)%nat /\ e i <> 0).
Proof.
  induction n as [|n IH]; [left; intros; lia|].
  destruct IH as [IH|[i [Hi He]]]; [|right; exists i; split; [lia|exact He]].
  destruct (Req_dec (e n) 0) as [E|E]; [left|right; exists n; split; [lia|exact E]].
  intros i Hi. destruct (Nat.eq_dec i n); [subst; exact E|apply IH; lia].
Qed.

Lemma Bil_zero a n p q : (forall i, (i < n)%nat -> p i = 0) -> Bil a n p q = 0.
Proof. intros H. unfold Bil. apply S1_zero. intros i Hi. apply S1_zero. intros j _. rewrite H by assumption. ring. Qed.

(* F(y) - F(d) = g . (y - d) + 1/2 (y - d)^T A (y - d) *)
Lemma objR_expansion n A b d y : wf n A b -> sym_mat n A -> length d = n -> length y = n ->
  let e := fun i => vf y i - vf d i in
  objR A b y - objR A b d = S1 n (fun i => gradR A b d i * e i) + / 2 * Bil (aij A) n e e.
Proof.
  intros Hwf Hsym Hd Hy e. pose proof Hwf as [HA [Hr Hb]]. unfold objR.
  rewrite (quadR_Bil n A b y Hwf Hy), (quadR_Bil n A b d Hwf Hd).
  rewrite !(dotR_S1 n) by assumption.
  pose proof (objective_expansion n (aij A) (vf b) (vf d) (vf y) Hsym) as HE. cbv zeta in HE.
  rewrite HE. f_equal. apply S1_ext. intros i Hi. unfold gradR.
  rewrite (dotR_S1 n) by (auto; eapply row_length; eauto). reflexivity.
Qed.

Theorem kkt_minimiser n A b d (tau : R) y :
  wf n A b -> sym_mat n A -> pos_def n A -> 0 <= tau -> KKT A b d tau ->
  length y = n -> (forall i, (i < n)%nat -> 0 <= nth i y 0) ->
  objR A b d - tau * sumR y <= objR A b y.
Proof.
  intros Hwf Hsym Hpd Ht [Hl Hk] Hy Hpos. pose proof Hwf as [HA [Hr Hb]]. rewrite Hb in *.
  pose proof (objR_expansion n A b d y Hwf Hsym Hl Hy) as HE. cbv zeta in HE.
  set (e := fun i => vf y i - vf d i) in *.
  assert (Hq : 0 <= Bil (aij A) n e e).
  { destruct (all_zero_dec n e) as [Hz|Hnz]; [rewrite Bil_zero by exact Hz; lra|].
    set (el := map e (seq 0 n)).
    assert (Hel : length el = n) by (unfold el; rewrite map_length, seq_length; reflexivity).
    assert (Hev : forall i, (i < n)%nat -> vf el i = e i) by (intros i Hi; unfold vf, el; apply nth_map_seq; exact Hi).
    pose proof (Hpd el Hel) as H0. rewrite (quadR_Bil n A b el Hwf Hel) in H0.
    rewrite (Bil_ext _ n (vf el) (vf el) e e Hev Hev) in H0. apply Rlt_le. apply H0.
    destruct Hnz as [i [Hi He]]. exists i. split; [exact Hi|]. change (vf el i <> 0). rewrite Hev by exact Hi. exact He. }
  assert (Hg : - tau * S1 n (vf y) <= S1 n (fun i => gradR A b d i * e i)).
  { rewrite <- S1_scal. apply S1_le. intros i Hi. destruct (Hk i Hi) as [H1 [H2 H3]]. specialize (Hpos i Hi).
    unfold e, vf in *. destruct (Rle_lt_or_eq_dec _ _ H1) as [Hlt|Heq].
    - rewrite (H2 Hlt). nra.
    - specialize (H3 (eq_sym Heq)). rewrite <- Heq. nra. }
  rewrite sumR_S1, Hy. lra.
Qed.

Theorem kkt_unique_minimiser n A b d y :
  wf n A b -> sym_mat n A -> pos_def n A -> KKT A b d 0 ->
  length y = n -> (forall i, (i < n)%nat -> 0 <= nth i y 0) ->
  objR A b y <= objR A b d -> y = d.
Proof.
  intros Hwf Hsym Hpd [Hl Hk] Hy Hpos Hle. pose proof Hwf as [HA [Hr Hb]]. rewrite Hb in *.
  pose proof (objR_expansion n A b d y Hwf Hsym Hl Hy) as HE. cbv zeta in HE.
  set (e := fun i => vf y i - vf d i) in *.
  assert (Hg : 0 <= S1 n (fun i => gradR A b d i * e i)).
  { rewrite <- (S1_zero n (fun _ => 0)) by reflexivity. apply S1_le. intros i Hi.
    destruct (Hk i Hi) as [H1 [H2 H3]]. specialize (Hpos i Hi).
    unfold e, vf in *. destruct (Rle_lt_or_eq_dec _ _ H1) as [Hlt|Heq].
    - rewrite (H2 Hlt). lra.
    - specialize (H3 (eq_sym Heq)). rewrite <- Heq. nra. }
  destruct (all_zero_dec n e) as [Hz|Hnz].
  - apply (nth_ext _ _ 0 0); [lia|]. intros i Hi. rewrite Hy in Hi. specialize (Hz i Hi). unfold e, vf in Hz. lra.
  - exfalso. set (el := map e (seq 0 n)).
    assert (Hel : length el = n) by (unfold el; rewrite map_length, seq_length; reflexivity).
    assert (Hev : forall i, (i < n)%nat -> vf el i = e i) by (intros i Hi; unfold vf, el; apply nth_map_seq; exact Hi).
    pose proof (Hpd el Hel) as H0. rewrite (quadR_Bil n A b el Hwf Hel) in H0.
    rewrite (Bil_ext _ n (vf el) (vf el) e e Hev Hev) in H0.
    assert (0 < Bil (aij A) n e e).
    { apply H0. destruct Hnz as [i [Hi He]]. exists i. split; [exact Hi|]. change (vf el i <> 0). rewrite Hev by exact Hi. exact He. }
    lra.
Qed.

(* ====================================================================== H. the wrappers *)
Theorem positive_negative_sound n A b ranges chk :
  wf n A b ->
  match @reconstruction_positive_negative ROps A b ranges chk with
  | Ok s => length s = n /\ forall i, (i < n)%nat -> dotR (rowR A i) s = nth i b 0
  | Raise e => e = InversionException
  end.
Proof.
  intros Hwf. unfold reconstruction_positive_negative.
  destruct (solve _ _) as [s|] eqn:Es; [|reflexivity].
  destruct (_ && _); [reflexivity|]. exact (solve_sound n A b s Hwf Es).
Qed.

Lemma positive_only_x_fnnls n A b (eps : R) up fuel (d : list R) ek : wf n A b ->
  @reconstruction_positive_only_x ROps fuel A b eps up = Ok (d, ek) ->
  exists pinit Pf, (forall P0, pinit = Some P0 -> length P0 = n) /\ @fnnls ROps fuel A b eps pinit = Ok (d, ek, Pf).
Proof.
  intros Hwf H. unfold reconstruction_positive_only_x in H. destruct b as [|b0 b']; [discriminate|].
  set (b := b0 :: b') in *. destruct up.
  - destruct (solve _ _) as [u|] eqn:Es; [|discriminate].
    destruct (fnnls _ _ _ _ _) as [[[d' ek'] Pf]|e] eqn:Ef; [|discriminate]. inversion H; subst d' ek'.
    eexists. exists Pf. split; [|exact Ef]. intros P0 HP0. inversion HP0; subst P0.
    rewrite map_length. exact (proj1 (solve_sound n A b u Hwf Es)).
  - destruct (fnnls _ _ _ _ _) as [[[d' ek'] Pf]|e] eqn:Ef; [|discriminate]. inversion H; subst d' ek'.
    exists None, Pf. split; [intros P0 HP0; discriminate|exact Ef].
Qed.

Theorem positive_only_kkt n A b (eps : R) up fuel (d : list R) : wf n A b -> 0 <= eps ->
  @reconstruction_positive_only_x ROps fuel A b eps up = Ok (d, ExitCond) -> KKT A b d (@tolerance ROps eps n).
Proof.
  intros Hwf He H. destruct (positive_only_x_fnnls n A b eps up fuel d ExitCond Hwf H) as [pinit [Pf [Hp Hf]]].
  exact (fnnls_kkt_on_normal_exit n A b eps pinit fuel d Pf Hwf He Hp Hf).
Qed.
Theorem positive_only_stationary n A b (eps : R) up fuel (d : list R) : wf n A b -> 0 <= eps ->
  @reconstruction_positive_only ROps fuel A b eps up = Ok d -> Stationary A b d.
Proof.
  intros Hwf He H. unfold reconstruction_positive_only in H.
  destruct (reconstruction_positive_only_x _ _ _ _ _) as [[d' ek]|e] eqn:Ex; [|discriminate]. inversion H; subst d'.
  destruct (positive_only_x_fnnls n A b eps up fuel d ek Hwf Ex) as [pinit [Pf [Hp Hf]]].
  exact (fnnls_stationary_any_exit n A b eps pinit fuel d ek Pf Hwf He Hp Hf).
Qed.
Theorem positive_only_raises_inversion_exception A b (eps : R) up fuel e :
  @reconstruction_positive_only ROps fuel A b eps up = Raise e -> e = InversionException.
Proof.
  unfold reconstruction_positive_only, reconstruction_positive_only_x. destruct b; [intros H; inversion H; reflexivity|].
  destruct up.
  - destruct (solve _ _); [|intros H; inversion H; reflexivity].
    destruct (fnnls _ _ _ _ _) as [[[? ?] ?]|?]; intros H; inversion H; reflexivity.
  - destruct (fnnls _ _ _ _ _) as [[[? ?] ?]|?]; intros H; inversion H; reflexivity.
Qed.

(* ---- forced zeros: the reduced system ---- *)
Lemma wf_submat n A b idx : wf n A b -> wf (length idx) (@submat ROps A idx) (@gather ROps b idx).
Proof.
  intros _. unfold wf, submat, gather. rewrite !map_length. repeat split.
  intros r Hr. apply in_map_iff in Hr. destruct Hr as [i [<- _]]. apply map_length.
Qed.
Lemma submat_row (A : list (list R)) idx k : (k < length idx)%nat ->
  rowR (@submat ROps A idx) k = @gather ROps (rowR A (nth k idx 0%nat)) idx.
Proof.
  intros Hk. unfold row at 1, submat.
  rewrite (nth_indep _ [] ((fun i => @gather ROps (rowR A i) idx) 0%nat)) by (rewrite map_length; exact Hk).
  exact (map_nth (fun i => @gather ROps (rowR A i) idx) idx 0%nat k).
Qed.
Lemma gather_nth (b : list R) idx k : (k < length idx)%nat -> nth k (@gather ROps b idx) 0 = nth (nth k idx 0%nat) b 0.
Proof.
  intros Hk. unfold gather. rewrite (nth_indep _ 0 (@nthT ROps b 0%nat)) by (rewrite map_length; exact Hk).
  exact (map_nth (@nthT ROps b) idx 0%nat k).
Qed.

Definition ids_zeros_of (set : settings) (objs : list (@lobj ROps)) : list nat :=
  if force_edge_image_pixels_to_zeros set
  then @mapper_edge_pixel_list ROps objs ++ @mapper_zero_pixel_list ROps objs (image_pixels_source_zero set)
  else @mapper_edge_pixel_list ROps objs.
Definition kept_of (n : nat) (ids : list nat) : list nat :=
  idx_of (map (fun i => negb (existsb (Nat.eqb i) ids)) (seq 0 n)).

Lemma kept_of_In n ids i : In i (kept_of n ids) <-> ((i < n)%nat /\ ~ In i ids).
Proof.
  unfold kept_of. rewrite idx_of_In, map_length, seq_length. split.
  - intros [Hi H]. split; [exact Hi|]. intros Hin.
    rewrite nth_map_seq in H by exact Hi. apply negb_true_iff in H.
    assert (existsb (Nat.eqb i) ids = true); [|congruence].
    apply existsb_exists. exists i. split; [exact Hin|apply Nat.eqb_refl].
  - intros [Hi H]. split; [exact Hi|].
    rewrite nth_map_seq by exact Hi. apply negb_true_iff.
    destruct (existsb (Nat.eqb i) ids) eqn:E; [|reflexivity]. exfalso. apply H.
    apply existsb_exists in E. destruct E as [j [Hj E]]. apply Nat.eqb_eq in E. subst j. exact Hj.
Qed.

Theorem forced_zero_reduced_system n A b (eps : R) fuel set objs (s : list R) :
  wf n A b -> 0 <= eps ->
  use_positive_only_solver set = true -> force_edge_pixels_to_zeros set = true ->
  @reconstruction ROps fuel set objs A b eps = Ok s ->
  let ids := ids_zeros_of set objs in
  let idx := kept_of n ids in
  exists x,
    @reconstruction_positive_only ROps fuel (@submat ROps A idx) (@gather ROps b idx) eps (positive_only_uses_p_initial set) = Ok x /\
    length s = n /\ length x = length idx /\
    (forall i, (i < n)%nat -> In i ids -> nth i s 0 = 0) /\
    (forall k, (k < length idx)%nat -> nth (nth k idx 0%nat) s 0 = nth k x 0) /\
    (forall k, (k < length idx)%nat ->
        gradR A b s (nth k idx 0%nat) = gradR (@submat ROps A idx) (@gather ROps b idx) x k).
Proof.
  intros Hwf He Hpos Hforce H ids idx. unfold reconstruction in H. rewrite Hpos, Hforce in H.
  pose proof Hwf as [HA [Hr Hb]]. norm. rewrite HA in H.
  fold (ids_zeros_of set objs) in H. fold ids in H. fold (kept_of n ids) in H. fold idx in H.
  destruct (reconstruction_positive_only _ _ _ _ _) as [x|e] eqn:Ex; [|discriminate].
  inversion H; subst s; clear H. exists x.
  pose proof (wf_submat n A b idx Hwf) as Hwf'.
  destruct (positive_only_stationary _ _ _ eps _ fuel x Hwf' He Ex) as [Hlx _].
  assert (Hlx' : length x = length idx) by (transitivity (length (@gather ROps b idx)); [exact Hlx|unfold gather; apply map_length]).
  assert (Hnd : NoDup idx) by (apply idx_of_NoDup).
  assert (Hlt : forall i, In i idx -> (i < n)%nat) by (intros i Hi; apply kept_of_In in Hi; tauto).
  assert (Hlen : length (@assign ROps (@zeros ROps n) idx x) = n) by (rewrite assign_length; apply zeros_R_length).
  assert (Hon : forall k, (k < length idx)%nat -> nth (nth k idx 0%nat) (@assign ROps (@zeros ROps n) idx x) 0 = nth k x 0).
  { intros k Hk. rewrite assign_nth by (rewrite zeros_R_length; apply Hlt; apply nth_In; exact Hk).
    rewrite find_pos_nth by assumption. reflexivity. }
  assert (Hoff : forall t, (t < n)%nat -> ~ In t idx -> nth t (@assign ROps (@zeros ROps n) idx x) 0 = 0).
  { intros t Ht Hn. rewrite assign_nth by (rewrite zeros_R_length; exact Ht).
    rewrite (find_pos_notin _ _ Hn). apply nth_zeros_any. }
  repeat split; auto.
  - intros i Hi Hin. apply Hoff; [exact Hi|]. intros Hk. apply kept_of_In in Hk. tauto.
  - intros k Hk. unfold gradR. rewrite submat_row, gather_nth by exact Hk. f_equal.
    apply (reindex _ _ x idx n); auto. eapply row_length; eauto. apply Hlt. apply nth_In. exact Hk.
Qed.

(* ====================================================================== I. mapped reconstructed data *)
Lemma fold_left_acc (f : nat -> R) : forall l a, fold_left (fun acc j => acc + f j) l a = a + sumR (map f l).
Proof. induction l as [|x l IH]; intros a; cbn [fold_left map sumR]; [lra|]. rewrite IH. lra. Qed.

Lemma mapped_row (r s : list R) : length r = length s ->
  fold_left (fun acc j => add ROps acc (mul ROps (@nthT ROps s j) (@nthT ROps r j))) (seq 0 (length s)) (@zero ROps) = dotR r s.
Proof.
  intros H. cbn [add mul ROps]. unfold zero. cbn [ofZ ROps].
  rewrite (fold_left_acc (fun j => nth j s 0 * nth j r 0)). rewrite dotR_seq by exact H.
  rewrite Rplus_0_l. apply sumR_map_ext. intros j _. ring.
Qed.

Theorem mapped_is_matrix_vector (M : list (list R)) (s : list R) :
  (forall r, In r M -> length r = length s) ->
  @mapped_via_mapping_matrix ROps M s = map (fun r => dotR r s) M.
Proof.
  intros H. unfold mapped_via_mapping_matrix. apply map_ext_in. intros r Hr. apply mapped_row. apply H. exact Hr.
Qed.

Lemma dotR_app (a1 a2 b1 b2 : list R) : length a1 = length b1 -> dotR (a1 ++ a2) (b1 ++ b2) = dotR a1 b1 + dotR a2 b2.
Proof.
  revert b1. induction a1 as [|x a1 IH]; intros [|y b1] H; simpl in H; try discriminate.
  - unfold dotR at 2. simpl. lra.
  - cbn [app]. rewrite !dotR_cons, IH by lia. lra.
Qed.

Lemma vadd_length (a v : list R) : length a = length v -> length (@vadd ROps a v) = length a.
Proof. intros H. unfold vadd. norm. rewrite map_length, combine_length. lia. Qed.
Lemma vadd_nth (a v : list R) i : length a = length v -> nth i (@vadd ROps a v) 0 = nth i a 0 + nth i v 0.
Proof.
  intros H. unfold vadd. norm.
  destruct (Nat.lt_ge_cases i (length a)) as [Hi|Hi].
  - rewrite (nth_map_default _ _ i 0 (0, 0)) by (rewrite combine_length; lia).
    rewrite combine_nth by exact H. reflexivity.
  - rewrite !nth_overflow; [lra|lia|lia|rewrite map_length, combine_length; lia].
Qed.

(* shape of one (blurred) mapping matrix: npix rows, all of the width of the first *)
Definition wfB (npix : nat) (B : list (list R)) : Prop :=
  length B = npix /\ forall r, In r B -> length r = length (hd [] B).
Definition widths (Bs : list (list (list R))) : list nat := map (fun B => length (hd [] B)) Bs.

Lemma mapped_nth npix (B : list (list R)) (so : list R) i : wfB npix B -> length so = length (hd [] B) -> (i < npix)%nat ->
  nth i (@mapped_via_mapping_matrix ROps B so) 0 = dotR (rowR B i) so.
Proof.
  intros [HB Hr] Hso Hi. rewrite mapped_is_matrix_vector by (intros r Hin; rewrite Hso; apply Hr; exact Hin).
  rewrite (nth_indep _ 0 (dotR [] so)) by (rewrite map_length; lia).
  exact (map_nth (fun r => dotR r so) B [] i).
Qed.
Lemma mapped_length (B : list (list R)) (so : list R) : length (@mapped_via_mapping_matrix ROps B so) = length B.
Proof. unfold mapped_via_mapping_matrix. apply map_length. Qed.

Lemma mapped_dict_cons (B : list (list R)) Bs (s : list R) :
  @mapped_dict ROps (B :: Bs) s =
  @mapped_via_mapping_matrix ROps B (firstn (length (hd [] B)) s) :: @mapped_dict ROps Bs (skipn (length (hd [] B)) s).
Proof. reflexivity. Qed.

Lemma per_object_acc npix : forall (Bs : list (list (list R))) (s acc : list R),
  (forall B, In B Bs -> wfB npix B) -> length s = list_sum (widths Bs) -> length acc = npix ->
  length (fold_left (@vadd ROps) (@mapped_dict ROps Bs s) acc) = npix /\
  forall i, (i < npix)%nat ->
    nth i (fold_left (@vadd ROps) (@mapped_dict ROps Bs s) acc) 0
    = nth i acc 0 + dotR (flat_map (fun B => rowR B i) Bs) s.
Proof.
  induction Bs as [|B Bs IH]; intros s acc HB Hs Hacc.
  - split; [exact Hacc|]. intros i Hi. cbn. unfold dotR. cbn. lra.
  - rewrite mapped_dict_cons. cbn [fold_left].
    set (p := length (hd [] B)) in *.
    assert (Hs' : length s = (p + list_sum (widths Bs))%nat) by exact Hs. clear Hs. rename Hs' into Hs.
    pose proof (HB B (or_introl eq_refl)) as HwB.
    assert (Hf : length (firstn p s) = p) by (rewrite firstn_length, Hs; apply Nat.min_l; lia).
    assert (Hk : length (skipn p s) = list_sum (widths Bs)) by (rewrite skipn_length; lia).
    assert (Hv : length (@mapped_via_mapping_matrix ROps B (firstn p s)) = npix) by (rewrite mapped_length; apply HwB).
    assert (Hacc' : length (@vadd ROps acc (@mapped_via_mapping_matrix ROps B (firstn p s))) = npix)
      by (rewrite vadd_length; [exact Hacc|exact (eq_trans Hacc (eq_sym Hv))]).
    destruct (IH (skipn p s) _ (fun B' H' => HB B' (or_intror H')) Hk Hacc') as [Hl Hn].
    split; [exact Hl|]. intros i Hi. rewrite (Hn i Hi). rewrite vadd_nth by exact (eq_trans Hacc (eq_sym Hv)).
    pose proof (mapped_nth npix B (firstn p s) i HwB Hf Hi) as Hm. norm. rewrite Hm.
    cbn [flat_map]. rewrite <- (firstn_skipn p s) at 3. rewrite dotR_app; [lra|].
    rewrite Hf. destruct HwB as [HlB HrB]. apply HrB. unfold row. apply nth_In. norm. rewrite HlB. exact Hi.
Qed.

Theorem per_object_data_sums npix (Bs : list (list (list R))) (s : list R) :
  (forall B, In B Bs -> wfB npix B) -> length s = list_sum (widths Bs) ->
  @mapped_total ROps npix (@mapped_dict ROps Bs s) = @hstack_dot ROps Bs s npix.
Proof.
  intros HB Hs. unfold mapped_total, hstack_dot.
  destruct (per_object_acc npix Bs s (@zeros ROps npix) HB Hs (zeros_R_length npix)) as [Hl Hn].
  apply (nth_ext _ _ 0 0); [rewrite map_length, seq_length; exact Hl|].
  intros i Hi. norm. rewrite Hl in Hi. rewrite (Hn i Hi), nth_zeros_any, nth_map_seq by exact Hi.
  rewrite dot_dotR. lra.
Qed.

(* each dictionary entry is that object's blurred mapping matrix times its slice of the reconstruction *)
Theorem per_object_entry (Bs : list (list (list R))) (s : list R) :
  @mapped_dict ROps Bs s = map (fun Bs_s => @mapped_via_mapping_matrix ROps (fst Bs_s) (snd Bs_s))
                               (combine Bs (@split_by ROps (widths Bs) s)).
Proof. reflexivity. Qed.

Theorem split_by_concat : forall ps (s : list R), length s = list_sum ps ->
  concat (@split_by ROps ps s) = s /\ map (@length R) (@split_by ROps ps s) = ps.
Proof.
  induction ps as [|p ps IH]; intros s H; cbn [split_by concat map].
  - destruct s; [auto|discriminate].
  - assert (H' : length s = (p + list_sum ps)%nat) by exact H.
    assert (Hk : length (skipn p s) = list_sum ps) by (rewrite skipn_length; lia).
    destruct (IH _ Hk) as [H1 H2]. norm. rewrite H1, H2, firstn_skipn, firstn_length. split; [reflexivity|]. f_equal. lia.
Qed.

(* ====================================================================== J. corollaries: the model returns THE minimiser; warm = cold *)
Lemma tolerance_zero n : @tolerance ROps 0 n = 0.
Proof. unfold tolerance. cbn [mul ROps]. apply Rmult_0_l. Qed.

Lemma KKT_nonneg A b d (tau : R) n : wf n A b -> KKT A b d tau -> length d = n /\ forall i, (i < n)%nat -> 0 <= nth i d 0.
Proof. intros [_ [_ Hb]] [Hl H]. split; [lia|]. intros i Hi. apply H. lia. Qed.

Theorem positive_only_is_minimiser n A b (eps : R) up fuel (d : list R) y :
  wf n A b -> sym_mat n A -> pos_def n A -> 0 <= eps ->
  @reconstruction_positive_only_x ROps fuel A b eps up = Ok (d, ExitCond) ->
  length y = n -> (forall i, (i < n)%nat -> 0 <= nth i y 0) ->
  objR A b d - @tolerance ROps eps n * sumR y <= objR A b y.
Proof.
  intros Hwf Hs Hp He H Hy Hpos.
  apply (kkt_minimiser n A b d _ y Hwf Hs Hp (tolerance_nonneg eps n He)); auto.
  exact (positive_only_kkt n A b eps up fuel d Hwf He H).
Qed.

(* with an exact tolerance the answer does not depend on the warm start: every start that leaves through the loop
   condition returns the same vector, the unique minimiser *)
Theorem warm_start_irrelevant n A b pinit1 pinit2 fuel1 fuel2 (d1 d2 : list R) P1 P2 :
  wf n A b -> sym_mat n A -> pos_def n A ->
  (forall P0, pinit1 = Some P0 -> length P0 = n) -> (forall P0, pinit2 = Some P0 -> length P0 = n) ->
  @fnnls ROps fuel1 A b 0 pinit1 = Ok (d1, ExitCond, P1) ->
  @fnnls ROps fuel2 A b 0 pinit2 = Ok (d2, ExitCond, P2) ->
  d1 = d2.
Proof.
  intros Hwf Hs Hp Hp1 Hp2 H1 H2.
  pose proof (fnnls_kkt_on_normal_exit n A b 0 pinit1 fuel1 d1 P1 Hwf (Rle_refl 0) Hp1 H1) as K1.
  pose proof (fnnls_kkt_on_normal_exit n A b 0 pinit2 fuel2 d2 P2 Hwf (Rle_refl 0) Hp2 H2) as K2.
  rewrite tolerance_zero in K1, K2.
  destruct (KKT_nonneg A b d1 0 n Hwf K1) as [L1 N1]. destruct (KKT_nonneg A b d2 0 n Hwf K2) as [L2 N2].
  apply (kkt_unique_minimiser n A b d2 d1 Hwf Hs Hp K2 L1 N1).
  pose proof (kkt_minimiser n A b d1 0 d2 Hwf Hs Hp (Rle_refl 0) K1 L2 N2). lra.
Qed.

(* ====================================================================== K. w-tilde: unique mappings = mapping matrix x reconstruction *)
Lemma unique_row_is_matrix_row (prow : list Z) (wrow s : list R) len :
  (forall p, (p < len)%nat -> (Z.to_nat (nth p prow 0%Z) < length s)%nat) ->
  @unique_row ROps prow wrow len s = dotR (@unique_matrix_row ROps prow wrow len (length s)) s.
Proof.
  intros Hin. unfold unique_row. cbn [add mul ROps]. unfold zero. cbn [ofZ ROps].
  rewrite (fold_left_acc (fun p => nth p wrow 0 * nth (Z.to_nat (nth p prow 0%Z)) s 0)). rewrite Rplus_0_l.
  rewrite dotR_seq by (unfold unique_matrix_row; rewrite map_length, seq_length; reflexivity).
  unfold unique_matrix_row.
  transitivity (sumR (map (fun j => sumR (map (fun p => (if Nat.eqb j (Z.to_nat (nth p prow 0%Z)) then nth p wrow 0 * nth j s 0 else 0)) (seq 0 len))) (seq 0 (length s)))).
  2:{ apply sumR_map_ext. intros j Hj. apply in_seq in Hj. rewrite nth_map_seq by lia. rewrite sumT_sumR.
      rewrite Rmult_comm, <- sumR_map_scal. apply sumR_map_ext. intros p _. rewrite Nat.eqb_sym.
      destruct (Nat.eqb _ _); unfold zero; cbn [ofZ ROps]; rewrite ?nthT_R; ring. }
  rewrite sumR_swap. apply sumR_map_ext. intros p Hp. apply in_seq in Hp.
  rewrite (sumR_indicator Nat.eqb (fun j => nth p wrow 0 * nth j s 0) (Z.to_nat (nth p prow 0%Z)) (seq 0 (length s))).
  - assert (E : existsb (fun j => Nat.eqb j (Z.to_nat (nth p prow 0%Z))) (seq 0 (length s)) = true).
    { apply existsb_exists. exists (Z.to_nat (nth p prow 0%Z)). split; [apply in_seq; specialize (Hin p); lia|apply Nat.eqb_refl]. }
    rewrite E. reflexivity.
  - intros x y. apply Nat.eqb_eq.
  - apply seq_NoDup.
Qed.

Theorem mapped_via_unique_is_matrix_vector (pix : list (list Z)) (wts : list (list R)) (lens : list nat) (s : list R) :
  (forall prow wrow len, In (prow, wrow, len) (combine (combine pix wts) lens) ->
     forall p, (p < len)%nat -> (Z.to_nat (nth p prow 0%Z) < length s)%nat) ->
  @mapped_via_unique ROps pix wts lens s
  = map (fun pwl : (list Z * list R) * nat =>
           dotR (@unique_matrix_row ROps (fst (fst pwl)) (snd (fst pwl)) (snd pwl) (length s)) s)
        (combine (combine pix wts) lens).
Proof.
  intros H. unfold mapped_via_unique. apply map_ext_in. intros [[prow wrow] len] Hin. cbn [fst snd].
  apply unique_row_is_matrix_row. exact (H prow wrow len Hin).
Qed.

(* ====================================================================== L. symbolic execution of the model at ROps on literal inputs *)
Ltac rdecide1 :=
  match goal with
  | |- context [Rltb ?a ?b] =>
      first [ rewrite (proj2 (Rltb_true a b)) by lra | rewrite (proj2 (Rltb_false a b)) by lra ]
  | |- context [Rleb ?a ?b] =>
      first [ rewrite (proj2 (Rleb_true a b)) by lra | rewrite (proj2 (Rleb_false a b)) by lra ]
  | |- context [Reqb ?a ?b] =>
      first [ rewrite (proj2 (Reqb_true a b)) by lra | rewrite (proj2 (Reqb_false a b)) by lra ]
  end.
Ltac rexec := cbn; repeat (unfold maxT, minT, absT; cbn [ltb leb eqb ROps]; rdecide1; cbn).
